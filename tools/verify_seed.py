#!/usr/bin/env python3
"""Confirm a sub-agent's seeded change independently, then (optionally) file it under /verif/seeded/<id>/.
  tools/verify_seed.py <prop> <A|B> [--file]
Steps (scratch copy of /repo outside /repo and /verif, removed afterwards):
  1. demo only      -> suite: baseline passes + demo tests pass
  2. patch only     -> suite identical to baseline (470 pass, parse_long_form fails)
  3. patch + demo   -> at least one demo test fails
  4. our checks against patch-only copy -> which properties raise VIOLATION
"""
import json, os, re, shutil, subprocess, sys, tempfile

VERIF = "/verif"
NEXTEST = ["cargo", "nextest", "run", "--workspace", "--no-fail-fast", "--offline", "--test-threads", "8"]


def sh(cmd, cwd, env=None, timeout=1200):
    e = dict(os.environ)
    if env:
        e.update(env)
    r = subprocess.run(cmd, cwd=cwd, env=e, capture_output=True, text=True, timeout=timeout)
    return r.returncode, r.stdout + r.stderr


def suite(repo, tgt):
    rc, out = sh(NEXTEST, repo, {"CARGO_TARGET_DIR": tgt})
    fails = sorted(set(re.findall(r"^\s+(?:FAIL|SIGABRT|SIGSEGV|TIMEOUT)\s+\[[^\]]*\]\s+(?:\(\S+\)\s+)?(\S+ \S+)", out, re.M)))
    m = re.search(r"(\d+) tests run: (\d+) passed(?:, (\d+) failed)?", out)
    comp_err = "error: could not compile" in out or "error[E" in out
    return {"ran": int(m.group(1)) if m else None, "passed": int(m.group(2)) if m else None, "failed_n": int(m.group(3) or 0) if m else None,
            "fails": fails, "compile_error": comp_err, "tail": out[-1500:] if (comp_err or not m) else ""}


def apply(repo, diff):
    rc, out = sh(["patch", "-p1", "-s", "--no-backup-if-mismatch", "-i", diff], repo)
    return rc == 0, out


def fresh(base):
    repo = os.path.join(base, "repo")
    if os.path.exists(repo):
        shutil.rmtree(repo)
    subprocess.run(["rsync", "-a", "--exclude", "target", "--exclude", ".git", "/repo/", repo + "/"], check=True)
    return repo


def main():
    if sys.argv[1] == "--files":
        # tools/verify_seed.py --files <patch> <demo> <notes> <prop> <variant> [--file]
        patch, demo, notes, prop, which = sys.argv[2:7]
        out_dir = os.path.dirname(patch)
    elif sys.argv[1] == "--reverify":
        # re-confirm an already filed seed (seeded/<Cnn-X>/) against /repo's current tree
        prop, which = sys.argv[2].split("-")
        out_dir = os.path.join(VERIF, "seeded", sys.argv[2])
        patch, demo, notes = os.path.join(out_dir, "patch.diff"), os.path.join(out_dir, "demo.diff"), os.path.join(out_dir, "notes.md")
    else:
        prop, which = sys.argv[1], sys.argv[2]
        out_dir = "/tmp/seed/%s-out" % prop
        patch = os.path.join(out_dir, "%s.patch.diff" % which)
        demo = os.path.join(out_dir, "%s.demo.diff" % which)
        notes = os.path.join(out_dir, "%s.notes.md" % which)
    res = {"property": prop, "variant": which, "ok": False}
    if not (os.path.exists(patch) and os.path.exists(demo)):
        res["error"] = "deliverables missing"
        print(json.dumps(res)); return 1
    base = tempfile.mkdtemp(prefix="rws-vseed-%s%s-" % (prop, which))
    tgt = os.path.join(base, "target")
    try:
        # 1 demo only
        repo = fresh(base)
        ok, o = apply(repo, demo)
        if not ok:
            res["error"] = "demo does not apply on the unchanged tree: " + o[-300:]; print(json.dumps(res)); return 1
        s1 = suite(repo, tgt)
        res["demo_only"] = s1
        base_fail = ["rws::bin/rws entry_point::command_line_args::tests::parse_long_form"]
        # 2 patch only
        repo = fresh(base)
        ok, o = apply(repo, patch)
        if not ok:
            res["error"] = "patch does not apply on the current tree: " + o[-300:]; print(json.dumps(res)); return 1
        s2 = suite(repo, tgt)
        res["patch_only"] = s2
        # our checks on the patch-only copy
        evdir = os.path.join(base, "evidence")
        m = json.load(open(os.path.join(VERIF, "MANIFEST.json")))
        props = [c["property_id"] for c in m["checks"]]
        caught = {}
        for p in props:
            rc, out = sh([os.path.join(VERIF, "check"), p, "--tier", "quick"], VERIF, {"RWS_REPO": repo, "RWS_EVIDENCE_DIR": evdir, "RWS_CACHE_DIR": os.path.join(base, "cache"), "RWS_NO_THOROUGH": "1"})
            v = [l for l in out.splitlines() if l.startswith("VIOLATION")]
            keys = [l.strip() for l in out.splitlines() if l.strip().startswith("rule=")]
            if rc != 0:
                caught[p] = {"rc": rc, "n": len(v), "keys": keys[:4]}
        res["caught_by"] = caught
        # 3 patch + demo
        ok, o = apply(repo, demo)
        if not ok:
            res["error"] = "demo does not apply on top of the patch: " + o[-300:]; print(json.dumps(res)); return 1
        s3 = suite(repo, tgt)
        res["patch_and_demo"] = s3
        new_fail = [f for f in s3["fails"] if f not in s1["fails"]]
        res["demo_fails_with_patch"] = new_fail
        cond1 = (not s1["compile_error"]) and s1["passed"] is not None and s1["passed"] >= 470 and all("parse_long_form" in f for f in s1["fails"])
        cond2 = (not s2["compile_error"]) and s2["passed"] == 470 and s2["failed_n"] == 1 and all("parse_long_form" in f for f in s2["fails"])
        cond3 = (not s3["compile_error"]) and len(new_fail) >= 1
        res["confirmed"] = {"demo_passes_on_unchanged_tree": cond1, "suite_unchanged_with_patch": cond2, "demo_fails_with_patch": cond3}
        res["ok"] = bool(cond1 and cond2 and cond3)
        if res["ok"] and "--file" in sys.argv:
            d = os.path.join(VERIF, "seeded", "%s-%s" % (prop, which))
            os.makedirs(d, exist_ok=True)
            shutil.copy(patch, os.path.join(d, "patch.diff"))
            shutil.copy(demo, os.path.join(d, "demo.diff"))
            if os.path.exists(notes):
                shutil.copy(notes, os.path.join(d, "notes.md"))
            meta = {"breaks": prop, "origin": "independent sub-agent given only the property text and a scratch worktree",
                    "needs_to_manifest": "see notes.md",
                    "what_i_ran": ["demo only: nextest -> %s passed, fails=%s" % (s1["passed"], s1["fails"]),
                                   "patch only: nextest -> %s passed, %s failed (%s)" % (s2["passed"], s2["failed_n"], s2["fails"]),
                                   "patch + demo: nextest -> new failing tests %s" % new_fail,
                                   "./check <each claimed property> against the patched copy"],
                    "caught_by": caught}
            json.dump(meta, open(os.path.join(d, "meta.json"), "w"), indent=1)
        print(json.dumps(res))
        return 0 if res["ok"] else 1
    finally:
        shutil.rmtree(base, ignore_errors=True)


if __name__ == "__main__":
    sys.exit(main())
