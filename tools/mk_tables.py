#!/usr/bin/env python3
"""Authoring helper (not part of any check): turn my per-line triage judgments into exact-key table entries.
Judgments are keyed by (file suffix, line, kind) at the time of writing; the tables store line-free site ids."""
import sys, json, subprocess
sys.path.insert(0, '/verif')
J = json.load(open(sys.argv[1]))   # {"safe": {"file:line[:kind-substring]": reason}, "known": {...: {"prop":..,"what":..}}}
which = sys.argv[2]
out = subprocess.run([sys.executable, '/verif/tools/triage.py', which], capture_output=True, text=True).stdout
tbl_path = '/verif/tables/safe_sites.json'
tbl = json.load(open(tbl_path))
have = {e["site"] for e in tbl["sites"]}
left = []
for line in out.splitlines():
    loc, sid, rest = line.split("\t", 2)
    hit = None
    for k, reason in J.get("safe", {}).items():
        parts = k.split("|")
        if loc == parts[0] and (len(parts) == 1 or parts[1] in sid):
            hit = reason
    if hit and sid not in have:
        tbl["sites"].append({"site": sid, "reason": hit, "at_time_of_writing": loc})
        have.add(sid)
    elif not hit:
        left.append(line)
tbl["sites"].sort(key=lambda e: e["site"])
json.dump(tbl, open(tbl_path, "w"), indent=1)
print("\n".join(left))
print("remaining:", len(left), file=sys.stderr)
