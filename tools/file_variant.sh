#!/bin/bash
# tools/file_variant.sh <mutants|benign> <name> <variant-repo-dir> <meta-json-string>: file a scratch variant of /repo as a selftest case
kind=$1; name=$2; var=$(realpath $3); meta=$4
d=/verif/selftest/$kind/$name; mkdir -p $d
t=$(mktemp -d /tmp/fv-XXXX); mkdir -p $t/a $t/b
rsync -a /repo/src $t/a/; rsync -a $var/src $t/b/
(cd $t && diff -ruN a/src b/src > $d/patch.diff)
echo "$meta" > $d/meta.json
rm -rf $t
grep -c '^@@' $d/patch.diff
