#!/usr/bin/env python3
"""Regenerate selftest/mutants/revert-NN-<commit>/patch.diff against /repo's HEAD: each is the reverse of one `fix:` commit
(git revert, falling back to a whitespace-insensitive reverse patch when later commits re-indented the code).
A fixed entry of known_findings.json suppresses nothing; these mutants are how that is tested."""
import json, os, subprocess, sys, tempfile, shutil
V = "/verif"
def sh(*a, cwd=None, inp=None):
    return subprocess.run(a, cwd=cwd, input=inp, capture_output=True, text=True)
tmp = tempfile.mkdtemp(prefix="rws-reverts-")
try:
    sh("git", "clone", "-q", "/repo", tmp + "/r")
    r = tmp + "/r"
    sh("git", "config", "user.email", "x@x", cwd=r); sh("git", "config", "user.name", "x", cwd=r)
    for name in sorted(os.listdir(V + "/selftest/mutants")):
        if not name.startswith("revert-"):
            continue
        c = name.split("-")[2]
        d = os.path.join(V, "selftest/mutants", name)
        sh("git", "reset", "-q", "--hard", "HEAD", cwd=r); sh("git", "clean", "-qfd", cwd=r)
        rv = sh("git", "revert", "--no-commit", c, cwd=r)
        how = "git revert"
        if rv.returncode != 0:
            sh("git", "revert", "--abort", cwd=r); sh("git", "reset", "-q", "--hard", "HEAD", cwd=r)
            diff = sh("git", "show", "--format=", c, cwd=r).stdout
            pr = sh("patch", "-p1", "-R", "-l", "-s", "--no-backup-if-mismatch", cwd=r, inp=diff)
            how = "patch -R -l"
            if pr.returncode != 0:
                print("%-28s CANNOT REVERT automatically: %s" % (name, (pr.stdout + pr.stderr).strip().splitlines()[:2]))
                sh("git", "reset", "-q", "--hard", "HEAD", cwd=r); sh("git", "clean", "-qfd", cwd=r)
                continue
        out = sh("git", "diff", "HEAD", cwd=r).stdout
        old = open(d + "/patch.diff").read() if os.path.exists(d + "/patch.diff") else ""
        if out.strip():
            open(d + "/patch.diff", "w").write(out)
        print("%-28s %s %s" % (name, how, "(unchanged)" if out == old else "(updated)"))
finally:
    shutil.rmtree(tmp, ignore_errors=True)
