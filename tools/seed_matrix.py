#!/usr/bin/env python3
"""Run every claimed check against every confirmed seeded change (patch only) and print / store the detection matrix.
Updates seeded/<id>/meta.json["caught_by"]. Scratch copies live under /tmp and are removed."""
import json, os, shutil, subprocess, sys, tempfile, concurrent.futures
V = "/verif"
m = json.load(open(V + "/MANIFEST.json"))
props = [c["property_id"] for c in m["checks"]]
only = sys.argv[1:] 

def one(name):
    d = os.path.join(V, "seeded", name)
    base = tempfile.mkdtemp(prefix="rws-matrix-")
    try:
        repo = os.path.join(base, "repo")
        subprocess.run(["rsync", "-a", "--exclude", "target", "--exclude", ".git", "/repo/", repo + "/"], check=True)
        r = subprocess.run(["patch", "-p1", "-s", "--no-backup-if-mismatch", "-i", os.path.join(d, "patch.diff")], cwd=repo, capture_output=True, text=True)
        if r.returncode != 0:
            return name, None, "patch does not apply: " + (r.stdout + r.stderr)[-200:]
        caught = {}
        for p in props:
            env = dict(os.environ, RWS_REPO=repo, RWS_EVIDENCE_DIR=os.path.join(base, "ev"), RWS_CACHE_DIR=os.path.join(base, "cache"), RWS_NO_THOROUGH="1")
            r = subprocess.run([V + "/check", p, "--tier", "quick"], cwd=V, env=env, capture_output=True, text=True)
            if r.returncode != 0:
                keys = [l.strip()[5:] for l in r.stdout.splitlines() if l.strip().startswith("rule=")]
                caught[p] = {"rc": r.returncode, "n": len([l for l in r.stdout.splitlines() if l.startswith("VIOLATION")]), "keys": keys[:5]}
        return name, caught, None
    finally:
        shutil.rmtree(base, ignore_errors=True)

names = sorted(n for n in os.listdir(V + "/seeded") if os.path.exists(os.path.join(V, "seeded", n, "patch.diff")) and (not only or n in only))
with concurrent.futures.ThreadPoolExecutor(max_workers=8) as ex:
    for name, caught, err in ex.map(one, names):
        mp = os.path.join(V, "seeded", name, "meta.json")
        meta = json.load(open(mp))
        if err:
            print("%-10s ERROR %s" % (name, err)); continue
        meta["caught_by"] = caught
        meta["checks_run"] = props
        json.dump(meta, open(mp, "w"), indent=1)
        own = meta["breaks"]
        print("%-8s own(%s)=%s  others=%s" % (name, own, "CAUGHT" if own in caught else ("n/a" if own not in props else "MISSED"), {k: v["n"] for k, v in caught.items() if k != own}))
