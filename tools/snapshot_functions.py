#!/usr/bin/env python3
"""tables/function_snapshot.json: the functions of the four crates at the commit the allowlist / known findings were written for
({def path: source file}). The checks use it to recognise a *renamed or moved* function (same file, old name gone, new name
appeared, same allowlisted site signature) and to carry its allowlist entries over, instead of reporting every allowlisted
site of a renamed private helper. Regenerate after every commit to /repo."""
import json, os, subprocess, sys
sys.path.insert(0, "/verif")
from analysis.context import Ctx
ctx = Ctx("quick")
snap = {n: f.file for n, f in ctx.F.fns.items() if f.kind in ("Fn", "AssocFn")}
head = subprocess.run(["git", "-C", "/repo", "rev-parse", "--short", "HEAD"], capture_output=True, text=True).stdout.strip()
json.dump({"_doc": __doc__, "repo_commit": head, "functions": snap}, open("/verif/tables/function_snapshot.json", "w"), indent=1, sort_keys=True)
print(len(snap), "functions at", head)
