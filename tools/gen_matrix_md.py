#!/usr/bin/env python3
"""print a markdown detection matrix for the seeds given by suffix filter (default: letters C, D, E)"""
import json, os, re, sys
V = "/verif/seeded"
want = sys.argv[1] if len(sys.argv) > 1 else "CDE"
print("| seed | change (author's title) | own property | rule(s) that report it | also reported by |")
print("|---|---|---|---|---|")
for n in sorted(os.listdir(V)):
    if n.split("-")[1] not in want:
        continue
    m = json.load(open(os.path.join(V, n, "meta.json")))
    notes = open(os.path.join(V, n, "notes.md")).read() if os.path.exists(os.path.join(V, n, "notes.md")) else ""
    title = ""
    for l in notes.splitlines():
        l = l.strip()
        if not l or l.lower().startswith("property:") or l.startswith("Property"):
            continue
        title = re.sub(r"^#+\s*", "", l)
        title = re.sub(r"^Change \d+\s*-+\s*", "", title).strip('"')
        break
    own = m["breaks"]
    cb = m.get("caught_by") or {}
    rules = sorted({k.split(" key=")[0].replace("rule=", "").split("-")[0] for k in cb.get(own, {}).get("keys", [])})
    others = sorted(k for k in cb if k != own)
    print("| %s | %s | %s | %s | %s |" % (n, title[:150].replace("|", "/"), "caught" if own in cb else "**missed**", ", ".join("%s.%s" % (own, r) for r in rules) or "–", ", ".join(others) or "–"))
