#!/usr/bin/env python3
"""Regenerate /verif/MANIFEST.json from the per-property metadata below (single source of truth for claims)."""
import json, os
V = os.path.dirname(os.path.dirname(os.path.abspath(__file__)))
TB = "Trusted base: rustc nightly's MIR lowering, the rws-facts extractor, the CHA call graph (over-approximating), the reviewed tables under /verif/tables (exempt std panics, file-system API classes, allowlisted sites with one-line reasons)."
P = {
 "C01": ("other", "Sufficient modulo the predicate's body: every content-disclosing file read whose path derives from the request target is reachable from the connection roots only through call edges dominated by the pass edge of the path-containment predicate (both entry points); refusal carries an error status; the predicate compares path segments with '..' on both separators.",
         "interprocedural taint + cut-edge call-graph reachability + edge dominance on MIR", "§4 C01"),
 "C02": ("other", "Four structural clauses only (body bytes and the lookup precedence depend on runtime file-system state and are not decided): both dispatchers pair each process call with the true edge of the same controller's matcher, in the same order, catch-all last; Content-Type / Content-Length / Content-Range derive from the emitted content range; detect_mime_type is pure, returns a constant per decision, defaults to application/octet-stream, has no shadowed suffix and agrees with a reviewed extension table for all 89 extensions; no directory listing API is reachable from a connection root.",
         "edge dominance in dispatchers, sibling order agreement, constant-table extraction of the suffix chain vs a reviewed table, call-graph reachability", "§4 C02"), "C03": ("other", "Structural clauses only (offset arithmetic on runtime lengths is not decided): every assignment to a range bound must pass the three bound checks (end<=length, start<=length, start<=end) before the next iteration or the Ok return, their failing edges return Err; the only rejection reasons are an unparsable number or one of those checks; every error of the range parsers is 416; 206 is selected only with a Range header; each ContentRange stores the very Range value whose start/end were passed to the single partial read, with size from the file length; serialisers label from the emitted element.",
         "must-pass-through inside the loop body, enumeration of rejection edges, constant extraction, same-origin dataflow", "§4 C03"),
 "C05": ("other", "Six structural clauses: response bytes go out through Write::write_all; headers built by the request parser come from the CR/LF stripper; status_code and reason_phrase are always taken from the same registered status entry; the body reaches the bytes only where the method is neither HEAD nor OPTIONS; Content-Length/Content-Type derive from the emitted content range; header lines are name, ': ', value, CRLF with framing headers built in exclusive branches. Wire bytes are not re-parsed.",
         "MIR call-site rules, constant/table extraction, forward pairing of field assignments, edge dominance", "§4 C05"),
 "C09": ("other", "Exhaustive over the method domain: each of the 20 matchers is abstractly executed for all 10 abstract method values (the method is only ever compared for equality with constants), and a matcher that can accept GET must be able to accept HEAD and OPTIONS under the same remaining conditions; 204 is selected only under method == OPTIONS; the serialiser drops the body for HEAD/OPTIONS and computes Content-Length from the content range, independently of the method.",
         "finite-domain abstract interpretation of matcher CFGs over the request method + dominance rules", "§4 C09"),
 "C10": ("other", "Structurally sufficient: the default-header builder pushes each of the six required headers exactly once on every path with the required value (Vary provably names Origin), every reachable Response is built from the builder's result, no reachable code removes or re-creates those headers, and the serialiser iterates the whole list.",
         "must-pass-through / exactly-once CFG checks, who-may-construct and who-may-mutate rules, dataflow of the Vary value", "§4 C10"), "C11": ("other", "Every Access-Control-* header is built only in blocks dominated by the Origin-present test and, in restricted mode, by the true edge of an element-wise equality membership test (substring, prefix and case-insensitive operations are rejected); each grant takes its value from its own setting; the allow-all function is unreachable once the switch parsed to false (infeasible Err branches pruned).",
         "edge dominance, classification of the membership operation, dataflow pairing header<->setting, pruned CFG reachability", "§4 C11"), "C12": ("other", "Table agreement and order: the four sources are folded in the order defaults, environment, config file, command line (call order by dominance in set-up, bootstrap and main); the flag table has one distinct (short, long, variable) entry per setting; each default is paired with its own constant and guarded by 'variable unset'; every spelling documented in rws.command_line, rws.config.toml and rws.variables reaches a table entry and vice versa; the '_'->'-' mapping touches the key only; the setter writes on every accepting path; getters read their own variables.",
         "constant/table extraction from MIR aggregates, call-order dominance, dataflow pairing, comparison with documentation files", "§4 C12"), "C14": ("other", "Four structural clauses: the Ok return of the request-line parser is dominated by the two split_once tests and the method / version membership tests (lists exhaustive against the ADTs, tokeniser is split_once on one space); all three header-line readers split at the first occurrence of the separator constant that the three serialisers write (name, ': ', value, CRLF per header); header lookup folds case on both sides; a non-UTF-8 head line returns Err. Round-trip equality of values is not decided.",
         "edge dominance of the Ok return, exhaustiveness against ADT definitions, sibling agreement", "§4 C14"), "C15": ("other", "Structural clauses: the Ok return of the status-line parser is dominated by version-known, code-numeric, status-found and reason-equal tests; in both serialisers every framing header is pushed onto the Response value whose header vector the loop serialises (one genuine violation is a known finding); the server's serialiser suppresses the body by method tests only, so the siblings agree; multipart delimiters and the boundary parameter share one constant; the registered-status list covers the status struct exactly; no lossy UTF-8 decoding is reachable from the readers.",
         "edge dominance, same-origin of push receiver vs iterated vector, sibling agreement, ADT exhaustiveness, who-may-call", "§4 C15"), "C17": ("other", "Table-agreement clause on the dependency's source plus a who-may-transform rule: the encoder's and decoder's ordered replace chains (extracted from the MIR of url-search-params) are exact inverses with correct hex codes, '%' is escaped first and '%25' must be resolved last (violated in the dependency: known finding), the builder's separators are split by the parser and escaped, the three entry points reach these functions, and the rws wrappers / FormUrlEncoded::parse / echo controllers do not rewrite the text around the decode. Round-trip equality for concrete maps is not decided.",
         "ordered constant-table extraction from MIR, table agreement and order rules, call-graph wiring, who-may-transform", "§4 C17"), "C18": ("proof", "The per-group transformation is proved for all inputs at once: a bit-provenance abstract interpretation (exact for >>, <<, &, | on 8-bit vectors) shows that each of the 9 values handed to the alphabet lookup by encode_sequence is exactly the RFC 4648 sextet of the input bits, with 2/1/0 padding characters, and that each of the 6 bytes returned by decode_sequence is the RFC recombination of the looked-up 6-bit values; the alphabet builder is constant-evaluated to the 64-character RFC alphabet and both lookups use it. The 3-byte / 4-character chunking loops of encode / decode are assumed, not decided.",
         "bit-provenance abstract interpretation over MIR + constant evaluation of the alphabet", "§4 C18"), "C19": None,
 "C04": ("other", "Sufficient modulo the reviewed tables: every potential panic site (unwrap/expect, documented-panicking std call, overflow/bounds/division assert, explicit panic) reachable from the connection roots is guarded by a dominating check, exempt by table or allowlisted with a reason; no input-driven recursion; exactly one response write on every path; error edges answer with the 400 constructor. Genuine residual defects are listed as known findings.",
         "MIR panic-site inventory + dominance-based guard recognition over the call graph; SCC recursion check; CFG path counting", "§4 C04"),
 "C06": ("other", "Structural: panics of request handling are contained by catch_unwind (cut-edge reachability from the worker loop), the accept loop returns only when the listener is exhausted, the queue lock is not held while a task runs, the worker loop has no exit; stack-exhausting recursion is reported.",
         "cut-edge call-graph reachability + dominance on the accept loop + lock-guard dataflow", "§4 C06"),
 "C07": ("other", "Seven necessary structural conditions (lock released before the task runs, exactly `size` workers, no loop exit, no dropped task, submit always sends, single non-nested lock site, FnOnce payload). Each mutant named in the property text violates one; interleavings are not explored.",
         "lock-guard forward dataflow on MIR, loop / must-pass-through checks, type inspection", "§4 C07"),
 "C08": ("other", "Sufficient condition, sound w.r.t. the call graph: nothing reachable from a connection root, the accept loop or the worker loop writes the environment, a static, a thread-local, a file, or captures shared state.",
         "call-graph reachability + type inspection of closure captures and statics", "§4 C08"),
 "C13": ("other", "Sound w.r.t. the over-approximating call graph of the four crates: no file-system mutator, process spawn or foreign call is reachable from any connection root; unclassified std::fs/os/process APIs fail closed.",
         "static call-graph reachability over MIR with a classified API table", "§4 C13"),
 "C20": ("other", "Same engine as C04 rooted at the 46 parsing entry points the property names: panic sites, recursion and loop forms. Genuine residual defects (legacy readers, recursive readers, the dependency) are listed as known findings.",
         "MIR panic-site inventory + guard recognition; SCC recursion check; loop-form classification", "§4 C20"),
}
NA = {
 "C16": "round-trip equality over arbitrary runtime byte strings and boundaries; the known failure (empty part body comes back as CRLF) is length arithmetic on runtime values; no structural clause is both a necessary condition and robust to refactoring. Its no-panic / termination clause is decided under C20.",
}
PENDING = "check under construction in this session (rule designed in DESIGN.md §4, not yet armed); not claimed until it runs clean on the unchanged tree and fires on its mutants"

def main():
    checks = []
    na = [{"property_id": k, "reason": v} for k, v in sorted(NA.items())]
    for pid in sorted(P):
        meta = P[pid]
        if meta is None:
            if os.path.exists(os.path.join(V, "analysis", "rules", pid.lower() + ".py")) and False:
                pass
            na.append({"property_id": pid, "reason": PENDING})
            continue
        cat, text, tech, ref = meta
        checks.append({"property_id": pid, "quick_cmd": "./check %s --tier quick" % pid, "thorough_cmd": "./check %s --tier thorough" % pid,
                       "evidence_file": "evidence/%s.json" % pid, "replay_cmd_template": "./check %s --explain {path}" % pid,
                       "engine": "rws-facts + rules", "level_claimed": {"category": cat, "text": text, "design_ref": "DESIGN.md " + ref},
                       "level_note": TB, "technique": tech})
    m = {"version": 1,
         "setup_cmd": "cd extractor && CARGO_NET_OFFLINE=true cargo build --release --offline",
         "hooks": {"guard": "rws_verif", "enable": "none needed: static analysis reads the unmodified source; no cfg hooks exist in /repo (source_commits is empty)",
                   "baseline_off_cmd": "cd /repo && cargo nextest run --workspace --no-fail-fast --tool-config-file pb:/w/lib/nextest.toml --profile pb --test-threads 8 --offline || cargo test --workspace --no-fail-fast --offline",
                   "source_commits": [], "add_only": True},
         "engines": [{"name": "rws-facts + rules", "path": "extractor/ analysis/ tables/", "serves_properties": [c["property_id"] for c in checks],
                      "kind_free_text": "rustc_private MIR fact extractor (nightly, zero cargo deps) + Python static-analysis rules: call graph with CHA, CFG dominance / edge dominance, guard recognition, lock-guard dataflow, loop forms, constant-table extraction"}],
         "checks": checks, "not_applicable": sorted(na, key=lambda x: x["property_id"]),
         "notes": "All checks are static: they re-extract MIR facts from /repo's working tree on every run (cached by content hash) and never execute rws. Known genuine defects that were not repaired are listed in known_findings.json and printed as KNOWN-FINDING lines."}
    with open(os.path.join(V, "MANIFEST.json"), "w") as fh:
        json.dump(m, fh, indent=1)
    print("claimed:", [c["property_id"] for c in checks], "n/a:", [x["property_id"] for x in na])

if __name__ == "__main__":
    main()
