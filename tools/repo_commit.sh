#!/bin/bash
# tools/repo_commit.sh <message-file>: run the pinned suite on /repo's working tree; commit only if exactly the baseline passes
set -e
cd /repo
OUT=$(cargo nextest run --workspace --no-fail-fast --tool-config-file pb:/w/lib/nextest.toml --profile pb --test-threads 8 --offline 2>&1 | grep -E "Summary|FAIL" | sort -u)
echo "$OUT"
if echo "$OUT" | grep -q "470 passed, 1 failed" && [ "$(echo "$OUT" | grep -c 'FAIL')" = "1" ] && echo "$OUT" | grep -q parse_long_form; then
  git commit -qa -F "$1" && git log --oneline | head -1
else
  echo "NOT COMMITTED: suite differs from baseline"; exit 1
fi
