#!/usr/bin/env python3
"""tools/mutation/report.py <results.jsonl> [--list pass-uncaught|pass-caught] : summary of a mutation campaign"""
import json, sys
from collections import Counter
rs = [json.loads(l) for l in open(sys.argv[1]) if l.strip()]
seen = {}
for r in rs:
    seen[r["id"]] = r
rs = list(seen.values())
def cat(r):
    if r.get("error"): return "error"
    if r.get("tests") == "nocompile": return "nocompile"
    return "%s-%s" % (r.get("tests"), "caught" if r.get("caught") else "uncaught")
c = Counter(cat(r) for r in rs)
print(len(rs), dict(c))
byop = {}
for r in rs:
    byop.setdefault(r["op"], Counter())[cat(r)] += 1
for op, cc in sorted(byop.items()):
    print("  %-5s %s" % (op, dict(cc)))
props = Counter(p for r in rs if cat(r) == "pass-caught" for p in r["caught"])
print("pass-caught by property:", dict(props))
if "--list" in sys.argv:
    want = sys.argv[sys.argv.index("--list") + 1]
    for r in sorted(rs, key=lambda r: (r["file"], r["line"])):
        if cat(r) == want:
            print("%s %s:%d %s %r -> %r %s" % (r["id"], r["file"], r["line"], r["op"], r["before"][:70], r["after"], {p: [k.split("|", 2)[-1][:90] for k in ks[:2]] for p, ks in r.get("caught", {}).items()} or ""))
