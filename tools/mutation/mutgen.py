#!/usr/bin/env python3
"""tools/mutation/mutgen.py [--repo /repo] > mutants.json : enumerate small syntactic mutants of the non-test sources of rws.
Development aid (not a registered check): the mutants are fed to tools/mutation/campaign.py, which asks, for each one, whether the
pinned test suite still passes and which checks report it; the survivors nobody reports are triaged by hand / by sub-agents.
Operators: ROR (relational), LCR (&& / ||), NEG (drop a `!`), BOOL (true/false), AOR (+1/-1 dropped, +/-), SDL (statement deleted),
JMP (break/continue), PRED (is_some/is_none, is_ok/is_err, starts_with/ends_with/contains), LIT (integer literal +1)."""
import json, os, re, sys


def mask(text):
    """same-length text with comments, string and char literals blanked"""
    out = list(text)
    i, n = 0, len(text)
    while i < n:
        c = text[i]
        if text.startswith("//", i):
            j = text.find("\n", i)
            j = n if j < 0 else j
            for k in range(i, j):
                out[k] = " "
            i = j
        elif text.startswith("/*", i):
            j = text.find("*/", i + 2)
            j = n if j < 0 else j + 2
            for k in range(i, j):
                if out[k] != "\n":
                    out[k] = " "
            i = j
        elif c == '"' or (c == "r" and re.match(r'r#*"', text[i:]) and not (i and (text[i - 1].isalnum() or text[i - 1] == "_"))) or (c == "b" and text.startswith('b"', i)):
            if c == '"' or c == "b":
                j = i + (2 if c == "b" else 1)
                while j < n and text[j] != '"':
                    j += 2 if text[j] == "\\" else 1
                j += 1
            else:
                m = re.match(r'r(#*)"', text[i:])
                close = '"' + m.group(1)
                j = text.find(close, i + len(m.group(0)))
                j = n if j < 0 else j + len(close)
            for k in range(i + 1, j - 1):
                if out[k] != "\n":
                    out[k] = " "
            i = j
        elif c == "'":
            m = re.match(r"'(\\.[^']*|[^'\\])'", text[i:])
            if m:
                for k in range(i + 1, i + len(m.group(0)) - 1):
                    out[k] = " "
                i += len(m.group(0))
            else:
                i += 1
        else:
            i += 1
    return "".join(out)


OPS = [
    ("ROR", r"(?<=[\w\)\]] )==(?= )", "!="), ("ROR", r"(?<=[\w\)\]] )!=(?= )", "=="),
    ("ROR", r"(?<=[\w\)\]] )<(?= [\w\(\-])", "<="), ("ROR", r"(?<=[\w\)\]] )<=(?= )", "<"),
    ("ROR", r"(?<=[\w\)\]] )>(?= [\w\(\-])", ">="), ("ROR", r"(?<=[\w\)\]] )>=(?= )", ">"),
    ("LCR", r"&&", "||"), ("LCR", r"\|\|(?! \{)(?!\{)", "&&"),
    ("NEG", r"(?<=[ \(])!(?=[\w\(])", ""),
    ("BOOL", r"\btrue\b", "false"), ("BOOL", r"\bfalse\b", "true"),
    ("AOR", r" \+ 1\b", ""), ("AOR", r" - 1\b", ""), ("AOR", r"(?<=[\w\)\]] )\+(?= [\w\(])", "-"), ("AOR", r"(?<=[\w\)\]] )-(?= [\w\(])", "+"),
    ("JMP", r"\bbreak;", "continue;"), ("JMP", r"\bcontinue;", "break;"),
    ("PRED", r"\.is_some\(\)", ".is_none()"), ("PRED", r"\.is_none\(\)", ".is_some()"), ("PRED", r"\.is_ok\(\)", ".is_err()"), ("PRED", r"\.is_err\(\)", ".is_ok()"),
    ("PRED", r"\.starts_with\(", ".ends_with("), ("PRED", r"\.ends_with\(", ".starts_with("),
    ("LIT", r"(?<![\w\.])(\d+)(?![\w\.])", None),
    ("MCD", r"\.(to_lowercase|to_uppercase|to_ascii_lowercase|trim|trim_end|trim_start)\(\)", ""),
]
SDL = re.compile(r"^[ \t]*(?!let |return|break|continue|//|\}|pub |fn |use |mod |if |else|while |for |loop|match |#)[\w\.\(\)\[\]&\*: <>,'\"!\-\+=/\{\}\|\\%\?]+;[ \t]*$")


def sites(repo):
    src = os.path.join(repo, "src")
    out = []
    for root, _, files in os.walk(src):
        for f in sorted(files):
            p = os.path.join(root, f)
            rel = os.path.relpath(p, repo)
            if not f.endswith(".rs") or "tests" in rel or "/example" in rel:
                continue
            text = open(p).read()
            m = mask(text)
            for op, pat, rep in OPS:
                for mt in re.finditer(pat, m):
                    a, b = mt.span()
                    line = text.count("\n", 0, a) + 1
                    ls = text.rfind("\n", 0, a) + 1
                    lm = m[ls:m.find("\n", a) if m.find("\n", a) >= 0 else len(m)]
                    if op == "LIT":
                        # not in attributes / type positions / array lengths of consts
                        if lm.lstrip().startswith("#") or re.search(r"\b(const|static)\b", lm):
                            continue
                        r = str(int(mt.group(1)) + 1)
                    else:
                        r = rep
                    if op in ("ROR", "AOR") and re.search(r"\b(fn|impl|struct|enum|type|where)\b", lm):
                        continue
                    out.append({"file": rel, "line": line, "op": op, "start": a, "end": b, "before": text[a:b], "after": r})
            # STR: string constants of tables and `const` items (one character changed)
            for mt in re.finditer(r'"((?:[^"\\\n]|\\.)+)"', text):
                a, b = mt.span()
                ls = text.rfind("\n", 0, a) + 1
                le = text.find("\n", a)
                line_txt = text[ls:le if le >= 0 else len(text)]
                if m[a] != '"' or not (re.search(r"\bconst\b.*=", line_txt) or re.search(r"\w+:\s*&?\"", line_txt)):
                    continue
                if re.search(r"println!|format!|eprintln!|expect\(|panic!", line_txt):
                    continue
                lit = mt.group(1)
                new = lit[:-1] + ("x" if lit[-1] != "x" else "y") if not lit.endswith(("\\n", "\\r", "\\t", '\\"', "\\\\")) else "x" + lit
                out.append({"file": rel, "line": text.count("\n", 0, a) + 1, "op": "STR", "start": a + 1, "end": b - 1, "before": lit, "after": new})
            off = 0
            for ln, (lt, lmk) in enumerate(zip(text.split("\n"), m.split("\n")), 1):
                if SDL.match(lmk) and lmk.count("(") == lmk.count(")") and lmk.count("{") == lmk.count("}"):
                    out.append({"file": rel, "line": ln, "op": "SDL", "start": off, "end": off + len(lt), "before": lt.strip(), "after": ""})
                off += len(lt) + 1
    for i, s in enumerate(out):
        s["id"] = "m%05d" % i
    return out


if __name__ == "__main__":
    repo = sys.argv[sys.argv.index("--repo") + 1] if "--repo" in sys.argv else "/repo"
    s = sites(repo)
    json.dump(s, sys.stdout, indent=0)
    from collections import Counter
    print(Counter(x["op"] for x in s), len(s), file=sys.stderr)
