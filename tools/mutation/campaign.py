#!/usr/bin/env python3
"""tools/mutation/campaign.py <mutants.json> <results.jsonl> [--jobs N] [--no-tests]: for every mutant (tools/mutation/mutgen.py), in a
scratch copy of /repo under $MC_ROOT (default /tmp/mc): (1) does the pinned suite still give 470 passed / 1 failed, (2) which of the
claimed checks report it and under which keys. Development aid, not a registered check; everything it creates lives under $MC_ROOT."""
import json, os, re, shutil, subprocess, sys, threading, queue

V = "/verif"
ROOT = os.environ.get("MC_ROOT", "/tmp/mc")
props = [c["property_id"] for c in json.load(open(V + "/MANIFEST.json"))["checks"]]
TEST = ["cargo", "nextest", "run", "--workspace", "--no-fail-fast", "--tool-config-file", "pb:/w/lib/nextest.toml", "--profile", "pb", "--test-threads", "4", "--offline"]


def run_tests(repo):
    # own process group: a mutant that makes a test spin for ever must not outlive the timeout
    pr = subprocess.Popen(TEST, cwd=repo, stdout=subprocess.PIPE, stderr=subprocess.STDOUT, text=True, start_new_session=True)
    try:
        out, _ = pr.communicate(timeout=600)
    except subprocess.TimeoutExpired:
        import signal
        os.killpg(pr.pid, signal.SIGKILL)
        pr.communicate()
        return "timeout", []
    if "error: could not compile" in out or re.search(r"^error(\[E\d+\])?:", out, re.M) and "Summary" not in out:
        return "nocompile", []
    m = re.search(r"Summary.*?(\d+) passed(?:, (\d+) failed)?", out)
    fails = sorted(set(re.findall(r"FAIL \[[^\]]*\] \(\s*\d+/\d+\) (\S+ \S+)", out)))
    tmo = re.findall(r"TIMEOUT|SIGABRT|SIGSEGV", out)
    if m and m.group(1) == "470" and (m.group(2) or "0") == "1" and any("parse_long_form" in f for f in fails) and not tmo:
        return "pass", []
    return "fail", [f for f in fails if "parse_long_form" not in f][:8]


def run_checks(repo, base):
    caught = {}
    env = dict(os.environ, RWS_REPO=repo, RWS_EVIDENCE_DIR=os.path.join(base, "ev"), RWS_CACHE_DIR=os.path.join(base, "cache"), RWS_NO_THOROUGH="1")
    for p in props:
        r = subprocess.run([V + "/check", p, "--tier", "quick"], cwd=V, env=env, capture_output=True, text=True)
        if r.returncode != 0:
            keys = re.findall(r"key=(\S+)", r.stdout)
            if any("facts-unavailable" in k for k in keys) or (not keys and "extraction failed" in (r.stdout + r.stderr)):
                shutil.rmtree(os.path.join(base, "cache"), ignore_errors=True)
                return None
            caught[p] = keys[:6] or ["<exit %d>" % r.returncode]
    shutil.rmtree(os.path.join(base, "cache"), ignore_errors=True)
    return caught


def worker(i, q, outfh, lock, do_tests):
    base = os.path.join(ROOT, "w%d" % i)
    repo = os.path.join(base, "repo")
    if not os.path.isdir(repo):
        os.makedirs(base, exist_ok=True)
        subprocess.run(["rsync", "-a", "--exclude", ".git", "/repo/", repo + "/"], check=True)
    while True:
        try:
            m = q.get_nowait()
        except queue.Empty:
            return
        p = os.path.join(repo, m["file"])
        orig = open(os.path.join("/repo", m["file"])).read()
        assert orig[m["start"]:m["end"]].strip() == m["before"].strip() or m["op"] != "SDL", m
        mut = orig[:m["start"]] + m["after"] + orig[m["end"]:]
        open(p, "w").write(mut)
        res = dict(m)
        try:
            caught = run_checks(repo, base)
            if caught is None:
                res["tests"], res["caught"] = "nocompile", {}
            else:
                res["caught"] = caught
                res["tests"], res["failed"] = run_tests(repo) if do_tests else ("skipped", [])
        except Exception as e:
            res["error"] = repr(e)[:300]
        finally:
            open(p, "w").write(orig)
        with lock:
            outfh.write(json.dumps(res) + "\n")
            outfh.flush()


def main():
    muts = json.load(open(sys.argv[1]))
    done = set()
    if os.path.exists(sys.argv[2]):
        done = {json.loads(l)["id"] for l in open(sys.argv[2]) if l.strip()}
    jobs = int(sys.argv[sys.argv.index("--jobs") + 1]) if "--jobs" in sys.argv else 12
    q = queue.Queue()
    for m in muts:
        if m["id"] not in done:
            q.put(m)
    outfh = open(sys.argv[2], "a")
    lock = threading.Lock()
    ts = [threading.Thread(target=worker, args=(i, q, outfh, lock, "--no-tests" not in sys.argv)) for i in range(jobs)]
    for t in ts:
        t.start()
    for t in ts:
        t.join()


main()
