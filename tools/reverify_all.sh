#!/bin/bash
# re-confirm every filed seed against /repo's current tree (4 at a time); prints one line per seed
cd /verif
ls seeded | xargs -P 4 -I{} sh -c 'python3 tools/verify_seed.py --reverify {} > /tmp/reverify-{}.json 2>/dev/null; python3 -c "
import json,sys
try:
    r=json.load(open(\"/tmp/reverify-{}.json\"))
    print(\"{}\", \"CONFIRMED\" if r.get(\"ok\") else \"NOT-CONFIRMED\", r.get(\"confirmed\"), r.get(\"error\",\"\"), sorted((r.get(\"caught_by\") or {}).keys()))
except Exception as e: print(\"{}\", \"ERROR\", e)
"'
