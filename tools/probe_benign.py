#!/usr/bin/env python3
"""tools/probe_benign.py <patch.diff>...: run every claimed check on a scratch copy of /repo with the patch applied; any VIOLATION is a
candidate false alarm (the patches are meant to be behaviour-preserving). Scratch copies live under $TMPDIR and are removed."""
import json, os, shutil, subprocess, sys, tempfile, concurrent.futures
V = "/verif"
props = [c["property_id"] for c in json.load(open(V + "/MANIFEST.json"))["checks"]]

def one(patch):
    base = tempfile.mkdtemp(prefix="rws-probe-")
    try:
        repo = os.path.join(base, "repo")
        subprocess.run(["rsync", "-a", "--exclude", "target", "--exclude", ".git", "/repo/", repo + "/"], check=True)
        r = subprocess.run(["patch", "-p1", "-s", "--no-backup-if-mismatch", "-i", os.path.abspath(patch)], cwd=repo, capture_output=True, text=True)
        if r.returncode != 0:
            return patch, None, "patch does not apply: " + (r.stdout + r.stderr)[-200:]
        alarms = {}
        for p in props:
            env = dict(os.environ, RWS_REPO=repo, RWS_EVIDENCE_DIR=os.path.join(base, "ev"), RWS_CACHE_DIR=os.path.join(base, "cache"), RWS_NO_THOROUGH="1")
            r = subprocess.run([V + "/check", p, "--tier", "quick"], cwd=V, env=env, capture_output=True, text=True)
            if r.returncode != 0:
                lines = r.stdout.splitlines()
                alarms[p] = [l.strip() for l in lines if l.strip().startswith("rule=")][:6] + [l.strip()[:300] for l in lines if l.startswith("  src/") or l.startswith("  /")][:6]
        return patch, alarms, None
    finally:
        shutil.rmtree(base, ignore_errors=True)

with concurrent.futures.ThreadPoolExecutor(max_workers=6) as ex:
    for patch, alarms, err in ex.map(one, sys.argv[1:]):
        if err:
            print("%-40s ERROR %s" % (patch, err)); continue
        print("%-40s %s" % (patch, "silent" if not alarms else "ALARMS " + ",".join(sorted(alarms))))
        for p, ls in (alarms or {}).items():
            for l in ls:
                print("      ", p, l)
