#!/bin/bash
# tools/on_variant.sh <dir-with-patch.diff> <Cnn> [more props]: run checks against a scratch copy of /repo with the patch applied
d=$(realpath $1); shift
t=$(mktemp -d /tmp/rws-onv-XXXX); trap "rm -rf $t" EXIT
rsync -a --exclude target --exclude .git /repo/ $t/repo/
(cd $t/repo && patch -p1 -s --no-backup-if-mismatch < $d/patch.diff) || { echo "patch does not apply"; exit 2; }
for p in "$@"; do RWS_REPO=$t/repo RWS_EVIDENCE_DIR=$t/ev RWS_CACHE_DIR=$t/cache RWS_NO_THOROUGH=1 /verif/check $p | grep -E "key=|== C.*:" | cut -c1-260; done
