#!/usr/bin/env python3
"""List potential panic sites (from given roots) that are neither guarded, exempt, allowlisted nor known. For authoring tables only."""
import sys, json
sys.path.insert(0, '/verif')
from analysis.context import Ctx
from analysis import panics
from analysis.rules.c04 import site_id
ctx = Ctx()
inv = panics.Inventory(ctx)
which = sys.argv[1] if len(sys.argv) > 1 else "conn"
if which == "conn":
    roots = ctx.R.connection_roots()
elif which == "all":
    roots = list(ctx.F.fns)
else:
    from analysis.rules import c20
    roots = c20.parser_roots(ctx)[0]
seen = ctx.G.reachable(roots)
safe = {e["site"] for e in ctx.table("safe_sites")["sites"]}
out = []
for n in sorted(seen):
    fn = ctx.F.fns.get(n)
    if not fn or fn.kind == 'Promoted':
        continue
    for s in inv.sites(fn):
        if s.status == 'unguarded' and site_id(s) not in safe:
            out.append((s.file.split('/src/')[-1] if 'registry' in s.file else s.file, s.line, site_id(s), s.reason, s.extra))
for o in sorted(out):
    print("%s:%d\t%s\t%s %s" % o)
print(len(out), file=sys.stderr)
