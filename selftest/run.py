#!/usr/bin/env python3
"""Self-test of the checker: apply each seeded mutant / benign variant to a scratch copy of /repo (outside /repo and /verif),
re-extract facts, run the named checks, and require: mutants -> the expected check reports a violation naming the instance;
benign variants -> every check stays silent.  Scratch copies are removed immediately.

usage: selftest/run.py [--only name[,name]] [--kind mutants|benign|seeded|all] [--jobs N] [--keep]
"""
import argparse, json, os, shutil, subprocess, sys, tempfile, concurrent.futures, time

VERIF = os.path.dirname(os.path.dirname(os.path.abspath(__file__)))
REPO = "/repo"
ALL_PROPS = None


def claimed_props():
    with open(os.path.join(VERIF, "MANIFEST.json")) as fh:
        m = json.load(fh)
    return [c["property_id"] for c in m["checks"]]


def make_scratch(patch):
    d = tempfile.mkdtemp(prefix="rws-selftest-")
    repo = os.path.join(d, "repo")
    subprocess.run(["rsync", "-a", "--exclude", "target", "--exclude", ".git", REPO + "/", repo + "/"], check=True)
    if patch:
        r = subprocess.run(["patch", "-p1", "-s", "--no-backup-if-mismatch", "-i", patch], cwd=repo, capture_output=True, text=True)
        if r.returncode != 0:
            shutil.rmtree(d, ignore_errors=True)
            raise RuntimeError("patch does not apply: %s\n%s" % (patch, r.stdout + r.stderr))
    return d, repo


def run_checks(repo, props, evdir):
    env = dict(os.environ)
    env["RWS_REPO"] = repo
    env["RWS_EVIDENCE_DIR"] = evdir
    env["RWS_CACHE_DIR"] = os.path.join(os.path.dirname(repo), "cache")   # removed with the scratch copy
    env["RWS_NO_THOROUGH"] = "1"
    res = {}
    for p in props:
        r = subprocess.run([os.path.join(VERIF, "check"), p, "--tier", "quick"], env=env, capture_output=True, text=True, cwd=VERIF)
        viol = [l for l in r.stdout.splitlines() if l.startswith("VIOLATION")]
        res[p] = {"rc": r.returncode, "violations": viol, "out": r.stdout, "err": r.stderr[-2000:]}
    return res


def one(kind, name, path, keep=False, meta=None):
    meta = meta or json.load(open(os.path.join(path, "meta.json")))
    patch = os.path.join(path, "patch.diff")
    t0 = time.time()
    try:
        d, repo = make_scratch(patch)
    except RuntimeError as e:
        return name, None, "skipped: " + str(e).splitlines()[0]
    try:
        evdir = os.path.join(d, "evidence")
        ok = True
        msgs = []
        if kind == "benign":
            props = meta.get("props") or claimed_props()
            res = run_checks(repo, props, evdir)
            for p, r in res.items():
                if r["rc"] != 0:
                    ok = False
                    msgs.append("%s raised an alarm on a behaviour-preserving edit (rc=%d):\n%s" % (p, r["rc"], "\n".join(x for x in r["out"].splitlines() if "VIOLATION" in x or x.startswith("  ") )[:1500] + r["err"][-500:]))
        else:
            expect = meta["expect"]  # {"C13": "substring that the report must contain" | true}
            res = run_checks(repo, list(expect.keys()), evdir)
            for p, want in expect.items():
                r = res[p]
                if r["rc"] != 1 or not r["violations"]:
                    ok = False
                    msgs.append("%s did NOT report the seeded violation (rc=%d) %s" % (p, r["rc"], r["err"][-300:]))
                elif isinstance(want, str) and want not in r["out"]:
                    ok = False
                    msgs.append("%s reported a violation but did not name %r:\n%s" % (p, want, "\n".join(r["violations"][:5])))
                elif "|setup|" in r["out"] or "checker-error" in r["out"] or "facts-unavailable" in r["out"]:
                    ok = False
                    msgs.append("%s failed closed instead of analysing the mutant (does it compile?):\n%s" % (p, r["out"][-800:] + r["err"][-800:]))
        return name, ok, "; ".join(msgs) + (" (%.1fs)" % (time.time() - t0))
    finally:
        if not keep:
            shutil.rmtree(d, ignore_errors=True)


def main():
    ap = argparse.ArgumentParser()
    ap.add_argument("--only")
    ap.add_argument("--kind", default="all")
    ap.add_argument("--jobs", type=int, default=8)
    ap.add_argument("--keep", action="store_true")
    ap.add_argument("--props", help="comma list: run only these checks; mutants/seeds that do not expect one of them are skipped")
    a = ap.parse_args()
    jobs = []
    kinds = ["mutants", "benign", "seeded"] if a.kind == "all" else [a.kind]
    for kind in kinds:
        base = os.path.join(VERIF, "selftest", kind) if kind != "seeded" else os.path.join(VERIF, "seeded")
        if not os.path.isdir(base):
            continue
        for name in sorted(os.listdir(base)):
            path = os.path.join(base, name)
            if not os.path.exists(os.path.join(path, "meta.json")) or not os.path.exists(os.path.join(path, "patch.diff")):
                continue
            if a.only and name not in a.only.split(","):
                continue
            k = "benign" if kind == "benign" else "mutant"
            meta = json.load(open(os.path.join(path, "meta.json")))
            if kind == "seeded":
                # a confirmed sub-agent seed: expected to be caught by the checks recorded in its detection matrix
                # (its own property, plus neighbours listed by hand in expect_also; the other entries of caught_by are conservative
                # reports of the panic engine on the seed's new code and are not required)
                cb = meta.get("caught_by") or {}
                meta["expect"] = {p: True for p in [meta["breaks"]] + list(meta.get("expect_also", [])) if p in cb}
            if k == "mutant" and not meta.get("expect"):
                continue
            if a.props:
                want = set(a.props.split(","))
                if k == "mutant":
                    meta["expect"] = {p: v for p, v in meta["expect"].items() if p in want}
                    if not meta["expect"]:
                        continue
                else:
                    meta["props"] = sorted(want)
            jobs.append((k, "%s/%s" % (kind, name), path, meta))
    bad = skipped = 0
    with concurrent.futures.ThreadPoolExecutor(max_workers=a.jobs) as ex:
        futs = [ex.submit(one, k, n, p, a.keep, m) for k, n, p, m in jobs]
        for f in futs:
            name, ok, msg = f.result()
            print("%-60s %s %s" % (name, "skip" if ok is None else "ok  " if ok else "FAIL", msg))
            if ok is None:
                skipped += 1
            elif not ok:
                bad += 1
    print("selftest: %d variants, %d failed, %d skipped (patch does not apply to the tree under test)" % (len(jobs), bad, skipped))
    return 1 if bad else 0


if __name__ == "__main__":
    sys.exit(main())
