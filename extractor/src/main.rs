// rws-facts: a rustc_private driver that dumps a JSON fact base (MIR CFGs with
// resolved callees, evaluated constants, ADTs, impls, statics, rustdoc `# Panics`
// markers of external callees) for every crate it compiles.
//
// Used as RUSTC_WRAPPER: argv[1] is the real rustc path and is dropped.
// Output: $RWS_FACTS_DIR/<crate_name>-<crate_type>[-test].json  (one write per process)
#![feature(rustc_private)]
#![allow(clippy::all)]

extern crate rustc_abi;
extern crate rustc_driver;
extern crate rustc_hir;
extern crate rustc_interface;
extern crate rustc_middle;
extern crate rustc_session;
extern crate rustc_span;

mod json;

use json::J;
use rustc_driver::{Callbacks, Compilation};
use rustc_hir::def::DefKind;
use rustc_hir::def_id::{DefId, LOCAL_CRATE};
use rustc_interface::interface::Compiler;
use rustc_middle::mir::{
    self, AggregateKind, BasicBlockData, Body, CastKind, Const as MirConst, ConstValue, Operand,
    Place, PlaceElem, Rvalue, StatementKind, TerminatorKind,
};
use rustc_middle::ty::print::with_no_trimmed_paths;
use rustc_middle::ty::{self, Instance, Ty, TyCtxt, TypeVisitableExt, TypingEnv};
use rustc_span::Span;
use std::collections::BTreeMap;

struct Cb;

impl Callbacks for Cb {
    fn after_analysis<'tcx>(&mut self, _c: &Compiler, tcx: TyCtxt<'tcx>) -> Compilation {
        let dir = match std::env::var("RWS_FACTS_DIR") {
            Ok(d) => d,
            Err(_) => return Compilation::Continue,
        };
        let out = with_no_trimmed_paths!(extract(tcx));
        let crate_name = tcx.crate_name(LOCAL_CRATE).to_string();
        let ctype = format!("{:?}", tcx.crate_types().get(0)).to_lowercase();
        let ctype = if ctype.contains("executable") { "bin" } else { "lib" };
        let test = if tcx.sess.opts.test { "-test" } else { "" };
        let path = format!("{}/{}-{}{}.json", dir, crate_name, ctype, test);
        let mut s = String::new();
        out.write(&mut s);
        std::fs::write(&path, s).expect("write facts");
        Compilation::Continue
    }
}

fn main() {
    let mut args: Vec<String> = std::env::args().collect();
    // RUSTC_WRAPPER passes the real rustc as argv[1]
    if args.len() > 1 && (args[1].ends_with("rustc") || args[1].contains("/rustc")) {
        args.remove(1);
    }
    rustc_driver::run_compiler(&args, &mut Cb);
}

struct Cx<'tcx> {
    tcx: TyCtxt<'tcx>,
    externals: BTreeMap<String, J>,
}

fn span_json(tcx: TyCtxt<'_>, sp: Span) -> J {
    let sm = tcx.sess.source_map();
    let call = sp.source_callsite();
    let lo = sm.lookup_char_pos(call.lo());
    let file = format!("{}", lo.file.name.prefer_local_unconditionally());
    J::obj(vec![
        ("file", J::s(&file)),
        ("line", J::I(lo.line as i128)),
        ("col", J::I(lo.col.0 as i128)),
        ("exp", J::B(sp.from_expansion())),
    ])
}

fn def_str(tcx: TyCtxt<'_>, d: DefId) -> String {
    tcx.def_path_str(d)
}

fn ty_str(t: Ty<'_>) -> String {
    format!("{}", t)
}

/// def paths of closures / fn items mentioned inside a type
fn fn_items_in_ty<'tcx>(tcx: TyCtxt<'tcx>, t: Ty<'tcx>, out: &mut Vec<String>) {
    for arg in t.walk() {
        if let Some(t) = arg.as_type() {
            match t.kind() {
                ty::Closure(d, _) | ty::FnDef(d, _) | ty::Coroutine(d, _) => {
                    let s = def_str(tcx, *d);
                    if !out.contains(&s) {
                        out.push(s);
                    }
                }
                _ => {}
            }
        }
    }
}

impl<'tcx> Cx<'tcx> {
    fn note_external(&mut self, d: DefId) {
        if d.is_local() {
            return;
        }
        let name = def_str(self.tcx, d);
        if self.externals.contains_key(&name) {
            return;
        }
        let tcx = self.tcx;
        let mut doc = String::new();
        #[allow(deprecated)]
        for attr in tcx.get_all_attrs(d) {
            if let Some(s) = attr.doc_str() {
                doc.push_str(s.as_str());
                doc.push('\n');
            }
        }
        let panics = doc.contains("# Panics") || doc.contains("# Panic");
        let krate = tcx.crate_name(d.krate).to_string();
        let mut panic_doc = String::new();
        if panics {
            if let Some(i) = doc.find("# Panic") {
                let rest = &doc[i..];
                let mut end = rest.len();
                if let Some(j) = rest[2..].find("\n#") {
                    end = j + 2;
                }
                panic_doc = rest[..end].chars().take(600).collect();
            }
        }
        self.externals.insert(
            name,
            J::obj(vec![
                ("crate", J::s(&krate)),
                ("doc_panics", J::B(panics)),
                ("panic_doc", J::s(&panic_doc)),
                ("has_doc", J::B(!doc.is_empty())),
            ]),
        );
    }

    fn place_json(&self, body: &Body<'tcx>, p: &Place<'tcx>) -> J {
        let tcx = self.tcx;
        let mut proj = Vec::new();
        let mut pty = mir::PlaceTy::from_ty(body.local_decls[p.local].ty);
        for elem in p.projection.iter() {
            let j = match elem {
                PlaceElem::Deref => J::s("*"),
                PlaceElem::Field(f, _) => {
                    let mut name = format!("{}", f.index());
                    if let ty::Adt(adt, _) = pty.ty.kind() {
                        let v = match pty.variant_index {
                            Some(v) => Some(adt.variant(v)),
                            None => {
                                if adt.is_enum() {
                                    None
                                } else {
                                    Some(adt.non_enum_variant())
                                }
                            }
                        };
                        if let Some(v) = v {
                            if let Some(fd) = v.fields.get(f) {
                                name = fd.name.to_string();
                            }
                        }
                    }
                    J::obj(vec![("f", J::I(f.index() as i128)), ("n", J::s(&name))])
                }
                PlaceElem::Index(l) => J::obj(vec![("i", J::I(l.index() as i128))]),
                PlaceElem::ConstantIndex { offset, min_length, from_end } => J::obj(vec![
                    ("ci", J::I(offset as i128)),
                    ("min", J::I(min_length as i128)),
                    ("from_end", J::B(from_end)),
                ]),
                PlaceElem::Subslice { from, to, from_end } => J::obj(vec![
                    ("sub", J::I(from as i128)),
                    ("to", J::I(to as i128)),
                    ("from_end", J::B(from_end)),
                ]),
                PlaceElem::Downcast(name, idx) => {
                    let n = match name {
                        Some(n) => n.to_string(),
                        None => format!("{}", idx.index()),
                    };
                    J::obj(vec![("d", J::s(&n))])
                }
                PlaceElem::OpaqueCast(_) => J::s("opaque"),
                PlaceElem::UnwrapUnsafeBinder(_) => J::s("unbind"),
            };
            proj.push(j);
            pty = pty.projection_ty(tcx, elem);
        }
        J::obj(vec![("l", J::I(p.local.index() as i128)), ("p", J::A(proj))])
    }

    fn const_value_json(&self, val: ConstValue, ty: Ty<'tcx>, depth: usize) -> J {
        let tcx = self.tcx;
        match ty.kind() {
            ty::Bool | ty::Char | ty::Int(_) | ty::Uint(_) | ty::Float(_) => {
                let val = if let ConstValue::Indirect { alloc_id, offset } = val {
                    // read a primitive out of constant memory (e.g. the pointee of `&100`)
                    let size = ty.primitive_size(tcx);
                    let mut v = val;
                    if let rustc_middle::mir::interpret::GlobalAlloc::Memory(alloc) = tcx.global_alloc(alloc_id) {
                        let lo = offset.bytes_usize();
                        let hi = lo + size.bytes_usize();
                        let a = alloc.inner();
                        if hi <= a.len() {
                            let bytes = a.inspect_with_uninit_and_ptr_outside_interpreter(lo..hi);
                            let mut x: u128 = 0;
                            for (i, b) in bytes.iter().enumerate() {
                                x |= (*b as u128) << (8 * i);
                            }
                            v = ConstValue::Scalar(rustc_middle::mir::interpret::Scalar::from_uint(x, size));
                        }
                    }
                    v
                } else {
                    val
                };
                if let ConstValue::Scalar(s) = val {
                    if let Ok(si) = s.try_to_scalar_int() {
                        return match ty.kind() {
                            ty::Bool => J::B(si.try_to_bool().unwrap_or(false)),
                            ty::Char => {
                                let c = char::from_u32(si.to_bits_unchecked() as u32).unwrap_or('\u{fffd}');
                                J::obj(vec![("char", J::s(&c.to_string()))])
                            }
                            ty::Int(_) => {
                                let size = si.size();
                                J::I(si.to_int(size))
                            }
                            ty::Uint(_) => {
                                let v = si.to_bits_unchecked();
                                if v <= i128::MAX as u128 { J::I(v as i128) } else { J::s(&format!("{}", v)) }
                            }
                            _ => J::obj(vec![("float_bits", J::s(&format!("{}", si.to_bits_unchecked())))]),
                        };
                    }
                }
                J::Null
            }
            ty::FnPtr(..) => {
                // a function pointer stored in a constant (a table of handlers): the function it points to
                use rustc_middle::mir::interpret::{GlobalAlloc, Scalar};
                let target = match val {
                    ConstValue::Scalar(Scalar::Ptr(p, _)) => Some(p.into_raw_parts().0.alloc_id()),
                    ConstValue::Indirect { alloc_id, offset } => {
                        if let GlobalAlloc::Memory(alloc) = tcx.global_alloc(alloc_id) {
                            alloc.inner().provenance().ptrs().get(&offset).map(|p| p.alloc_id())
                        } else {
                            None
                        }
                    }
                    _ => None,
                };
                if let Some(id) = target {
                    if let GlobalAlloc::Function { instance } = tcx.global_alloc(id) {
                        return J::obj(vec![("fn", J::s(&def_str(tcx, instance.def_id())))]);
                    }
                }
                J::Null
            }
            ty::Ref(_, inner, _) if inner.is_str() => {
                if let Some(bytes) = val.try_get_slice_bytes_for_diagnostics(tcx) {
                    return J::s(&String::from_utf8_lossy(bytes));
                }
                J::Null
            }
            ty::Ref(_, inner, _) if matches!(inner.kind(), ty::Slice(t) if *t == tcx.types.u8) => {
                if let Some(bytes) = val.try_get_slice_bytes_for_diagnostics(tcx) {
                    return J::obj(vec![("bytes", J::A(bytes.iter().map(|b| J::I(*b as i128)).collect()))]);
                }
                J::Null
            }
            ty::Adt(..) | ty::Tuple(..) | ty::Array(..) if depth < 6 => {
                if let Some(d) = tcx.try_destructure_mir_constant_for_user_output(val, ty) {
                    let mut fields = Vec::new();
                    let names: Vec<String> = match ty.kind() {
                        ty::Adt(adt, _) if !adt.is_enum() || d.variant.is_some() => {
                            let v = match d.variant {
                                Some(v) => adt.variant(v),
                                None => adt.non_enum_variant(),
                            };
                            v.fields.iter().map(|f| f.name.to_string()).collect()
                        }
                        _ => (0..d.fields.len()).map(|i| format!("{}", i)).collect(),
                    };
                    for (i, (fv, fty)) in d.fields.iter().enumerate() {
                        let n = names.get(i).cloned().unwrap_or_else(|| format!("{}", i));
                        fields.push((n, self.const_value_json(*fv, *fty, depth + 1)));
                    }
                    let mut o = vec![("fields".to_string(), J::O(fields))];
                    if let (ty::Adt(adt, _), Some(v)) = (ty.kind(), d.variant) {
                        o.push(("variant".to_string(), J::s(adt.variant(v).name.as_str())));
                    }
                    return J::O(o);
                }
                J::Null
            }
            ty::Ref(_, inner, _) if depth < 6 && matches!(inner.kind(), ty::Slice(_)) => {
                // `&[T]` inside a constant (a table row listing several names): the elements, read out of constant memory
                use rustc_middle::mir::interpret::GlobalAlloc;
                let elem = match inner.kind() { ty::Slice(t) => *t, _ => return J::Null };
                let (target, base, len): (rustc_middle::mir::interpret::AllocId, u64, u64) = match val {
                    ConstValue::Slice { alloc_id, meta } => (alloc_id, 0, meta),
                    ConstValue::Indirect { alloc_id, offset } => {
                        let GlobalAlloc::Memory(alloc) = tcx.global_alloc(alloc_id) else { return J::Null };
                        let a = alloc.inner();
                        let psz = tcx.data_layout.pointer_size().bytes_usize();
                        let lo = offset.bytes_usize();
                        if lo + 2 * psz > a.len() { return J::Null; }
                        let Some(prov) = a.provenance().ptrs().get(&offset) else { return J::Null };
                        let rd = |from: usize| -> u64 {
                            let bytes = a.inspect_with_uninit_and_ptr_outside_interpreter(from..from + psz);
                            let mut x: u64 = 0;
                            for (i, b) in bytes.iter().enumerate() { x |= (*b as u64) << (8 * i); }
                            x
                        };
                        (prov.alloc_id(), rd(lo), rd(lo + psz))
                    }
                    _ => return J::Null,
                };
                let env = TypingEnv::fully_monomorphized();
                let Ok(layout) = tcx.layout_of(env.as_query_input(elem)) else { return J::Null };
                let esz = layout.size.bytes();
                if len > 4096 { return J::Null; }
                let mut fields = Vec::new();
                for i in 0..len {
                    let ev = ConstValue::Indirect { alloc_id: target, offset: rustc_abi::Size::from_bytes(base + i * esz) };
                    fields.push((format!("{}", i), self.const_value_json(ev, elem, depth + 1)));
                }
                return J::O(vec![("fields".to_string(), J::O(fields))]);
            }
            ty::Ref(_, inner, _) if depth < 6 => {
                // reference to a sized constant: read through the pointer
                if let ConstValue::Scalar(rustc_middle::mir::interpret::Scalar::Ptr(p, _)) = val {
                    let (prov, offset) = p.into_raw_parts();
                    let inner_val = ConstValue::Indirect { alloc_id: prov.alloc_id(), offset };
                    return self.const_value_json(inner_val, *inner, depth + 1);
                }
                J::Null
            }
            _ => J::Null,
        }
    }

    fn const_json(&mut self, body_def: DefId, c: &mir::ConstOperand<'tcx>) -> J {
        let tcx = self.tcx;
        let ty = c.const_.ty();
        let mut o: Vec<(&str, J)> = vec![("k", J::s("const")), ("ty", J::s(&ty_str(ty)))];
        match ty.kind() {
            ty::FnDef(d, _) => {
                o.push(("fn", J::s(&def_str(tcx, *d))));
                self.note_external(*d);
                return J::obj(o);
            }
            ty::Closure(d, _) => {
                o.push(("fn", J::s(&def_str(tcx, *d))));
                return J::obj(o);
            }
            _ => {}
        }
        if let MirConst::Unevaluated(uv, _) = c.const_ {
            if let Some(p) = uv.promoted {
                o.push(("promoted", J::I(p.index() as i128)));
                o.push(("promoted_of", J::s(&def_str(tcx, uv.def))));
                return J::obj(o);
            }
            o.push(("item", J::s(&def_str(tcx, uv.def))));
        }
        if let MirConst::Ty(_, ct) = c.const_ {
            if let ty::ConstKind::Unevaluated(uv) = ct.kind() {
                o.push(("item", J::s(&def_str(tcx, uv.def))));
            }
        }
        let env = TypingEnv::post_analysis(tcx, body_def);
        if !c.const_.has_param() {
            if let Ok(val) = c.const_.eval(tcx, env, c.span) {
                let v = self.const_value_json(val, ty, 0);
                o.push(("v", v));
            }
        }
        J::obj(o)
    }

    fn operand_json(&mut self, body_def: DefId, body: &Body<'tcx>, op: &Operand<'tcx>) -> J {
        match op {
            Operand::Copy(p) => {
                let mut j = self.place_json(body, p);
                j.push("k", J::s("copy"));
                j
            }
            Operand::Move(p) => {
                let mut j = self.place_json(body, p);
                j.push("k", J::s("move"));
                j
            }
            Operand::Constant(c) => self.const_json(body_def, c),
            #[allow(unreachable_patterns)]
            _ => J::obj(vec![("k", J::s("other")), ("s", J::s(&format!("{:?}", op)))]),
        }
    }

    fn rvalue_json(&mut self, body_def: DefId, body: &Body<'tcx>, rv: &Rvalue<'tcx>) -> J {
        let tcx = self.tcx;
        match rv {
            Rvalue::Use(op, ..) => J::obj(vec![("k", J::s("use")), ("ops", J::A(vec![self.operand_json(body_def, body, op)]))]),
            Rvalue::Repeat(op, n) => J::obj(vec![
                ("k", J::s("repeat")),
                ("ops", J::A(vec![self.operand_json(body_def, body, op)])),
                ("n", J::s(&format!("{}", n))),
            ]),
            Rvalue::Ref(_, bk, p) => J::obj(vec![
                ("k", J::s("ref")),
                ("mut", J::B(matches!(bk, mir::BorrowKind::Mut { .. }))),
                ("place", self.place_json(body, p)),
            ]),
            Rvalue::RawPtr(_, p) => J::obj(vec![("k", J::s("rawptr")), ("place", self.place_json(body, p))]),
            Rvalue::ThreadLocalRef(d) => J::obj(vec![("k", J::s("tlsref")), ("item", J::s(&def_str(tcx, *d)))]),
            Rvalue::Cast(ck, op, t) => {
                let mut fns = Vec::new();
                if let CastKind::PointerCoercion(..) = ck {
                    let from = op.ty(&body.local_decls, tcx);
                    fn_items_in_ty(tcx, from, &mut fns);
                }
                J::obj(vec![
                    ("k", J::s("cast")),
                    ("cast", J::s(&format!("{:?}", ck))),
                    ("ops", J::A(vec![self.operand_json(body_def, body, op)])),
                    ("from", J::s(&ty_str(op.ty(&body.local_decls, tcx)))),
                    ("to", J::s(&ty_str(*t))),
                    ("fn_items", J::A(fns.iter().map(|s| J::s(s)).collect())),
                ])
            }
            Rvalue::BinaryOp(op, b) => J::obj(vec![
                ("k", J::s("binop")),
                ("op", J::s(&format!("{:?}", op))),
                ("ops", J::A(vec![self.operand_json(body_def, body, &b.0), self.operand_json(body_def, body, &b.1)])),
                ("lty", J::s(&ty_str(b.0.ty(&body.local_decls, tcx)))),
            ]),
            Rvalue::UnaryOp(op, a) => J::obj(vec![
                ("k", J::s("unop")),
                ("op", J::s(&format!("{:?}", op))),
                ("ops", J::A(vec![self.operand_json(body_def, body, a)])),
            ]),
            Rvalue::Discriminant(p) => J::obj(vec![("k", J::s("discr")), ("place", self.place_json(body, p))]),
            Rvalue::Aggregate(kind, ops) => {
                let mut o: Vec<(&str, J)> = vec![("k", J::s("aggregate"))];
                match &**kind {
                    AggregateKind::Array(t) => {
                        o.push(("agg", J::s("array")));
                        o.push(("elem_ty", J::s(&ty_str(*t))));
                    }
                    AggregateKind::Tuple => o.push(("agg", J::s("tuple"))),
                    AggregateKind::Adt(d, variant, _, _, _) => {
                        o.push(("agg", J::s("adt")));
                        o.push(("adt", J::s(&def_str(tcx, *d))));
                        let adt = tcx.adt_def(*d);
                        let v = adt.variant(*variant);
                        o.push(("variant", J::s(v.name.as_str())));
                        o.push(("fields", J::A(v.fields.iter().map(|f| J::s(f.name.as_str())).collect())));
                    }
                    AggregateKind::Closure(d, _) => {
                        o.push(("agg", J::s("closure")));
                        o.push(("closure", J::s(&def_str(tcx, *d))));
                    }
                    AggregateKind::Coroutine(d, _) | AggregateKind::CoroutineClosure(d, _) => {
                        o.push(("agg", J::s("coroutine")));
                        o.push(("closure", J::s(&def_str(tcx, *d))));
                    }
                    AggregateKind::RawPtr(..) => o.push(("agg", J::s("rawptr"))),
                }
                let opsj: Vec<J> = ops.iter().map(|op| self.operand_json(body_def, body, op)).collect();
                o.push(("ops", J::A(opsj)));
                J::obj(o)
            }
            Rvalue::CopyForDeref(p) => {
                let mut pj = self.place_json(body, p);
                pj.push("k", J::s("copy"));
                J::obj(vec![("k", J::s("use")), ("ops", J::A(vec![pj]))])
            }
            Rvalue::WrapUnsafeBinder(op, _) => J::obj(vec![("k", J::s("use")), ("ops", J::A(vec![self.operand_json(body_def, body, op)]))]),
        }
    }

    fn block_json(&mut self, body_def: DefId, body: &Body<'tcx>, bb: usize, data: &BasicBlockData<'tcx>) -> J {
        let tcx = self.tcx;
        let mut stmts = Vec::new();
        for st in &data.statements {
            match &st.kind {
                StatementKind::Assign(b) => {
                    let (place, rv) = &**b;
                    stmts.push(J::obj(vec![
                        ("k", J::s("assign")),
                        ("place", self.place_json(body, place)),
                        ("rv", self.rvalue_json(body_def, body, rv)),
                        ("span", span_json(tcx, st.source_info.span)),
                    ]));
                }
                StatementKind::SetDiscriminant { place, variant_index } => {
                    stmts.push(J::obj(vec![
                        ("k", J::s("setdiscr")),
                        ("place", self.place_json(body, place)),
                        ("variant", J::I(variant_index.index() as i128)),
                    ]));
                }
                StatementKind::StorageDead(l) => {
                    stmts.push(J::obj(vec![("k", J::s("dead")), ("l", J::I(l.index() as i128))]));
                }
                StatementKind::StorageLive(l) => {
                    stmts.push(J::obj(vec![("k", J::s("live")), ("l", J::I(l.index() as i128))]));
                }
                StatementKind::Intrinsic(i) => {
                    stmts.push(J::obj(vec![("k", J::s("intrinsic")), ("s", J::s(&format!("{:?}", i)))]));
                }
                _ => {}
            }
        }
        let term = data.terminator();
        let tspan = span_json(tcx, term.source_info.span);
        let bbs = |b: mir::BasicBlock| J::I(b.index() as i128);
        let unwind_json = |u: &mir::UnwindAction| match u {
            mir::UnwindAction::Cleanup(b) => J::I(b.index() as i128),
            _ => J::Null,
        };
        let tj = match &term.kind {
            TerminatorKind::Goto { target } => J::obj(vec![("k", J::s("goto")), ("target", bbs(*target))]),
            TerminatorKind::SwitchInt { discr, targets } => {
                let mut ts = Vec::new();
                for (v, b) in targets.iter() {
                    let vj = if v <= i128::MAX as u128 { J::I(v as i128) } else { J::s(&format!("{}", v)) };
                    ts.push(J::A(vec![vj, bbs(b)]));
                }
                J::obj(vec![
                    ("k", J::s("switch")),
                    ("discr", self.operand_json(body_def, body, discr)),
                    ("discr_ty", J::s(&ty_str(discr.ty(&body.local_decls, tcx)))),
                    ("targets", J::A(ts)),
                    ("otherwise", bbs(targets.otherwise())),
                ])
            }
            TerminatorKind::UnwindResume => J::obj(vec![("k", J::s("resume"))]),
            TerminatorKind::UnwindTerminate(_) => J::obj(vec![("k", J::s("terminate"))]),
            TerminatorKind::Return => J::obj(vec![("k", J::s("return"))]),
            TerminatorKind::Unreachable => J::obj(vec![("k", J::s("unreachable"))]),
            TerminatorKind::Drop { place, target, unwind, .. } => J::obj(vec![
                ("k", J::s("drop")),
                ("place", self.place_json(body, place)),
                ("ty", J::s(&ty_str(place.ty(&body.local_decls, tcx).ty))),
                ("target", bbs(*target)),
                ("unwind", unwind_json(unwind)),
            ]),
            TerminatorKind::Call { func, args, destination, target, unwind, fn_span, .. } => {
                let mut o: Vec<(&str, J)> = vec![("k", J::s("call"))];
                let fty = func.ty(&body.local_decls, tcx);
                let mut fn_items: Vec<String> = Vec::new();
                match fty.kind() {
                    ty::FnDef(d, gargs) => {
                        o.push(("callee", J::s(&def_str(tcx, *d))));
                        self.note_external(*d);
                        let env = TypingEnv::post_analysis(tcx, body_def);
                        let mut resolved = false;
                        if let Ok(Some(inst)) = Instance::try_resolve(tcx, env, *d, gargs) {
                            let rd = inst.def_id();
                            let kind = match inst.def {
                                ty::InstanceKind::Item(_) => "item",
                                ty::InstanceKind::Virtual(..) => "virtual",
                                ty::InstanceKind::Intrinsic(_) => "intrinsic",
                                ty::InstanceKind::ClosureOnceShim { .. } => "closure_once_shim",
                                ty::InstanceKind::FnPtrShim(..) => "fnptr_shim",
                                ty::InstanceKind::DropGlue(..) => "drop_glue",
                                ty::InstanceKind::CloneShim(..) => "clone_shim",
                                ty::InstanceKind::ReifyShim(..) => "reify_shim",
                                ty::InstanceKind::VTableShim(..) => "vtable_shim",
                                _ => "other",
                            };
                            // a trait method with a default body resolves to the trait's item; an
                            // unresolved (param-bound) call resolves to the trait method itself
                            let is_trait_decl = tcx.trait_of_assoc(rd).is_some() && !tcx.defaultness(rd).has_value();
                            if !matches!(inst.def, ty::InstanceKind::Virtual(..)) && !is_trait_decl {
                                resolved = true;
                            }
                            o.push(("resolved", J::s(&def_str(tcx, rd))));
                            o.push(("inst_kind", J::s(kind)));
                            self.note_external(rd);
                        }
                        o.push(("is_resolved", J::B(resolved)));
                        if let Some(tr) = tcx.trait_of_assoc(*d) {
                            o.push(("trait", J::s(&def_str(tcx, tr))));
                            o.push(("method", J::s(tcx.item_name(*d).as_str())));
                        }
                        let mut ga = Vec::new();
                        for a in gargs.iter() {
                            if let Some(t) = a.as_type() {
                                ga.push(J::s(&ty_str(t)));
                                fn_items_in_ty(tcx, t, &mut fn_items);
                            }
                        }
                        o.push(("gargs", J::A(ga)));
                    }
                    _ => {
                        o.push(("callee", J::Null));
                        o.push(("indirect", self.operand_json(body_def, body, func)));
                        o.push(("indirect_ty", J::s(&ty_str(fty))));
                        o.push(("is_resolved", J::B(false)));
                    }
                }
                let mut argsj = Vec::new();
                let mut argtys = Vec::new();
                for a in args.iter() {
                    argsj.push(self.operand_json(body_def, body, &a.node));
                    let t = a.node.ty(&body.local_decls, tcx);
                    argtys.push(J::s(&ty_str(t)));
                    fn_items_in_ty(tcx, t, &mut fn_items);
                }
                o.push(("args", J::A(argsj)));
                o.push(("arg_tys", J::A(argtys)));
                o.push(("fn_items", J::A(fn_items.iter().map(|s| J::s(s)).collect())));
                o.push(("dest", self.place_json(body, destination)));
                o.push(("dest_ty", J::s(&ty_str(destination.ty(&body.local_decls, tcx).ty))));
                o.push(("target", match target { Some(t) => bbs(*t), None => J::Null }));
                o.push(("unwind", unwind_json(unwind)));
                o.push(("fn_span", span_json(tcx, *fn_span)));
                J::obj(o)
            }
            TerminatorKind::TailCall { func, .. } => J::obj(vec![("k", J::s("tailcall")), ("s", J::s(&format!("{:?}", func)))]),
            TerminatorKind::Assert { cond, expected, msg, target, unwind } => {
                let kind = {
                    use mir::AssertKind::*;
                    match &**msg {
                        BoundsCheck { .. } => "BoundsCheck".to_string(),
                        Overflow(op, ..) => format!("Overflow({:?})", op),
                        OverflowNeg(_) => "OverflowNeg".to_string(),
                        DivisionByZero(_) => "DivisionByZero".to_string(),
                        RemainderByZero(_) => "RemainderByZero".to_string(),
                        MisalignedPointerDereference { .. } => "MisalignedPointerDereference".to_string(),
                        NullPointerDereference => "NullPointerDereference".to_string(),
                        other => format!("{:?}", other).split('(').next().unwrap_or("other").to_string(),
                    }
                };
                let mut ops = Vec::new();
                {
                    use mir::AssertKind::*;
                    match &**msg {
                        BoundsCheck { len, index } => {
                            ops.push(self.operand_json(body_def, body, len));
                            ops.push(self.operand_json(body_def, body, index));
                        }
                        Overflow(_, a, b) => {
                            ops.push(self.operand_json(body_def, body, a));
                            ops.push(self.operand_json(body_def, body, b));
                        }
                        OverflowNeg(a) | DivisionByZero(a) | RemainderByZero(a) => {
                            ops.push(self.operand_json(body_def, body, a));
                        }
                        _ => {}
                    }
                }
                J::obj(vec![
                    ("k", J::s("assert")),
                    ("kind", J::s(&kind)),
                    ("cond", self.operand_json(body_def, body, cond)),
                    ("expected", J::B(*expected)),
                    ("ops", J::A(ops)),
                    ("target", bbs(*target)),
                    ("unwind", unwind_json(unwind)),
                ])
            }
            TerminatorKind::FalseEdge { real_target, .. } => J::obj(vec![("k", J::s("goto")), ("target", bbs(*real_target))]),
            TerminatorKind::FalseUnwind { real_target, .. } => J::obj(vec![("k", J::s("goto")), ("target", bbs(*real_target))]),
            TerminatorKind::InlineAsm { .. } => J::obj(vec![("k", J::s("asm"))]),
            other => J::obj(vec![("k", J::s("other")), ("s", J::s(&format!("{:?}", other)))]),
        };
        let mut tj = tj;
        tj.push("span", tspan);
        J::obj(vec![
            ("id", J::I(bb as i128)),
            ("cleanup", J::B(data.is_cleanup)),
            ("stmts", J::A(stmts)),
            ("term", tj),
        ])
    }

    fn body_json(&mut self, def: DefId, name: &str, kind: &str, body: &Body<'tcx>) -> J {
        let tcx = self.tcx;
        let mut locals = Vec::new();
        for (_l, decl) in body.local_decls.iter_enumerated() {
            let mut fns = Vec::new();
            fn_items_in_ty(tcx, decl.ty, &mut fns);
            let mut o = vec![("ty", J::s(&ty_str(decl.ty)))];
            if !fns.is_empty() {
                o.push(("fn_items", J::A(fns.iter().map(|s| J::s(s)).collect())));
            }
            locals.push(J::obj(o));
        }
        let mut dbg = Vec::new();
        for v in &body.var_debug_info {
            if let mir::VarDebugInfoContents::Place(p) = &v.value {
                let mut pj = self.place_json(body, p);
                pj.push("name", J::s(v.name.as_str()));
                if let Some(a) = v.argument_index {
                    pj.push("arg", J::I(a as i128));
                }
                dbg.push(pj);
            }
        }
        let mut blocks = Vec::new();
        for (bb, data) in body.basic_blocks.iter_enumerated() {
            blocks.push(self.block_json(def, body, bb.index(), data));
        }
        let vis = if matches!(tcx.def_kind(def), DefKind::Fn | DefKind::AssocFn) {
            format!("{:?}", tcx.visibility(def))
        } else {
            String::new()
        };
        let parent = if tcx.is_closure_like(def) { J::s(&def_str(tcx, tcx.parent(def))) } else { J::Null };
        let mut upvars = Vec::new();
        if kind == "Closure" {
            let cty = tcx.type_of(def).instantiate_identity().skip_norm_wip();
            if let ty::Closure(_, cargs) = cty.kind() {
                for t in cargs.as_closure().upvar_tys().iter() {
                    upvars.push(J::s(&ty_str(t)));
                }
            }
        }
        J::obj(vec![
            ("def", J::s(name)),
            ("kind", J::s(kind)),
            ("span", span_json(tcx, body.span)),
            ("vis", J::s(&vis)),
            ("parent", parent),
            ("upvars", J::A(upvars)),
            ("args", J::I(body.arg_count as i128)),
            ("ret", J::s(&ty_str(body.local_decls[mir::RETURN_PLACE].ty))),
            ("locals", J::A(locals)),
            ("debug", J::A(dbg)),
            ("blocks", J::A(blocks)),
        ])
    }
}

fn extract<'tcx>(tcx: TyCtxt<'tcx>) -> J {
    let mut cx = Cx { tcx, externals: BTreeMap::new() };
    let mut fns = Vec::new();
    for ldid in tcx.hir_body_owners() {
        let def = ldid.to_def_id();
        let dk = tcx.def_kind(def);
        let kind = match dk {
            DefKind::Fn => "Fn",
            DefKind::AssocFn => "AssocFn",
            DefKind::Closure => "Closure",
            _ => continue, // consts/statics: evaluated separately
        };
        if !tcx.is_mir_available(def) {
            continue;
        }
        let name = def_str(tcx, def);
        let body = tcx.optimized_mir(def);
        fns.push(cx.body_json(def, &name, kind, body));
        let promoted = tcx.promoted_mir(def);
        for (i, pb) in promoted.iter_enumerated() {
            let pname = format!("{}::{{promoted#{}}}", name, i.index());
            fns.push(cx.body_json(def, &pname, "Promoted", pb));
        }
    }

    // ADTs, consts, statics, foreign items
    let mut adts = Vec::new();
    let mut consts = Vec::new();
    let mut statics = Vec::new();
    let mut foreign = Vec::new();
    let mut traits = Vec::new();
    for ldid in tcx.hir_crate_items(()).definitions() {
        let def = ldid.to_def_id();
        match tcx.def_kind(def) {
            DefKind::Struct | DefKind::Enum | DefKind::Union => {
                let adt = tcx.adt_def(def);
                let mut variants = Vec::new();
                for v in adt.variants() {
                    let mut fields = Vec::new();
                    for f in &v.fields {
                        let fty = tcx.type_of(f.did).instantiate_identity().skip_norm_wip();
                        fields.push(J::obj(vec![("name", J::s(f.name.as_str())), ("ty", J::s(&ty_str(fty)))]));
                    }
                    variants.push(J::obj(vec![("name", J::s(v.name.as_str())), ("fields", J::A(fields))]));
                }
                adts.push(J::obj(vec![
                    ("path", J::s(&def_str(tcx, def))),
                    ("kind", J::s(&format!("{:?}", tcx.def_kind(def)))),
                    ("variants", J::A(variants)),
                    ("span", span_json(tcx, tcx.def_span(def))),
                ]));
            }
            DefKind::Const { .. } | DefKind::AssocConst { .. } => {
                // only concrete (non-generic) consts
                if tcx.generics_of(def).requires_monomorphization(tcx) {
                    continue;
                }
                if let Some(tr) = tcx.trait_of_assoc(def) {
                    let _ = tr;
                    if !tcx.defaultness(def).has_value() {
                        continue;
                    }
                }
                let ty = tcx.type_of(def).instantiate_identity().skip_norm_wip();
                let mut o = vec![("path", J::s(&def_str(tcx, def))), ("ty", J::s(&ty_str(ty))), ("span", span_json(tcx, tcx.def_span(def)))];
                if let Ok(val) = tcx.const_eval_poly(def) {
                    o.push(("v", cx.const_value_json(val, ty, 0)));
                }
                consts.push(J::obj(o));
            }
            DefKind::Static { mutability, nested, .. } => {
                if nested {
                    continue;
                }
                let ty = tcx.type_of(def).instantiate_identity().skip_norm_wip();
                let env = TypingEnv::post_analysis(tcx, def);
                statics.push(J::obj(vec![
                    ("path", J::s(&def_str(tcx, def))),
                    ("ty", J::s(&ty_str(ty))),
                    ("mutable", J::B(mutability.is_mut())),
                    ("freeze", J::B(ty.is_freeze(tcx, env))),
                    ("span", span_json(tcx, tcx.def_span(def))),
                ]));
            }
            DefKind::Fn | DefKind::AssocFn => {
                if tcx.is_foreign_item(def) {
                    foreign.push(J::s(&def_str(tcx, def)));
                }
            }
            DefKind::Trait => {
                let mut methods = Vec::new();
                for it in tcx.associated_items(def).in_definition_order() {
                    if matches!(it.kind, ty::AssocKind::Fn { .. }) {
                        methods.push(J::obj(vec![
                            ("name", J::s(it.name().as_str())),
                            ("def", J::s(&def_str(tcx, it.def_id))),
                            ("has_default", J::B(tcx.defaultness(it.def_id).has_value())),
                        ]));
                    }
                }
                traits.push(J::obj(vec![("path", J::s(&def_str(tcx, def))), ("methods", J::A(methods))]));
            }
            _ => {}
        }
    }

    // trait impls in this crate
    let mut impls = Vec::new();
    for (trait_def, impl_ids) in tcx.all_local_trait_impls(()).iter() {
        for imp in impl_ids {
            let impl_def = imp.to_def_id();
            let self_ty = tcx.type_of(impl_def).instantiate_identity().skip_norm_wip();
            let mut methods = Vec::new();
            for it in tcx.associated_items(impl_def).in_definition_order() {
                if matches!(it.kind, ty::AssocKind::Fn { .. }) {
                    let tm = it.trait_item_def_id().map(|d| def_str(tcx, d));
                    methods.push(J::obj(vec![
                        ("name", J::s(it.name().as_str())),
                        ("def", J::s(&def_str(tcx, it.def_id))),
                        ("trait_method", match tm { Some(s) => J::s(&s), None => J::Null }),
                    ]));
                }
            }
            impls.push(J::obj(vec![
                ("trait", J::s(&def_str(tcx, *trait_def))),
                ("self_ty", J::s(&ty_str(self_ty))),
                ("methods", J::A(methods)),
                ("span", span_json(tcx, tcx.def_span(impl_def))),
            ]));
        }
    }

    // unsafe blocks in local HIR (user-written only)
    let unsafe_blocks = unsafe_blocks(tcx);

    let crate_name = tcx.crate_name(LOCAL_CRATE).to_string();
    J::obj(vec![
        ("crate", J::s(&crate_name)),
        ("test_cfg", J::B(tcx.sess.opts.test)),
        ("opt_level", J::s(&format!("{:?}", tcx.sess.opts.optimize))),
        ("overflow_checks", J::B(tcx.sess.overflow_checks())),
        ("fns", J::A(fns)),
        ("adts", J::A(adts)),
        ("consts", J::A(consts)),
        ("statics", J::A(statics)),
        ("foreign", J::A(foreign)),
        ("traits", J::A(traits)),
        ("impls", J::A(impls)),
        ("unsafe_blocks", J::A(unsafe_blocks)),
        ("externals", J::O(cx.externals.into_iter().collect())),
    ])
}

fn unsafe_blocks<'tcx>(tcx: TyCtxt<'tcx>) -> Vec<J> {
    use rustc_hir::intravisit::{self, Visitor};
    struct V<'tcx> {
        tcx: TyCtxt<'tcx>,
        out: Vec<J>,
        owner: String,
    }
    impl<'tcx> Visitor<'tcx> for V<'tcx> {
        fn visit_block(&mut self, b: &'tcx rustc_hir::Block<'tcx>) {
            if let rustc_hir::BlockCheckMode::UnsafeBlock(src) = b.rules {
                if matches!(src, rustc_hir::UnsafeSource::UserProvided) && !b.span.from_expansion() {
                    self.out.push(J::obj(vec![("fn", J::s(&self.owner)), ("span", span_json(self.tcx, b.span))]));
                }
            }
            intravisit::walk_block(self, b);
        }
    }
    let mut v = V { tcx, out: Vec::new(), owner: String::new() };
    for ldid in tcx.hir_body_owners() {
        let def = ldid.to_def_id();
        if !matches!(tcx.def_kind(def), DefKind::Fn | DefKind::AssocFn | DefKind::Closure) {
            continue;
        }
        v.owner = def_str(tcx, def);
        let body = tcx.hir_body_owned_by(ldid);
        v.visit_body(body);
    }
    v.out
}
