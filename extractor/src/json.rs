// Minimal JSON value + writer (no dependencies).
pub enum J {
    Null,
    B(bool),
    I(i128),
    S(String),
    A(Vec<J>),
    O(Vec<(String, J)>),
}

impl J {
    pub fn s(s: &str) -> J {
        J::S(s.to_string())
    }
    pub fn obj(v: Vec<(&str, J)>) -> J {
        J::O(v.into_iter().map(|(k, v)| (k.to_string(), v)).collect())
    }
    pub fn push(&mut self, k: &str, v: J) {
        if let J::O(o) = self {
            o.push((k.to_string(), v));
        }
    }
    pub fn write(&self, out: &mut String) {
        match self {
            J::Null => out.push_str("null"),
            J::B(b) => out.push_str(if *b { "true" } else { "false" }),
            J::I(i) => out.push_str(&i.to_string()),
            J::S(s) => esc(s, out),
            J::A(a) => {
                out.push('[');
                for (i, x) in a.iter().enumerate() {
                    if i > 0 {
                        out.push(',');
                    }
                    x.write(out);
                }
                out.push(']');
            }
            J::O(o) => {
                out.push('{');
                for (i, (k, v)) in o.iter().enumerate() {
                    if i > 0 {
                        out.push(',');
                    }
                    esc(k, out);
                    out.push(':');
                    v.write(out);
                }
                out.push('}');
            }
        }
    }
}

fn esc(s: &str, out: &mut String) {
    out.push('"');
    for c in s.chars() {
        match c {
            '"' => out.push_str("\\\""),
            '\\' => out.push_str("\\\\"),
            '\n' => out.push_str("\\n"),
            '\r' => out.push_str("\\r"),
            '\t' => out.push_str("\\t"),
            c if (c as u32) < 0x20 => out.push_str(&format!("\\u{:04x}", c as u32)),
            c => out.push(c),
        }
    }
    out.push('"');
}
