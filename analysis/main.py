"""./check entry: python3 -m analysis.main <Cnn> [--tier quick|thorough] [--explain path] [--dump fn]"""
import argparse, importlib, json, os, sys, traceback

sys.path.insert(0, os.path.dirname(os.path.dirname(os.path.abspath(__file__))))
from analysis import framework  # noqa


def main():
    ap = argparse.ArgumentParser()
    ap.add_argument("prop")
    ap.add_argument("--tier", default=os.environ.get("VERIF_TIER", "quick"))
    ap.add_argument("--explain")
    ap.add_argument("--dump")
    a = ap.parse_args()
    if a.tier not in ("quick", "thorough"):
        a.tier = "quick"
    if a.explain:
        with open(a.explain) as fh:
            v = json.load(fh)
        print(json.dumps(v, indent=1))
        print("\nTo reproduce: ./check %s --tier quick   (the analysis is deterministic; it re-extracts facts from /repo)" % v["property"])
        return 0
    from analysis.context import Ctx
    if a.dump:
        from analysis import pretty
        ctx = Ctx(a.tier)
        for n, f in ctx.F.fns.items():
            if a.dump in n:
                print(pretty.dump(f))
        return 0
    prop = a.prop.upper()
    config = os.environ.get("RWS_CONFIG", "dev")
    try:
        ctx = Ctx(a.tier, config=config)
    except Exception as e:  # extraction failed: fail closed
        traceback.print_exc()
        return framework.fail_closed(prop, a.tier, "facts-unavailable: %s" % str(e)[:500])
    try:
        mod = importlib.import_module("analysis.rules." + prop.lower())
    except ImportError:
        print("no check for %s" % prop)
        return 2
    try:
        rc = mod.run(ctx)
    except Exception as e:
        traceback.print_exc()
        return framework.fail_closed(prop, a.tier, "checker-error: %s: %s" % (type(e).__name__, str(e)[:300]))
    if rc == 0 and a.tier == "thorough" and not os.environ.get("RWS_NO_THOROUGH"):
        from analysis import thorough
        rc = thorough.run(prop)
    return rc


if __name__ == "__main__":
    sys.exit(main())
