"""Thorough tier: after the quick rules passed on the dev configuration,
  1. re-extract and re-run the same rules on the release configuration (the verdict must not depend on debug-only MIR);
  2. run the checker's own self-test for this property: every seeded mutant / sub-agent seed that this property is expected to
     catch must be reported, every behaviour-preserving variant must stay silent (scratch copies outside /repo and /verif);
  3. for the panic properties, cross-check the MIR-based site inventory against clippy's HIR-based unwrap_used lint.
Results are merged into the evidence file; any failure is a VIOLATION of kind 'thorough'."""
import json, os, re, shutil, subprocess, sys, tempfile, time

VERIF = os.path.dirname(os.path.dirname(os.path.abspath(__file__)))
EVID = os.environ.get("RWS_EVIDENCE_DIR") or os.path.join(VERIF, "evidence")
REPO = os.environ.get("RWS_REPO", "/repo")


def _run(cmd, env=None, cwd=VERIF, timeout=3600):
    e = dict(os.environ)
    e["RWS_NO_THOROUGH"] = "1"
    if env:
        e.update(env)
    return subprocess.run(cmd, cwd=cwd, env=e, capture_output=True, text=True, timeout=timeout)


def run(prop):
    t0 = time.time()
    evp = os.path.join(EVID, prop + ".json")
    ev = json.load(open(evp))
    problems = []
    extra = {}
    # 1. release configuration
    tmp = tempfile.mkdtemp(prefix="rws-thorough-")
    try:
        r = _run([os.path.join(VERIF, "check"), prop, "--tier", "quick"], {"RWS_CONFIG": "release", "RWS_EVIDENCE_DIR": tmp})
        viol = [l for l in r.stdout.splitlines() if l.startswith("VIOLATION")]
        rel_ev = {}
        try:
            rel_ev = json.load(open(os.path.join(tmp, prop + ".json")))
        except Exception:
            pass
        extra["release_configuration"] = {"rc": r.returncode, "violations": len(viol),
                                          "obligations": rel_ev.get("coverage", {}).get("obligations"), "discharged": rel_ev.get("coverage", {}).get("discharged"),
                                          "same_counts_as_dev": rel_ev.get("coverage", {}).get("obligations") == ev["coverage"].get("obligations")}
        if r.returncode != 0:
            problems.append(("release-config", "the same rules report a violation on the release configuration:\n" + "\n".join(viol[:5]) + r.stderr[-500:]))
    finally:
        shutil.rmtree(tmp, ignore_errors=True)
    # 2. self-test of the checker for this property
    r = _run([sys.executable, os.path.join(VERIF, "selftest", "run.py"), "--props", prop, "--jobs", "12"], timeout=7200)
    lines = [l for l in r.stdout.splitlines() if re.match(r"^(mutants|benign|seeded)/", l)]
    ok = [l for l in lines if " ok " in l]
    bad = [l for l in lines if " FAIL" in l]
    skipped = [l for l in lines if " skip " in l]
    extra["selftest"] = {"variants": len(lines), "passed": len(ok), "failed": [l[:200] for l in bad], "skipped_patch_does_not_apply": len(skipped),
                         "mutants_caught": len([l for l in ok if l.startswith(("mutants/", "seeded/"))]), "benign_silent": len([l for l in ok if l.startswith("benign/")]),
                         "samples": [l.split()[0] for l in ok[:6]]}
    if r.returncode != 0 or bad:
        problems.append(("selftest", "the checker's self-test failed for %s:\n%s" % (prop, "\n".join(bad[:8]) or r.stdout[-800:] + r.stderr[-500:])))
    # 3. clippy cross-check (panic properties)
    if prop in ("C04", "C20", "C06"):
        cc = clippy_crosscheck()
        extra["clippy_crosscheck"] = cc
        if cc.get("error"):
            problems.append(("clippy", cc["error"]))
    ev["tier"] = "thorough"
    ev["coverage"]["thorough"] = extra
    ev["coverage"]["explanation"] += " Thorough tier: the same rules re-run on the release configuration, the checker's self-test (seeded mutants must be caught, benign variants must stay silent) and, for the panic properties, a cross-check of the site inventory against clippy's unwrap_used lint."
    ev["wall_s"] = round(ev.get("wall_s", 0) + time.time() - t0, 3)
    rc = 0
    if problems:
        vdir = os.path.join(EVID, "violations")
        os.makedirs(vdir, exist_ok=True)
        for i, (kind, msg) in enumerate(problems):
            pth = os.path.join(vdir, "%s-thorough-%d.json" % (prop, i))
            json.dump({"property": prop, "rule": "thorough-" + kind, "key": "%s|thorough|%s" % (prop, kind), "message": msg}, open(pth, "w"), indent=1)
            print("VIOLATION property=%s replay=%s" % (prop, pth))
            print("  " + msg.replace("\n", "\n  ")[:1500])
        ev["violations"] = ev.get("violations", 0) + len(problems)
        rc = 1
    json.dump(ev, open(evp, "w"), indent=1)
    print("== %s thorough: release config rc=%s, selftest %d/%d, %.1fs" % (prop, extra["release_configuration"]["rc"], len(ok), len(lines), time.time() - t0))
    return rc


def clippy_crosscheck():
    """clippy's unwrap_used (HIR) vs the MIR inventory: every unwrap/expect clippy sees in non-test code must be a site of the inventory"""
    tgt = tempfile.mkdtemp(prefix="rws-clippy-")
    try:
        r = subprocess.run(["cargo", "+nightly", "clippy", "--offline", "--message-format=json", "--", "-Aclippy::all", "-Wclippy::unwrap_used", "-Wclippy::expect_used"],
                           cwd=REPO, env=dict(os.environ, CARGO_TARGET_DIR=tgt, CARGO_NET_OFFLINE="true"), capture_output=True, text=True, timeout=1200)
        hits = set()
        for line in r.stdout.splitlines():
            try:
                m = json.loads(line)
            except Exception:
                continue
            msg = m.get("message") or {}
            code = (msg.get("code") or {}).get("code") or ""
            if code in ("clippy::unwrap_used", "clippy::expect_used"):
                for sp in msg.get("spans", []):
                    if sp.get("is_primary"):
                        hits.add((sp["file_name"], sp["line_start"]))
        if not hits:
            return {"error": "clippy produced no unwrap_used diagnostics (tool unavailable?): " + r.stderr[-300:]}
        # our inventory (all functions of rws)
        sys.path.insert(0, VERIF)
        from analysis.context import Ctx
        from analysis import panics
        ctx = Ctx("quick")
        inv = panics.Inventory(ctx)
        mine = set()
        for fn in ctx.F.rws_fns():
            if fn.kind == "Promoted":
                continue
            for s in inv.sites(fn):
                if s.kind == "unwrap":
                    mine.add((s.file, s.line))
        missing = sorted(h for h in hits if h not in mine)
        res = {"clippy_unwrap_sites": len(hits), "inventory_unwrap_sites": len(mine), "clippy_sites_unknown_to_inventory": missing[:10]}
        # an unwrap clippy sees and the inventory does not: the extractor missed code (dead code eliminated from MIR is acceptable only if unreachable)
        if len(missing) > max(3, len(hits) // 50):
            res["error"] = "clippy reports %d unwrap/expect sites the MIR inventory does not know (e.g. %s): the extractor is missing code" % (len(missing), missing[:5])
        return res
    finally:
        shutil.rmtree(tgt, ignore_errors=True)
