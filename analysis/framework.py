"""Check framework: rule results, violation keys, known findings, evidence + replay files, exit protocol."""
import json, os, sys, time

VERIF = os.path.dirname(os.path.dirname(os.path.abspath(__file__)))
EVID = os.environ.get("RWS_EVIDENCE_DIR") or os.path.join(VERIF, "evidence")
KNOWN = os.path.join(VERIF, "known_findings.json")
T0 = time.time()


class Violation:
    def __init__(self, rule, key, message, file=None, line=None, fn=None, detail=None):
        self.rule = rule
        self.key = key          # stable key, no line numbers
        self.message = message
        self.file, self.line, self.fn = file, line, fn
        self.detail = detail or {}

    def to_json(self, prop):
        return {"property": prop, "rule": self.rule, "key": self.key, "message": self.message,
                "file": self.file, "line": self.line, "function": self.fn, "detail": self.detail}


class Rule:
    """One rule of a property: a template instantiated on `instances` discovered sites, with a floor."""

    def __init__(self, name, template, floor=0):
        self.name = name
        self.template = template
        self.floor = floor
        self.instances = 0
        self.obligations = 0
        self.discharged = 0
        self.samples = []
        self.violations = []
        self.notes = []
        self.classes = {}

    def instance(self, sample=None, ok=True):
        """count one analysed instance (= one obligation); `ok` False means a violation is reported separately"""
        self.instances += 1
        self.obligations += 1
        if ok:
            self.discharged += 1
        if sample is not None and len(self.samples) < 6:
            self.samples.append(sample)

    def classify(self, cls, n=1):
        self.classes[cls] = self.classes.get(cls, 0) + n

    def violate(self, key, message, file=None, line=None, fn=None, detail=None):
        self.violations.append(Violation(self.name, key, message, file, line, fn, detail))

    def note(self, s):
        self.notes.append(s)


class Check:
    def __init__(self, prop, tier, title=""):
        self.prop = prop
        self.tier = tier
        self.title = title
        self.rules = []
        self.assumptions = []
        self.undecided = []
        self.analysed = {}
        self.t0 = T0
        self.seed = int(os.environ.get("VERIF_SEED", "0") or 0)
        self.level = "other"
        self.technique = ""
        self.extra = {}

    def rule(self, name, template, floor=0):
        r = Rule(name, template, floor)
        self.rules.append(r)
        return r

    # ---- finishing ----
    def finish(self):
        known = load_known()
        wall = time.time() - self.t0
        all_v = []
        for r in self.rules:
            if r.instances < r.floor:
                r.violate("%s|%s|below-floor" % (self.prop, r.name),
                          "rule %s matched %d instance(s), below the floor of %d counted by hand: an anchor moved or the rule no longer sees the code (fail closed)" % (r.name, r.instances, r.floor),
                          detail={"reason": "below-floor", "instances": r.instances, "floor": r.floor})
            all_v.extend(r.violations)
        kf_lines = []
        real = []
        known_keys = {k["key"]: k for k in known if k.get("property") == self.prop and k.get("status") == "known"}
        seen_known = set()
        for v in all_v:
            if v.key in known_keys:
                if v.key not in seen_known:
                    seen_known.add(v.key)
                    kf_lines.append("KNOWN-FINDING: property=%s %s :: %s" % (self.prop, v.key, known_keys[v.key].get("what", v.message)))
            else:
                real.append(v)
        os.makedirs(os.path.join(EVID, "violations"), exist_ok=True)
        # clear old replay files of this property
        vdir = os.path.join(EVID, "violations")
        for f in os.listdir(vdir):
            if f.startswith(self.prop + "-"):
                os.remove(os.path.join(vdir, f))
        out_lines = []
        for i, v in enumerate(real):
            p = os.path.join(vdir, "%s-%d.json" % (self.prop, i))
            with open(p, "w") as fh:
                json.dump(v.to_json(self.prop), fh, indent=1)
            out_lines.append("VIOLATION property=%s replay=%s" % (self.prop, p))
            out_lines.append("  rule=%s key=%s" % (v.rule, v.key))
            out_lines.append("  %s%s" % (("%s:%s: " % (v.file, v.line)) if v.file else "", v.message))
        obligations = sum(r.obligations for r in self.rules)
        # an obligation whose only violations are known findings is reported as not discharged
        discharged = sum(r.discharged for r in self.rules)
        samples = []
        for r in self.rules:
            for s in r.samples[:3]:
                samples.append({"rule": r.name, "instance": s})
        rules_json = []
        for r in self.rules:
            rules_json.append({"rule": r.name, "template": r.template, "instances": r.instances, "floor": r.floor,
                               "obligations": r.obligations, "discharged": r.discharged,
                               "violations": len([v for v in r.violations if v.key not in known_keys]),
                               "known_findings": len([v for v in r.violations if v.key in known_keys]),
                               "classes": r.classes, "notes": r.notes})
        cov = {
            "explanation": "Static analysis of /repo's current working tree (MIR of rws + file-ext + url-build-parse + url-search-params, "
                           "extracted by the rws-facts rustc driver on this run). " + self.title,
            "technique": self.technique,
            "obligations": obligations,
            "discharged": discharged,
            "evaluations": max(obligations, 1),
            "distinct_nontrivial": max(sum(r.instances for r in self.rules), 0),
            "rule": "one obligation per discovered rule instance (call site, aggregate, CFG edge, table entry); distinct by construction (each instance is a different program location or table row)",
            "samples": samples if samples else [{"note": "no instances"}],
            "rules": rules_json,
            "analysed": self.analysed,
            "undecided_remainder": self.undecided,
            "known_findings_reported": sorted(seen_known),
            "exhaustive": False,
        }
        cov.update(self.extra)
        ev = {"property_id": self.prop, "tier": self.tier, "seed": self.seed, "level": self.level,
              "coverage": cov, "assumptions": self.assumptions, "wall_s": round(wall, 3), "violations": len(real)}
        os.makedirs(EVID, exist_ok=True)
        with open(os.path.join(EVID, self.prop + ".json"), "w") as fh:
            json.dump(ev, fh, indent=1, sort_keys=False)
        # human-readable summary
        print("== %s (%s tier) %s" % (self.prop, self.tier, self.title))
        for r in self.rules:
            nv = len([v for v in r.violations if v.key not in known_keys])
            nk = len([v for v in r.violations if v.key in known_keys])
            print("  rule %-28s instances=%-4d floor=%-3d discharged=%d/%d violations=%d known=%d %s" % (
                r.name, r.instances, r.floor, r.discharged, r.obligations, nv, nk, json.dumps(r.classes) if r.classes else ""))
        for l in kf_lines:
            print(l)
        for l in out_lines:
            print(l)
        print("== %s: %s (%.2fs)" % (self.prop, "VIOLATED" if real else "holds on everything analysed", wall))
        return 1 if real else 0


def load_known():
    try:
        with open(KNOWN) as fh:
            return json.load(fh)["findings"]
    except FileNotFoundError:
        return []


def fail_closed(prop, tier, reason):
    """extraction failed / anchors missing before any rule could run"""
    c = Check(prop, tier)
    r = c.rule("setup", "facts must be extractable from /repo's working tree")
    r.instance(ok=False)
    r.violate("%s|setup|%s" % (prop, reason.split(":")[0][:60]), reason)
    return c.finish()
