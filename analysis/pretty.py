"""Human-readable rendering of the JSON MIR (for rule development and --explain output)."""


def place(p, fn=None):
    s = "_%d" % p["l"]
    if fn is not None:
        n = fn.local_name(p["l"])
        if n:
            s = "_%d{%s}" % (p["l"], n)
    for e in p["p"]:
        if e == "*":
            s = "(*%s)" % s
        elif isinstance(e, dict):
            if "f" in e:
                s += "." + e["n"]
            elif "i" in e:
                s += "[_%d]" % e["i"]
            elif "ci" in e:
                s += "[%s%d]" % ("-" if e["from_end"] else "", e["ci"])
            elif "d" in e:
                s += " as %s" % e["d"]
            elif "sub" in e:
                s += "[%d..%s%d]" % (e["sub"], "-" if e["from_end"] else "", e["to"])
        else:
            s += "." + str(e)
    return s


def operand(o, fn=None):
    k = o.get("k")
    if k in ("copy", "move"):
        return ("move " if k == "move" else "") + place(o, fn)
    if k == "const":
        if "fn" in o:
            return "fn:" + o["fn"]
        if "promoted" in o:
            return "promoted#%d" % o["promoted"]
        if "item" in o:
            v = o.get("v")
            if isinstance(v, (str, int, bool)):
                return "const %s=%r" % (o["item"], v)
            return "const %s" % o["item"]
        return "const %r" % (o.get("v"),)
    return str(o)


def rvalue(rv, fn=None):
    k = rv["k"]
    ops = ", ".join(operand(o, fn) for o in rv.get("ops", []))
    if k == "use":
        return ops
    if k == "ref":
        return ("&mut " if rv["mut"] else "&") + place(rv["place"], fn)
    if k == "rawptr":
        return "&raw " + place(rv["place"], fn)
    if k == "binop":
        return "%s(%s)" % (rv["op"], ops)
    if k == "unop":
        return "%s(%s)" % (rv["op"], ops)
    if k == "cast":
        return "%s as %s [%s]" % (ops, rv["to"], rv["cast"])
    if k == "discr":
        return "discriminant(%s)" % place(rv["place"], fn)
    if k == "aggregate":
        if rv["agg"] == "adt":
            fs = rv["fields"]
            return "%s::%s{%s}" % (rv["adt"], rv["variant"], ", ".join("%s: %s" % (fs[i] if i < len(fs) else i, operand(o, fn)) for i, o in enumerate(rv["ops"])))
        if rv["agg"] == "closure":
            return "closure %s [%s]" % (rv["closure"], ops)
        return "%s(%s)" % (rv["agg"], ops)
    return "%s(%s)" % (k, ops)


def term(t, fn=None):
    k = t["k"]
    if k == "call":
        c = t.get("resolved") or t.get("callee") or ("indirect " + operand(t["indirect"], fn))
        if not t.get("is_resolved") and t.get("callee"):
            c = "?" + t["callee"]
        return "%s = %s(%s) -> bb%s" % (place(t["dest"], fn), c, ", ".join(operand(a, fn) for a in t["args"]), t["target"])
    if k == "switch":
        return "switch %s [%s, otherwise: bb%s]" % (operand(t["discr"], fn), ", ".join("%s: bb%s" % (v, b) for v, b in t["targets"]), t["otherwise"])
    if k == "goto":
        return "goto bb%s" % t["target"]
    if k == "drop":
        return "drop(%s) -> bb%s" % (place(t["place"], fn), t["target"])
    if k == "assert":
        return "assert(%s%s, %s [%s]) -> bb%s" % ("" if t["expected"] else "!", operand(t["cond"], fn), t["kind"], ", ".join(operand(o, fn) for o in t["ops"]), t["target"])
    return k


def dump(fn, cleanup=False):
    out = ["fn %s  [%s, %s] args=%d ret=%s" % (fn.def_, fn.kind, fn.loc(), fn.nargs, fn.ret)]
    for i, l in enumerate(fn.locals):
        out.append("  let _%d: %s%s" % (i, l["ty"], ("  // " + fn.local_name(i)) if fn.local_name(i) else ""))
    for b in fn.blocks:
        if b["cleanup"] and not cleanup:
            continue
        out.append("  bb%d%s:" % (b["id"], " (cleanup)" if b["cleanup"] else ""))
        for s in b["stmts"]:
            if s["k"] == "assign":
                out.append("    %s = %s   // L%d" % (place(s["place"], fn), rvalue(s["rv"], fn), s["span"]["line"]))
            elif s["k"] in ("live", "dead"):
                continue
            else:
                out.append("    %s" % s)
        out.append("    %s   // L%d" % (term(b["term"], fn), b["term"]["span"]["line"]))
    return "\n".join(out)
