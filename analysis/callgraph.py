"""A1: whole-program call graph over the four crates, role-based root discovery, reachability with cut edges."""
from collections import defaultdict, deque

BOX_DYN_CALL = ("<std::boxed::Box<F, A> as std::ops::FnOnce<Args>>::call_once",
                "<std::boxed::Box<F, A> as std::ops::FnMut<Args>>::call_mut",
                "<std::boxed::Box<F, A> as std::ops::Fn<Args>>::call")


# std functions that invoke a callable handed to them
INVOKERS = ("std::panic::catch_unwind", "std::thread::spawn", "std::thread::Builder::spawn", "::call_once", "::call_mut", "std::thread::scope")


def callee_name(t):
    """the most precise name of a call terminator's target"""
    if t.get("is_resolved") and t.get("resolved"):
        return t["resolved"]
    return t.get("callee")


class Edge:
    __slots__ = ("src", "dst", "kind", "block", "line", "file")

    def __init__(self, src, dst, kind, block, line, file):
        self.src, self.dst, self.kind, self.block, self.line, self.file = src, dst, kind, block, line, file

    def __repr__(self):
        return "%s -[%s bb%s L%s]-> %s" % (self.src, self.kind, self.block, self.line, self.dst)


def const_fn_entries(v, out=None):
    """function names stored (as fn pointers) anywhere inside an evaluated constant"""
    if out is None:
        out = []
    if isinstance(v, dict):
        if isinstance(v.get("fn"), str) and len(v) == 1:
            out.append(v["fn"])
        for x in v.values():
            const_fn_entries(x, out)
    elif isinstance(v, list):
        for x in v:
            const_fn_entries(x, out)
    return out


class CallGraph:
    def __init__(self, F):
        self.F = F
        self.out = defaultdict(list)  # src -> [Edge]
        self.inn = defaultdict(list)
        self.unresolved = []          # (fn, block, callee) trait-bound calls that expanded to nothing local
        self._impl_methods = defaultdict(list)  # trait method def -> [impl method def]
        for i in F.impls:
            for m in i["methods"]:
                if m.get("trait_method"):
                    self._impl_methods[m["trait_method"]].append(m["def"])
        self._build()

    def _add(self, src, dst, kind, block, line, file):
        e = Edge(src, dst, kind, block, line, file)
        self.out[src].append(e)
        self.inn[dst].append(e)

    def _build(self):
        F = self.F
        # generic functions that box their parameter into a dyn callable: callers' closures become dyn-call targets
        boxing_generic = set()
        dyn_targets = set()
        for fn in F.fns.values():
            for b in fn.blocks:
                for s in b["stmts"]:
                    if s["k"] == "assign" and s["rv"]["k"] == "cast" and "Unsize" in s["rv"]["cast"] and "dyn std::ops::Fn" in s["rv"]["to"]:
                        if s["rv"]["fn_items"]:
                            dyn_targets.update(s["rv"]["fn_items"])
                        elif "dyn " not in (s["rv"].get("from") or ""):
                            # a generic / opaque callable is erased here (Box<F> -> Box<dyn FnOnce()>); a dyn -> dyn re-coercion
                            # (lifetime or auto-trait change of an already erased task) is not a submit function
                            boxing_generic.add(fn.def_)
        for fn in F.fns.values():
            for bid, t in fn.calls():
                c = callee_name(t)
                if c in boxing_generic or (t.get("callee") in boxing_generic):
                    dyn_targets.update(t.get("fn_items", []))
        self.dyn_targets = dyn_targets
        self.boxing_generic = boxing_generic

        for fn in F.fns.values():
            src = fn.def_
            mentioned = set()
            for l in fn.locals:
                for x in l.get("fn_items", []):
                    mentioned.add(x)
            for b in fn.blocks:
                if b["cleanup"]:
                    continue
                for s in b["stmts"]:
                    if s["k"] != "assign":
                        continue
                    rv = s["rv"]
                    if rv.get("closure"):
                        mentioned.add(rv["closure"])
                    for x in rv.get("fn_items", []):
                        mentioned.add(x)
                    for o in rv.get("ops", []):
                        if o.get("k") == "const" and o.get("fn"):
                            mentioned.add(o["fn"])
                        if o.get("k") == "const" and o.get("item") in F.consts:
                            # a constant table of function pointers (`const ROUTES: [Route; N]`): whoever reads the table may call its entries
                            mentioned.update(const_fn_entries(F.consts[o["item"]].get("v")))
                        if o.get("k") == "const" and "promoted" in o:
                            pn = "%s::{promoted#%d}" % (o["promoted_of"], o["promoted"])
                            self._add(src, pn, "promoted", b["id"], s["span"]["line"], s["span"]["file"])
                t = b["term"]
                if t["k"] == "call":
                    line = t["span"]["line"]
                    file = t["span"]["file"]
                    c = callee_name(t)
                    if c is None:
                        # call through a fn pointer / closure local: every mentioned fn item is a candidate
                        self._add(src, "<indirect>", "indirect", b["id"], line, file)
                    else:
                        if t.get("is_resolved"):
                            self._add(src, c, "call", b["id"], line, file)
                            if c in BOX_DYN_CALL:
                                for d in sorted(dyn_targets):
                                    self._add(src, d, "dyn-call", b["id"], line, file)
                            elif c not in F.fns and any(k in c for k in INVOKERS) and any("dyn std::ops::Fn" in x for x in t.get("gargs", []) + t.get("arg_tys", [])):
                                # a boxed dyn callable handed to code we do not see (catch_unwind, thread::spawn, ...): assume it is called
                                kind = "dyn-call-caught" if c.startswith("std::panic::catch_unwind") else "dyn-call"
                                for d in sorted(dyn_targets):
                                    self._add(src, d, kind, b["id"], line, file)
                        else:
                            impls = self._impl_methods.get(t.get("callee"), [])
                            if impls:
                                for m in impls:
                                    self._add(src, m, "trait-cha", b["id"], line, file)
                            else:
                                self._add(src, c, "call-unresolved", b["id"], line, file)
                                self.unresolved.append((src, b["id"], c))
                    for x in t.get("fn_items", []):
                        mentioned.add(x)
                    for a in t.get("args", []):
                        if a.get("k") == "const" and "promoted" in a:
                            pn = "%s::{promoted#%d}" % (a["promoted_of"], a["promoted"])
                            self._add(src, pn, "promoted", b["id"], line, file)
            for x in sorted(mentioned):
                if x != src:
                    self._add(src, x, "mentions", -1, fn.span["line"], fn.span["file"])

    # ---- reachability ----
    def reachable(self, roots, cut=None, kinds=None):
        """set of nodes reachable from roots; `cut(edge)` True removes the edge. Returns (set, parent-edge map)."""
        seen = {}
        dq = deque()
        for r in roots:
            if r not in seen:
                seen[r] = None
                dq.append(r)
        while dq:
            n = dq.popleft()
            for e in self.out.get(n, []):
                if cut is not None and cut(e):
                    continue
                if kinds is not None and e.kind not in kinds:
                    continue
                if e.dst not in seen:
                    seen[e.dst] = e
                    dq.append(e.dst)
        return seen

    def path_to(self, seen, node):
        """reconstruct one root->node path (list of Edge) from the parent map returned by reachable()"""
        path = []
        n = node
        while seen.get(n) is not None:
            e = seen[n]
            path.append(e)
            n = e.src
        return path[::-1]

    def fmt_path(self, seen, node):
        p = self.path_to(seen, node)
        if not p:
            return node
        return " -> ".join([p[0].src] + ["%s [%s:%s]" % (e.dst, e.file, e.line) for e in p])

    def sccs(self, nodes):
        """Tarjan over the subgraph induced by `nodes` (call / trait-cha / dyn-call / mentions edges)"""
        nodes = set(nodes)
        index, low, onstack, stack, out = {}, {}, set(), [], []
        counter = [0]
        for root in sorted(nodes):
            if root in index:
                continue
            work = [(root, 0)]
            while work:
                v, pi = work[-1]
                if pi == 0:
                    index[v] = low[v] = counter[0]
                    counter[0] += 1
                    stack.append(v)
                    onstack.add(v)
                succs = [e.dst for e in self.out.get(v, []) if e.dst in nodes]
                recurse = False
                for i in range(pi, len(succs)):
                    s = succs[i]
                    if s not in index:
                        work[-1] = (v, i + 1)
                        work.append((s, 0))
                        recurse = True
                        break
                    elif s in onstack:
                        low[v] = min(low[v], index[s])
                if recurse:
                    continue
                if low[v] == index[v]:
                    c = []
                    while True:
                        x = stack.pop()
                        onstack.discard(x)
                        c.append(x)
                        if x == v:
                            break
                    out.append(c)
                work.pop()
                if work:
                    u = work[-1][0]
                    low[u] = min(low[u], low[v])
        return out


# ---------------------------------------------------------------- roles

def is_transport_io(t, what):
    """a call of the trait method `what` (std::io::Read::read.. / std::io::Write::write..) on the generic transport: unresolved
    (the receiver is `impl Read + Write` itself) or resolved into a std wrapper around it (`BufWriter<&mut impl Write>`, `&mut W`)"""
    if not (t.get("callee") or "").startswith(what):
        return False
    if not t.get("is_resolved"):
        return True
    recv = (t.get("arg_tys") or [""])[0]
    return "impl " in recv


class Roles:
    """Role-based anchors discovered from resolved program facts (never from positions)."""

    def __init__(self, F, G):
        self.F, self.G = F, G
        self.errors = []
        self.main = "main" if "main" in F.fns else None
        if self.main is None:
            self.errors.append("anchor-missing: fn main")
        # accept loop: function calling TcpListener::incoming
        self.accept_loops = sorted({fn.def_ for fn in F.rws_fns() for _, t in fn.calls()
                                    if callee_name(t) == "std::net::TcpListener::incoming"})
        if not self.accept_loops:
            self.errors.append("anchor-missing: accept loop (caller of TcpListener::incoming)")
        # worker loops: closures passed to thread::Builder::spawn / thread::spawn
        self.worker_closures = set()
        self.spawn_sites = []
        for fn in F.rws_fns():
            for bid, t in fn.calls():
                c = callee_name(t)
                if c in ("std::thread::Builder::spawn", "std::thread::spawn", "std::thread::Builder::spawn_unchecked", "std::thread::scope"):
                    self.spawn_sites.append((fn.def_, bid))
                    for x in t.get("fn_items", []):
                        if x in F.fns:
                            self.worker_closures.add(x)
        self.worker_closures = sorted(self.worker_closures)
        if not self.worker_closures:
            self.errors.append("anchor-missing: worker closure (argument of thread::Builder::spawn)")
        # submit function: the pool method that boxes its generic parameter and sends it
        self.submit_fns = sorted(G.boxing_generic)
        # connection closures: closures handed to the submit function from the accept loop
        self.connection_closures = set()
        for al in self.accept_loops:
            # the submit call may sit in a closure of the accept function (`incoming().for_each(|c| pool.execute(move || ..))`) or in a
            # private helper it calls (`submit(&pool, connection)`)
            family = [al] + [n for n in F.fns if n.startswith(al + "::{closure")]
            for e in G.out.get(al, []):
                g_ = F.fns.get(e.dst)
                if g_ is not None and g_.crate == "rws" and e.kind == "call" and (g_.vis or "").startswith("Restricted") and e.dst not in family:
                    family.append(e.dst)
                    family += [n for n in F.fns if n.startswith(e.dst + "::{closure")]
            for fname in family:
                fn = F.fns[fname]
                for bid, t in fn.calls():
                    if callee_name(t) in G.boxing_generic or t.get("callee") in G.boxing_generic:
                        for x in t.get("fn_items", []):
                            if x in F.fns and F.fns[x].kind == "Closure":
                                self.connection_closures.add(x)
        self.connection_closures = sorted(self.connection_closures)
        if not self.connection_closures:
            self.errors.append("anchor-missing: per-connection closure (closure submitted to the pool by the accept loop)")
        # per-connection entry points: functions generic over the transport (call Read::read and Write::write unresolved)
        # a parameter whose type is a generic transport (`impl Read + Write ...`), read from and written to - directly or through helpers
        self.connection_fns = []
        self.transport_helpers = set()
        def touches(fn, what):
            return any(is_transport_io(t, what) for _, t in fn.calls())
        for fn in F.rws_fns():
            if fn.kind == "Promoted":
                continue
            if touches(fn, "std::io::Read::read") or touches(fn, "std::io::Write::write"):
                self.transport_helpers.add(fn.def_)
        for fn in F.rws_fns():
            if fn.kind == "Promoted" or fn.nargs < 1:
                continue
            tys = [fn.local_ty(i) for i in range(1, fn.nargs + 1)]
            generic_rw = any(ty.startswith("impl ") and "Read" in ty and "Write" in ty for ty in tys)
            if not generic_rw:
                continue
            sub = G.reachable([fn.def_], kinds=("call", "trait-cha"))
            # ... and through the closures those functions build (`outcome.and_then(|_| deliver(stream, ..))`)
            grew = True
            while grew:
                grew = False
                for x in list(sub):
                    for e in G.out.get(x, []):
                        if e.kind == "mentions" and e.dst in F.fns and F.fns[e.dst].kind == "Closure" and e.dst not in sub:
                            more = G.reachable([e.dst], kinds=("call", "trait-cha"))
                            sub = set(sub) | set(more) | {e.dst}
                            grew = True
            reads = any(x in self.transport_helpers and touches(F.fns[x], "std::io::Read::read") for x in sub if x in F.fns)
            writes = any(x in self.transport_helpers and touches(F.fns[x], "std::io::Write::write") for x in sub if x in F.fns)
            if reads and writes:
                self.connection_fns.append(fn.def_)
        self.connection_fns.sort()
        if len(self.connection_fns) < 2:
            self.errors.append("anchor-missing: expected the production and the legacy per-connection entry points (generic over Read+Write), found %r" % self.connection_fns)
        # dispatchers: impls of the Application trait + functions that call >= 5 `is_matching*` of distinct controllers
        self.application_impls = sorted(m["def"] for i in F.impls if i["trait"] == "application::Application" for m in i["methods"])

    def connection_roots(self):
        return sorted(set(self.connection_closures) | set(self.connection_fns))
