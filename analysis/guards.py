"""A3: guard recognition. Facts established by SwitchInt edges (variant of an Option/Result place, lower bound on a length,
ordering of two operands) and the check that such an edge dominates a use with no intervening write to the place."""
from .cfg import cfg_of
from .dataflow import du_of, place_key, val_ref_target, places_overlap, is_view_call, SAME_VARIANT

IS_PRED = {
    "std::result::Result::<T, E>::is_ok": ("Ok", True),
    "std::result::Result::<T, E>::is_err": ("Ok", False),
    "std::option::Option::<T>::is_some": ("Some", True),
    "std::option::Option::<T>::is_none": ("Some", False),
}
LEN_CALLS = ("std::vec::Vec::<T, A>::len", "core::slice::<impl [T]>::len", "std::string::String::len", "core::str::<impl str>::len",
             "std::collections::VecDeque::<T, A>::len")
EMPTY_CALLS = ("std::vec::Vec::<T, A>::is_empty", "core::slice::<impl [T]>::is_empty", "std::string::String::is_empty", "core::str::<impl str>::is_empty")


class Fact:
    """('variant', place, 'Ok'|'Some', bool)  |  ('len>=', place, k)  |  ('le', a_val, b_val)  (a <= b)"""


def strip_casts(v):
    while v[0] == "cast" or (v[0] == "call" and v[1] and ("as std::clone::Clone>::clone" in v[1] or v[1].endswith("::clone")) and v[2] and v[2][0][0] in ("ref",)):
        if v[0] == "cast":
            v = v[2]
        else:
            break
    return v


def bool_facts(du, v, truth, out, depth=0):
    """decompose boolean value expression `v` being `truth` into atomic facts"""
    if depth > 8:
        return
    k = v[0]
    if k == "unop" and v[1] == "Not":
        bool_facts(du, v[2], not truth, out, depth + 1)
        return
    if k == "call":
        name = v[1]
        if name in IS_PRED and v[2]:
            what, pos = IS_PRED[name]
            tgt = val_ref_target(du, v[2][0])
            if tgt is not None:
                # is_some(slice.get(k)) == true  =>  len(slice) > k
                gv = du.val_place(du.canon(tgt))
                if gv[0] == "call" and gv[1] in ("core::slice::<impl [T]>::get", "core::slice::<impl [T]>::get_mut") and len(gv[2]) == 2:
                    k = const_int(strip_casts(gv[2][1]))
                    st = val_ref_target(du, gv[2][0])
                    if k is not None and st is not None and (pos == truth) and what == "Some":
                        out.append(("len>=", st, k + 1))
                root, inv = optres_root(du, tgt)
                t = (pos == truth)
                w = what
                if inv:
                    # the tested value is `root.err()`: Some <=> root is Err
                    w, t = "Ok", (not t if what == "Some" else t)
                out.append(("variant", root, norm_what(w), t))
            return
        if name in ("core::str::<impl str>::contains", "core::str::<impl str>::starts_with", "core::str::<impl str>::ends_with") and len(v[2]) == 2 and truth:
            tgt = val_ref_target(du, v[2][0])
            pat = v[2][1]
            if tgt is not None and pat[0] == "const" and pat[1] is not None:
                out.append(("contains", tgt, json_key(pat[1])))
            return
        if name in EMPTY_CALLS and v[2]:
            tgt = val_ref_target(du, v[2][0])
            if tgt is not None and not truth:
                out.append(("len>=", tgt, 1))
            return
        # PartialEq::eq / ne on integers are binops in MIR; on other types they are calls: ignore
        return
    if k == "binop":
        op, a, b = v[1], strip_casts(v[2]), strip_casts(v[3])
        if op in ("Eq", "Ne", "Lt", "Le", "Gt", "Ge"):
            # ordering facts relate the compared values themselves: only value-preserving casts may be looked through
            from .ints import strip_widening
            oa, ob = strip_widening(du.fn, v[2]), strip_widening(du.fn, v[3])
            la, lb = len_of(du, a), len_of(du, b)
            ca, cb = const_int(a), const_int(b)
            if la is not None and cb is not None:
                lo = len_lower_bound(op, truth, cb)
                if lo is not None:
                    out.append(("len>=", la, lo))
            elif lb is not None and ca is not None:
                lo = len_lower_bound(flip(op), truth, ca)
                if lo is not None:
                    out.append(("len>=", lb, lo))
            # ordering facts a <= b / a < b for checked subtraction
            rel = None
            if op == "Le":
                rel = ("le", oa, ob) if truth else ("lt", ob, oa)
            elif op == "Lt":
                rel = ("lt", oa, ob) if truth else ("le", ob, oa)
            elif op == "Ge":
                rel = ("le", ob, oa) if truth else ("lt", oa, ob)
            elif op == "Gt":
                rel = ("lt", ob, oa) if truth else ("le", oa, ob)
            elif op == "Eq" and truth:
                out.append(("le", oa, ob)); out.append(("le", ob, oa))
            elif op == "Ne" and not truth:
                out.append(("le", oa, ob)); out.append(("le", ob, oa))
            elif op in ("Eq", "Ne"):
                # x != 0 for an unsigned x: 0 < x
                for x, c in ((oa, ob), (ob, oa)):
                    if c[0] == "const" and c[1] == 0 and not isinstance(c[1], bool) and len(c) > 3 and isinstance(c[3], str) and c[3].startswith("u"):
                        rel = ("lt", c, x)
            if rel:
                out.append(rel)
        return


def json_key(v):
    import json
    return json.dumps(v, sort_keys=True)


def flip(op):
    return {"Lt": "Gt", "Le": "Ge", "Gt": "Lt", "Ge": "Le", "Eq": "Eq", "Ne": "Ne"}[op]


def len_lower_bound(op, truth, k):
    """len <op> k is `truth`  =>  len >= ?"""
    if op == "Eq":
        return k if truth else (1 if k == 0 else None)
    if op == "Ne":
        return k if not truth else (1 if k == 0 else None)
    if op == "Gt":
        return k + 1 if truth else None
    if op == "Ge":
        return k if truth else None
    if op == "Lt":
        return k if not truth else None
    if op == "Le":
        return k + 1 if not truth else None
    return None


def const_int(v):
    if v[0] == "const" and isinstance(v[1], int) and not isinstance(v[1], bool):
        return v[1]
    return None


def len_of(du, v):
    """if v is `len(P)` return canonical P"""
    if v[0] == "call" and v[1] in LEN_CALLS and v[2]:
        return val_ref_target(du, v[2][0])
    return None


def norm_what(w):
    """Ok-ness and Some-ness are tracked as one notion: 'the success variant'"""
    return "Succ"


def optres_root(du, pk, depth=0):
    """pk: canonical place holding an Option/Result. Follow variant-preserving producers (as_ref, clone, map, ok, err, moves)
    to the root place whose variant decides pk's. Returns (root place, inverted)."""
    pk = du.canon(pk)
    if depth > 12 or pk[1]:
        return pk, False
    d = du.unique_def(pk[0])
    if d is None or d[0] != "call":
        return pk, False
    t = d[3]
    from .callgraph import callee_name
    name = callee_name(t) or ""
    if not t["args"]:
        return pk, False
    a = t["args"][0]
    if a.get("k") not in ("copy", "move"):
        return pk, False
    ap = place_key(a)
    aty = du.fn.local_ty(ap[0]) if not ap[1] else ""
    inner = (ap[0], ap[1] + ("*",)) if aty.startswith("&") else ap
    if name in SAME_VARIANT or name == "std::result::Result::<T, E>::ok" or name.endswith("as std::ops::Try>::branch") \
            or name in ("std::option::Option::<T>::ok_or", "std::option::Option::<T>::ok_or_else"):
        # `x?` continues exactly when x is Ok / Some; ok_or(_else) maps Some -> Ok, None -> Err
        return optres_root(du, inner, depth + 1)
    if name == "std::result::Result::<T, E>::err":
        r, inv = optres_root(du, inner, depth + 1)
        return r, not inv
    return pk, False


class Guards:
    def __init__(self, fn):
        self.fn = fn
        self.cfg = cfg_of(fn)
        self.du = du_of(fn)
        self.edge_facts = None

    def _collect(self):
        """facts per switch edge: list of (edge, fact, pred_block)"""
        self.edge_facts = []
        du = self.du
        for bid in self.cfg.live_blocks():
            t = self.cfg.blocks[bid]["term"]
            if t["k"] != "switch":
                continue
            v = du.val_operand(t["discr"])
            targets = t["targets"]
            other = t["otherwise"]
            is_bool = t.get("discr_ty") == "bool"
            # value -> set of target blocks
            for val, tb in targets:
                if tb == other:
                    continue
                facts = []
                if is_bool:
                    bool_facts(du, v, bool(val), facts)
                else:
                    self._int_facts(v, val, True, facts)
                for f in facts:
                    self.edge_facts.append(((bid, tb), f))
            # otherwise edge
            if is_bool and len(targets) == 1 and targets[0][1] != other:
                facts = []
                bool_facts(du, v, not bool(targets[0][0]), facts)
                for f in facts:
                    self.edge_facts.append(((bid, other), f))
            elif not is_bool:
                # discriminant switch on Option/Result: `match x { Some(..) => .., None => .. }`
                if v[0] == "discr":
                    self._discr_facts(bid, v, targets, other)

    def _int_facts(self, v, val, eq, out):
        v = strip_casts(v)
        la = len_of(self.du, v)
        if la is not None and eq and isinstance(val, int):
            out.append(("len>=", la, val))

    def _discr_facts(self, bid, v, targets, other):
        ty = self._place_ty(v[1])
        if ty is None:
            return
        place, inv = optres_root(self.du, v[1])
        if ty.startswith("std::option::Option<"):
            names = {0: ("Succ", False), 1: ("Succ", True)}
        elif ty.startswith("std::result::Result<"):
            names = {0: ("Succ", True), 1: ("Succ", False)}
        elif ty.startswith("std::ops::ControlFlow<"):
            names = {0: ("Succ", True), 1: ("Succ", False)}       # Continue / Break of `x?`
        else:
            return
        if inv:
            names = {k: (w, not t) for k, (w, t) in names.items()}
        covered = set()
        for val, tb in targets:
            if val in names and tb != other:
                what, truth = names[val]
                self.edge_facts.append(((bid, tb), ("variant", place, what, truth)))
                covered.add(val)
        rest = [x for x in names if x not in covered]
        if len(rest) == 1 and all(tb != other for _, tb in targets):
            what, truth = names[rest[0]]
            self.edge_facts.append(((bid, other), ("variant", place, what, truth)))

    def _place_ty(self, place):
        l, proj = place
        if not proj:
            return self.fn.local_ty(l)
        # a field of a tuple local: `match (a.next(), b.next()) { (Some(x), Some(y)) => .. }`
        ty = self.fn.local_ty(l) or ""
        if len(proj) == 1 and isinstance(proj[0], tuple) and proj[0][0] == "f" and ty.startswith("(") and ty.endswith(")"):
            parts, depth, cur = [], 0, ""
            for ch in ty[1:-1]:
                if ch in "<([":
                    depth += 1
                elif ch in ">)]":
                    depth -= 1
                if ch == "," and depth == 0:
                    parts.append(cur.strip()); cur = ""
                else:
                    cur += ch
            if cur.strip():
                parts.append(cur.strip())
            if proj[0][1] < len(parts):
                return parts[proj[0][1]]
        return None

    def facts(self):
        if self.edge_facts is None:
            self._collect()
        return self.edge_facts

    # ---- queries ----
    def _killers(self, place):
        """blocks containing a write (assignment, call destination, &mut borrow) to a place overlapping `place`"""
        out = []
        du = self.du
        for bid, idx, pk, kind in du.writes:
            # a write to a bare local (or its field) is a write to that local; only writes through a reference are canonicalised
            c = du.canon(pk) if "*" in pk[1] else pk
            if places_overlap(c, place):
                out.append((bid, idx, kind))
        return out

    def holds_at(self, pred, block, place_for_kill=None, ignore_write=None):
        """pred(fact) -> bool selects the establishing facts. True iff the union of edges carrying such a fact dominates `block`
        and no write to `place_for_kill` can reach `block` without re-crossing one of them."""
        edges = [e for e, f in self.facts() if pred(f)]
        if not edges:
            return False, None
        edges = list(dict.fromkeys(edges))
        if not self.cfg.edges_dominate(edges, block):
            return self._holds_by_case_split(edges, block, place_for_kill, ignore_write)
        if place_for_kill is not None:
            reach_wo = None
            for kb, kidx, kind in self._killers(place_for_kill):
                if ignore_write is not None and (kb, kidx) == ignore_write:
                    continue      # the question is asked about the state just before this very assignment
                # the initial definition before the guards cannot reach the use without crossing a guard edge
                if kb == block:
                    # a write in the use block precedes the terminator use
                    return False, ("write to the guarded place in the same block as the use", kb)
                if block in self.cfg.reachable_from(kb, removed_edges=edges):
                    return False, ("write to the guarded place at bb%d reaches the use without re-checking" % kb, kb)
                if any(kb == e[0] for e in edges):
                    return False, ("write to the guarded place in the switch block", kb)
        return True, edges

    def _flag_switches(self):
        """{bool local with one definition: (definition block, [(switch block, true target, false target)])} for flags tested twice or more"""
        if getattr(self, "_flags", None) is not None:
            return self._flags
        out = {}
        du, cfg = self.du, self.cfg
        for sb in cfg.live_blocks():
            st = cfg.blocks[sb]["term"]
            if st["k"] != "switch" or st.get("discr_ty") != "bool" or st["discr"].get("k") not in ("copy", "move"):
                continue
            ck = du.canon(place_key(st["discr"]))
            if ck[1]:
                continue
            l = ck[0]
            d = du.unique_def(l)
            if d is None or self.fn.local_ty(l) != "bool":
                continue
            f_t = [tb for val, tb in st["targets"] if val == 0]
            if not f_t or f_t[0] == st["otherwise"]:
                continue
            out.setdefault(l, (d[1], []))[1].append((sb, st["otherwise"], f_t[0]))
        self._flags = {l: v for l, v in out.items() if len(v[1]) >= 2}
        return self._flags

    def _holds_by_case_split(self, edges, block, place_for_kill, ignore_write):
        """correlated branches: `if flag && x == 0 { return } if flag { x - 1 }`. A flag with ONE definition has one value on every path
        from its definition to `block` that does not pass the definition again; every entry->block path ends in such a stretch when the
        definition dominates `block`. So: for each value of the flag, remove the edges of the switches on it that contradict the value and
        the edges back into the defining block; if `block` cannot be reached from the definition without crossing an establishing edge in
        either case (and no killing write reaches it there), the fact holds."""
        cfg = self.cfg
        for l, (db, sws) in self._flag_switches().items():
            if not cfg.node_dominates(db, block) or db == block:
                continue
            into_def = [(p_, db) for p_ in cfg.pred.get(db, [])]
            ok = True
            for val in (True, False):
                contradicting = [(sb, (ff if val else tt)) for sb, tt, ff in sws]
                removed = list(edges) + contradicting + into_def
                if block in cfg.reachable_from(db, removed_edges=removed):
                    ok = False
                    break
                if place_for_kill is not None:
                    for kb, kidx, kind in self._killers(place_for_kill):
                        if ignore_write is not None and (kb, kidx) == ignore_write:
                            continue
                        if kb == block or any(kb == e[0] for e in edges):
                            ok = False
                            break
                        if kb in cfg.reachable_from(db, removed_edges=contradicting + into_def) and block in cfg.reachable_from(kb, removed_edges=removed):
                            ok = False
                            break
                    if not ok:
                        break
            if ok:
                return True, edges
        return False, None

    def variant_guarded(self, place, truth, block):
        """`place` (Option/Result) is known to be the success variant (Some/Ok) == truth at the terminator of `block`"""
        def pred(f):
            return f[0] == "variant" and f[1] == place and f[3] == truth
        return self.holds_at(pred, block, place)

    def len_guarded(self, place, need, block):
        def pred(f):
            return f[0] == "len>=" and f[1] == place and f[2] >= need
        return self.holds_at(pred, block, place)

    def contains_guarded(self, place, pattern_key, block):
        def pred(f):
            return f[0] == "contains" and f[1] == place and f[2] == pattern_key
        return self.holds_at(pred, block, place)

    def order_guarded(self, a, b, block, strict=False):
        """a <= b (or a < b) known at `block`. a, b are value expressions compared structurally; a constant `a` is also
        satisfied by a fact `k <= b` / `k < b` with a larger constant k."""
        ka = const_int(a)

        def pred(f):
            if f[0] not in ("lt", "le"):
                return False
            if f[2] != b:
                return False
            if f[1] == a:
                return f[0] == "lt" or not strict
            kf = const_int(f[1])
            if ka is not None and kf is not None:
                # fact: kf < b (lt) or kf <= b (le);  need: ka <= b (or ka < b)
                lo = kf + 1 if f[0] == "lt" else kf      # b >= lo
                return ka < lo if strict else ka <= lo
            return False
        ok, edges = self.holds_at(pred, block, None)
        if not ok:
            return False, None
        # the compared values must be the same computations at the use: re-executing a producing call or writing a read place kills
        for v in (a, b):
            for kind, x in value_kills(v):
                if kind == "place":
                    ok2, why = self.holds_at(pred, block, x)
                    if not ok2:
                        return False, why
                else:
                    # the producing call can run again and reach the use without re-crossing the guard
                    if block in self.cfg.reachable_from(x, removed_edges=edges):
                        return False, ("the compared value is recomputed at bb%d and reaches the use unchecked" % x, x)
        return True, edges


def value_kills(v, out=None, depth=0):
    """what can change the value expression v: writes to place leaves, re-execution of producing calls (by block id)"""
    if out is None:
        out = []
    if depth > 20:
        return out
    if v[0] in ("place", "ref"):
        out.append(("place", v[1]))
    elif v[0] == "binop":
        value_kills(v[2], out, depth + 1); value_kills(v[3], out, depth + 1)
    elif v[0] in ("unop", "cast"):
        value_kills(v[2], out, depth + 1)
    elif v[0] == "call":
        out.append(("block", v[3]))
    return out


def _place_leaves(v, out=None, depth=0):
    if out is None:
        out = []
    if depth > 20:
        return out
    if v[0] == "place":
        out.append(v[1])
    elif v[0] == "ref":
        out.append(v[1])
    elif v[0] == "binop":
        _place_leaves(v[2], out, depth + 1); _place_leaves(v[3], out, depth + 1)
    elif v[0] in ("unop", "cast"):
        _place_leaves(v[2], out, depth + 1)
    elif v[0] == "call":
        for x in v[2]:
            _place_leaves(x, out, depth + 1)
    return out


_g_cache = {}


def guards_of(fn):
    g = _g_cache.get(id(fn))
    if g is None:
        g = Guards(fn)
        _g_cache[id(fn)] = g
    return g
