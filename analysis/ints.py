"""Integer types of value expressions and value-preserving (widening) casts."""
UNSIGNED = {"u8": 8, "u16": 16, "u32": 32, "u64": 64, "usize": 64, "u128": 128}
SIGNED = {"i8": 8, "i16": 16, "i32": 32, "i64": 64, "isize": 64, "i128": 128}


def ty_range(ty):
    if ty in UNSIGNED:
        return 0, (1 << UNSIGNED[ty]) - 1
    if ty in SIGNED:
        return -(1 << (SIGNED[ty] - 1)), (1 << (SIGNED[ty] - 1)) - 1
    if ty == "char":
        return 0, 0x10FFFF
    if ty == "bool":
        return 0, 1
    return None


def val_ty(fn, v, depth=0):
    """integer type of a value expression when it is evident (constant, typed local, cast, length)"""
    if depth > 12:
        return None
    if v[0] == "const":
        return v[3] if len(v) > 3 else None
    if v[0] == "cast":
        return v[1]
    if v[0] == "place" and not v[1][1]:
        return fn.local_ty(v[1][0])
    if v[0] == "call" and v[1]:
        n = v[1]
        if n.endswith("::len") or n.endswith("::count") or n.endswith("::capacity"):
            return "usize"
        return None
    if v[0] == "unop" and v[1] == "PtrMetadata":
        return "usize"
    if v[0] == "binop":
        if v[1] in ("Eq", "Ne", "Lt", "Le", "Gt", "Ge"):
            return "bool"
        return val_ty(fn, v[2], depth + 1) or val_ty(fn, v[3], depth + 1)
    if v[0] == "unop":
        return val_ty(fn, v[2], depth + 1)
    return None


def strip_widening(fn, v):
    """remove casts that cannot change the value (source range inside target range); a narrowing or sign-changing cast stays"""
    while v[0] == "cast":
        src = ty_range(val_ty(fn, v[2]) or "")
        dst = ty_range(v[1] or "")
        if src is None or dst is None or not (dst[0] <= src[0] and src[1] <= dst[1]):
            break
        v = v[2]
    return v
