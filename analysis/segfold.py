"""A12b: the containment predicate written as a fold.

    path.split(SEP) [.map(STEP)] .try_fold(0, |depth, item| -> Option<depth'>) ... .is_none()

The same obligations as in segments.py, read off the closure instead of a loop body: for every segment class the closure's answer is
`None` (the fold stops, the predicate answers "outside") or `Some(depth + d)` with d <= the real change of depth, and a '..' met at
depth 0 must give `None`. STEP (a private function handed to `map` by name) and the closure are evaluated once per class: every test
of the segment text is decided by the class, every test of the step's variant by the variant STEP returned, a test of the depth against
zero forks into its two assumptions. Nothing is executed."""
import re
from .cfg import cfg_of
from .dataflow import du_of
from .callgraph import callee_name
from .guards import strip_casts, const_int

CLASSES = ("..", ".", "", "<name>")
BOUND = {"..": -1, ".": 0, "": 0, "<name>": 1}


def _const_text(v):
    return v[1] if v[0] == "const" and isinstance(v[1], str) else None


class _Walk:
    """paths through one function for one segment class: the argument local `seg` holds the segment text (or None), `step` holds a
    value of known enum variant `variant` (or None), `depth` is the accumulator local (or None)"""

    def __init__(self, fn, seg, cls, step=None, variant=None, depth=None):
        self.fn, self.cfg, self.du = fn, cfg_of(fn), du_of(fn)
        self.seg, self.cls, self.step, self.variant, self.depth = seg, cls, step, variant, depth

    def _is(self, v, local, depth=0):
        """v is (a view of) the given argument local"""
        if local is None or depth > 10:
            return False
        v = strip_casts(v)
        while v[0] == "call" and v[1] and v[1].endswith(("::deref", "::as_str", "::as_ref", "::borrow", "::clone")) and v[2]:
            v = v[2][0]
        if v[0] in ("ref", "place"):
            if v[1][0] == local and not [e for e in v[1][1] if e != "*"]:
                return True
            if not [e for e in v[1][1] if e != "*"]:
                w = self.du.val_place((v[1][0], ()))
                return w != v and w[0] != "place" and self._is(w, local, depth + 1)
        return False

    def cond(self, v):
        """True / False when the class (or the variant) decides the test, ('zero', truth_when_zero) for a test of the depth, None"""
        v = strip_casts(v)
        neg = False
        while v[0] == "unop" and v[1] == "Not":
            v, neg = strip_casts(v[2]), not neg
        r = None
        if v[0] == "call" and v[1] and ("PartialEq" in v[1] or v[1].endswith(("impl str>::eq", "impl str>::ne"))) and len(v[2]) == 2:
            a, b = v[2]
            ta, tb = _const_text(strip_casts(a)), _const_text(strip_casts(b))
            other, text = (a, tb) if tb is not None else ((b, ta) if ta is not None else (None, None))
            if text is not None and self._is(other, self.seg):
                r = (self.cls == text)
                if v[1].endswith("::ne"):
                    r = not r
        elif v[0] == "call" and v[1] and v[1].endswith("::is_empty") and v[2] and self._is(v[2][0], self.seg):
            r = (self.cls == "")
        elif v[0] == "binop" and v[1] in ("Eq", "Ne", "Gt", "Ge", "Lt", "Le"):
            a, b = strip_casts(v[2]), strip_casts(v[3])
            if self.depth is not None:
                for x, y, op in ((a, b, v[1]), (b, a, {"Gt": "Lt", "Lt": "Gt", "Ge": "Le", "Le": "Ge"}.get(v[1], v[1]))):
                    k = const_int(y)
                    if self._is(x, self.depth) and k is not None:
                        # depth OP k as a statement about depth == 0
                        zero = {"Eq": 0 == k, "Ne": 0 != k, "Gt": 0 > k, "Ge": 0 >= k, "Lt": 0 < k, "Le": 0 <= k}[op]
                        pos = {"Eq": None if k >= 1 else False, "Ne": None if k >= 1 else True, "Gt": True if k <= 0 else None, "Ge": True if k <= 1 else None,
                               "Lt": False if k <= 1 else None, "Le": False if k <= 0 else None}[op]
                        if pos is None:
                            return None
                        r = ("zero", zero != neg, pos != neg)
                        return r
        if r is None:
            return None
        return r != neg

    def run(self):
        """[(kind, payload, assume, line)]: kind 'variant' (STEP's answer), 'none', 'some' (payload = delta), 'unknown'"""
        cfg, du = self.cfg, self.du
        outs, seen = [], set()
        stack = [(cfg.entry, None)]
        steps = 0
        while stack:
            b, assume = stack.pop()
            if (b, assume) in seen:
                continue
            seen.add((b, assume))
            steps += 1
            if steps > 3000:
                outs.append(("unknown", "walk too large", None, self.fn.span["line"]))
                break
            blk = cfg.blocks[b]
            t = blk["term"]
            line = t["span"]["line"]
            if t["k"] == "return":
                outs.append(self._result(assume, line))
                continue
            if t["k"] == "switch":
                dv = du.val_operand(t["discr"])
                if dv[0] == "discr" and self.step is not None and self._is(("place", dv[1]), self.step) and self.variant is not None:
                    idx = self._variant_index(dv[1])
                    nxt = None
                    for val, tb in t["targets"]:
                        if val == idx:
                            nxt = tb
                    stack.append((nxt if nxt is not None else t["otherwise"], assume))
                    continue
                c = self.cond(dv) if t.get("discr_ty") == "bool" else None
                true_t = false_t = None
                for val, tb in t["targets"]:
                    if val == 0:
                        false_t, true_t = tb, t["otherwise"]
                if c is True and true_t is not None:
                    stack.append((true_t, assume))
                elif c is False and false_t is not None:
                    stack.append((false_t, assume))
                elif isinstance(c, tuple) and true_t is not None:
                    _, when_zero, when_pos = c
                    for a_, truth in (("zero", when_zero), ("pos", when_pos)):
                        if assume in (None, a_):
                            stack.append((true_t if truth else false_t, a_))
                else:
                    if t.get("discr_ty") == "bool" and self._mentions(dv):
                        outs.append(("unknown", "a test of the segment / depth that the class does not decide", assume, line))
                        continue
                    for s2 in cfg.succ.get(b, []):
                        if not cfg.blocks[s2].get("cleanup"):
                            stack.append((s2, assume))
                continue
            for s2 in cfg.succ.get(b, []):
                if not cfg.blocks[s2].get("cleanup"):
                    stack.append((s2, assume))
        return outs

    def _mentions(self, v, depth=0):
        if depth > 8 or not isinstance(v, tuple):
            return False
        if self._is(v, self.seg) or self._is(v, self.depth):
            return True
        return any(self._mentions(x, depth + 1) for x in v[1:] if isinstance(x, tuple)) or \
            any(self._mentions(y, depth + 1) for x in v[1:] if isinstance(x, tuple) for y in x if isinstance(y, tuple))

    def _variant_index(self, place):
        from . import facts as _facts
        ty = (self.fn.local_ty(place[0]) or "").lstrip("&").strip()
        a = _facts.CURRENT.adts.get(ty) if _facts.CURRENT is not None else None
        if a is not None:
            names = [v["name"] for v in a["variants"]]
            if self.variant in names:
                return names.index(self.variant)
        return None

    def _result(self, assume, line):
        """what the return place holds on this path: the definitions of _0 are looked at flow-insensitively, so a function with several
        different results per class is 'unknown' unless the path decides (handled by the caller through per-return evaluation)"""
        return ("ret", None, assume, line)


def _returns(fn, walk_outs, cfg, du):
    """not used"""
    return []


def _eval_paths(fn, seg, cls, step=None, variant=None, depth=None):
    """outcomes per path: the return value is read where it is assigned (the last assignment of _0 on the path)"""
    w = _Walk(fn, seg, cls, step, variant, depth)
    cfg, du = w.cfg, w.du
    outs, seen = [], set()
    stack = [(cfg.entry, None, None)]
    steps = 0
    while stack:
        b, assume, ret = stack.pop()
        if (b, assume, ret) in seen:
            continue
        seen.add((b, assume, ret))
        steps += 1
        if steps > 3000:
            return [("unknown", "walk too large", None, fn.span["line"])]
        blk = cfg.blocks[b]
        for s in blk["stmts"]:
            if s["k"] == "assign" and s["place"]["l"] == 0 and not s["place"]["p"]:
                rv = s["rv"]
                if rv["k"] == "aggregate" and rv.get("variant") is not None:
                    if rv["variant"] in ("Some", "Ok") and rv["ops"]:
                        ret = ("some", repr(du.val_operand(rv["ops"][0])), s["span"]["line"])
                        ret = ("some-v", du.val_operand(rv["ops"][0]), s["span"]["line"])
                    elif rv["variant"] in ("None",):
                        ret = ("none", None, s["span"]["line"])
                    else:
                        ret = ("variant", rv["variant"], s["span"]["line"])
                elif rv["k"] == "use":
                    ret = ("value", du.val_operand(rv["ops"][0]), s["span"]["line"])
                else:
                    ret = ("value", ("?",), s["span"]["line"])
        t = blk["term"]
        line = t["span"]["line"]
        if t["k"] == "call" and t.get("dest") is not None and t["dest"]["l"] == 0 and not t["dest"]["p"]:
            ret = ("call", du.val_call(t, 0, b), line)
        if t["k"] == "return":
            outs.append((ret, assume, line))
            continue
        if t["k"] == "switch":
            dv = du.val_operand(t["discr"])
            if dv[0] == "discr" and step is not None and variant is not None and w._is(("place", dv[1]), step):
                idx = w._variant_index(dv[1])
                nxt = None
                for val, tb in t["targets"]:
                    if val == idx:
                        nxt = tb
                stack.append((nxt if nxt is not None else t["otherwise"], assume, ret))
                continue
            c = w.cond(dv) if t.get("discr_ty") == "bool" else None
            true_t = false_t = None
            for val, tb in t["targets"]:
                if val == 0:
                    false_t, true_t = tb, t["otherwise"]
            if c is True and true_t is not None:
                stack.append((true_t, assume, ret))
            elif c is False and false_t is not None:
                stack.append((false_t, assume, ret))
            elif isinstance(c, tuple) and true_t is not None:
                _, when_zero, when_pos = c
                for a_, truth in (("zero", when_zero), ("pos", when_pos)):
                    if assume in (None, a_):
                        stack.append((true_t if truth else false_t, a_, ret))
            else:
                if t.get("discr_ty") == "bool" and w._mentions(dv):
                    outs.append((("unknown", "a test of the segment / depth that the class does not decide", line), assume, line))
                    continue
                for s2 in cfg.succ.get(b, []):
                    if not cfg.blocks[s2].get("cleanup"):
                        stack.append((s2, assume, ret))
            continue
        for s2 in cfg.succ.get(b, []):
            if not cfg.blocks[s2].get("cleanup"):
                stack.append((s2, assume, ret))
    return outs, w


def _delta(w, v):
    """v = depth + d / depth - d / depth -> d; None otherwise"""
    v = strip_casts(v)
    if w._is(v, w.depth):
        return 0
    if v[0] == "binop":
        op = v[1].replace("WithOverflow", "").replace("Unchecked", "")
        a, b = strip_casts(v[2]), strip_casts(v[3])
        k = const_int(b)
        if k is not None and w._is(a, w.depth):
            return k if op == "Add" else (-k if op == "Sub" else None)
        k = const_int(a)
        if k is not None and op == "Add" and w._is(b, w.depth):
            return k
    if v[0] == "place" and v[1][1]:
        # (depth + 1).0 of a checked addition
        p = [e for e in v[1][1] if e != "*"]
        if len(p) == 1 and p[0][0] == "f" and p[0][1] == 0:
            w2 = w.du.val_place((v[1][0], ()))
            if w2 != v:
                return _delta(w, w2)
    return None


def verdicts(F, fn):
    """([(class, ok, why, line)], note) for a predicate of the fold form; (None, why) when the function is not of that form"""
    from .inline import inlined
    fi = inlined(F, fn)
    cfg, du = cfg_of(fi), du_of(fi)
    fold = None
    for bid, t in fi.calls():
        if (callee_name(t) or "").endswith("::try_fold") or (t.get("callee") or "").endswith("Iterator::try_fold"):
            fold = (bid, t)
    if fold is None:
        return None, "no try_fold over the split path"
    bid, t = fold
    if len(t["args"]) != 3:
        return None, "try_fold with an unexpected signature"
    recv, init = du.val_operand(t["args"][0]), du.val_operand(t["args"][1])
    closures = [x for x in t.get("fn_items", []) if x in F.fns and F.fns[x].kind == "Closure"]
    if len(closures) != 1:
        return None, "the fold's closure was not found"
    cl = inlined(F, F.fns[closures[0]])
    res = []
    ok = const_int(strip_casts(init)) == 0
    res.append(("init", ok, "the depth starts at %s" % (const_int(strip_casts(init)) if const_int(strip_casts(init)) is not None else "a computed value"), t["span"]["line"]))
    # receiver: split(param) optionally behind map(STEP)
    step_fn = None
    v = recv
    for _ in range(6):
        if v[0] in ("ref", "place"):
            w_ = du.val_place((v[1][0], ()))
            if w_ == v or w_[0] == "place":
                break
            v = w_
            continue
        if v[0] == "call" and (v[1] or "").endswith("::map") and v[2]:
            mt = next((b_["term"] for b_ in fi.blocks if b_["id"] == v[3]), None)
            items = [x for x in (mt or {}).get("fn_items", []) if x in F.fns and F.fns[x].crate == "rws" and F.fns[x].kind in ("Fn", "AssocFn")]
            if len(items) != 1:
                return None, "the mapped step is not a named function of the crate"
            step_fn = inlined(F, F.fns[items[0]])
            v = v[2][0]
            continue
        break
    if not (v[0] == "call" and re.search(r"impl str>::split$", v[1] or "") and v[2]):
        return None, "the folded iterator is not `split(..)` of the path (optionally mapped through a named step function)"
    src = v[2][0]
    ok = False
    for _ in range(8):
        if src[0] in ("ref", "place") and src[1][0] == 1:
            ok = True
            break
        if src[0] in ("ref", "place"):
            w_ = du.val_place((src[1][0], ()))
            if w_ == src or w_[0] == "place":
                break
            src = w_
        elif src[0] == "call" and src[2]:
            src = src[2][0]
        else:
            break
    res.append(("arg", ok, "the split text derives from the argument" if ok else "the split text does not derive from the argument", t["span"]["line"]))
    # the predicate answers `result.is_none()`
    rv = du.val_place((0, ()))
    is_none = rv[0] == "call" and (rv[1] or "").endswith("::is_none") and rv[2]
    if not is_none:
        return None, "the predicate does not answer `fold.is_none()`"
    for cls in CLASSES:
        variants = [None]
        if step_fn is not None:
            so = _eval_paths(step_fn, 1, cls)
            if not isinstance(so, tuple):
                res.append((cls, False, "UNDECIDED: " + so[0][1], step_fn.span["line"]))
                continue
            outs, _w = so
            variants = []
            bad = False
            for ret, assume, line in outs:
                if ret is not None and ret[0] == "variant":
                    if ret[1] not in variants:
                        variants.append(ret[1])
                else:
                    bad = True
            if bad or not variants:
                res.append((cls, False, "UNDECIDED: the step function's answer for this class is not a constant variant", step_fn.span["line"]))
                continue
        for var in variants:
            if step_fn is not None:
                co = _eval_paths(cl, None, cls, step=3, variant=var, depth=2)
            else:
                co = _eval_paths(cl, 3, cls, depth=2)
            if not isinstance(co, tuple):
                res.append((cls, False, "UNDECIDED: " + co[0][1], cl.span["line"]))
                continue
            outs, w = co
            if not outs:
                res.append((cls, False, "no path through the fold's closure was found", cl.span["line"]))
            for ret, assume, line in outs:
                tag = (" [step %s]" % var) if var else ""
                if ret is None or ret[0] == "unknown":
                    res.append((cls, False, "UNDECIDED: " + (ret[1] if ret else "the closure's answer is not assigned on this path") + tag, line))
                    continue
                if ret[0] == "value":
                    v_ = ret[1]
                    if v_[0] == "call":
                        ret = ("call", v_, ret[2])
                    elif v_[0] == "aggregate" and v_[2] == "std::option::Option":
                        ret = ("some-v", v_[3][0], ret[2]) if v_[3] else ("none", None, ret[2])
                outcomes = []
                if ret[0] == "none":
                    outcomes.append(("none", None, assume))
                elif ret[0] == "some-v":
                    d = _delta(w, ret[1])
                    rvv = strip_casts(ret[1])
                    if d is None and rvv[0] == "call" and (rvv[1] or "").endswith("::saturating_sub") and len(rvv[2]) == 2 and w._is(rvv[2][0], 2) and const_int(strip_casts(rvv[2][1])) is not None:
                        k = const_int(strip_casts(rvv[2][1]))
                        if assume in (None, "pos") and k == 1:
                            outcomes.append(("some", -1, "pos"))
                        if assume in (None, "zero"):
                            outcomes.append(("some", 0, "zero"))
                        if k != 1:
                            outcomes = [("unknown", None, assume)]
                    elif d is None:
                        outcomes.append(("unknown", None, assume))
                    else:
                        outcomes.append(("some", d, assume))
                elif ret[0] == "call":
                    cv = ret[1]
                    if (cv[1] or "").endswith("::checked_sub") and len(cv[2]) == 2 and w._is(cv[2][0], 2) and const_int(strip_casts(cv[2][1])) == 1:
                        if assume in (None, "zero"):
                            outcomes.append(("none", None, "zero"))
                        if assume in (None, "pos"):
                            outcomes.append(("some", -1, "pos"))
                    elif (cv[1] or "").endswith("::checked_add") and len(cv[2]) == 2 and w._is(cv[2][0], 2) and const_int(strip_casts(cv[2][1])) is not None:
                        outcomes.append(("some", const_int(strip_casts(cv[2][1])), assume))
                    else:
                        outcomes.append(("unknown", None, assume))
                else:
                    outcomes.append(("unknown", None, assume))
                for kind, d, asm in outcomes:
                    if kind == "unknown":
                        res.append((cls, False, "UNDECIDED: the closure's answer is not None / Some(depth +/- constant)" + tag, line))
                    elif kind == "none":
                        res.append((cls, True, "the fold stops with None: the predicate answers 'outside'%s%s" % (" (depth == 0 on this path)" if asm == "zero" else "", tag), line))
                    else:
                        ok = d <= BOUND[cls] and (cls != ".." or asm == "pos")
                        why = "next segment with depth%+d%s%s" % (d, " (depth >= 1 established)" if asm == "pos" else (" (depth == 0 on this path)" if asm == "zero" else ""), tag)
                        if not ok:
                            why += ": allowed is at most depth%+d%s" % (BOUND[cls], ", and only where depth >= 1 has been established (at depth 0 the answer must be None)" if cls == ".." else "")
                        res.append((cls, ok, why, line))
    return res, "try_fold accumulator"
