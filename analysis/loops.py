"""A5 (loops): classify natural loops of reachable functions into accepted terminating forms.

Accepted forms (every cycle of the loop must pass through the progress call, and the exhaustion signal must leave the loop):
  iter     - `Iterator::next` of a finite std iterator; the None arm leaves the loop
  readx    - `read_exact` on a cursor; the is_err()==true edge (or the Err arm) leaves the loop
  readn    - `read_until` / `read_line` / `read`; the returned count is compared with 0 and the ==0 edge leaves the loop
  counter  - the exit test compares a counter that every cycle strictly increases with a loop-invariant bound
Everything else is reported (triage: allowlist with a termination argument, or known finding with a hanging input)."""
from .cfg import cfg_of
from .callgraph import callee_name
from .dataflow import du_of, place_key, val_ref_target
from .guards import guards_of, optres_root, const_int, strip_casts

INFINITE_ITERS = ("std::iter::Repeat", "std::iter::Cycle", "std::iter::FromFn", "std::iter::Successors", "std::iter::RepeatWith", "std::ops::RangeFrom")
READN = ("std::io::BufRead::read_until", "std::io::BufRead::read_line", "std::io::Read::read", "<std::io::Cursor<T> as std::io::BufRead>::read_until",
         "<std::io::Cursor<T> as std::io::Read>::read")
READX = ("std::io::Read::read_exact", "<std::io::Cursor<T> as std::io::Read>::read_exact")


class Loop:
    def __init__(self, fn, header, body, back_edges):
        self.fn, self.header, self.body, self.back_edges = fn, header, body, back_edges
        self.form = None
        self.why = ""
        self.ordinal = 0

    def key(self):
        return "%s|loop|%d" % (self.fn.def_, self.ordinal)


def loops_of(fn):
    cfg = cfg_of(fn)
    by_header = {}
    for (n, h) in cfg.back_edges():
        by_header.setdefault(h, []).append((n, h))
    out = []
    for h, bes in by_header.items():
        body = set()
        for be in bes:
            body |= cfg.natural_loop(be)
        out.append(Loop(fn, h, body, bes))
    # ordinal by source line of the header
    out.sort(key=lambda l: (cfg.blocks[l.header]["term"]["span"]["line"], l.header))
    for i, l in enumerate(out):
        l.ordinal = i + 1
    return out


def _on_every_cycle(cfg, loop, block):
    """every cycle header -> ... -> header inside the loop passes through `block`"""
    if block == loop.header:
        return True
    # remove `block`; can header reach itself within the loop body?
    seen = set()
    stack = [s for s in cfg.succ[loop.header] if s in loop.body and s != block]
    while stack:
        n = stack.pop()
        if n == loop.header:
            return False
        if n in seen:
            continue
        seen.add(n)
        for s in cfg.succ[n]:
            if s in loop.body and s != block:
                stack.append(s)
    return True


def _edge_leaves(cfg, loop, edge):
    """the edge's target is outside the loop, or every path from it leaves the loop without reaching the header again"""
    src, dst = edge
    if dst not in loop.body:
        return True
    # inside the body but never returns to the header (e.g. leads to a `return`)
    seen = set()
    stack = [dst]
    while stack:
        n = stack.pop()
        if n == loop.header:
            return False
        if n in seen:
            continue
        seen.add(n)
        for s in cfg.succ[n]:
            stack.append(s)
    return True


def classify(fn, loop):
    cfg = cfg_of(fn)
    du = du_of(fn)
    g = guards_of(fn)
    facts = g.facts()
    for bid in sorted(loop.body):
        t = cfg.blocks[bid]["term"]
        if t["k"] != "call":
            continue
        name = callee_name(t) or ""
        decl = t.get("callee") or ""
        dest = place_key(t["dest"])
        # ---- iterator ----
        if decl == "std::iter::Iterator::next" or name.endswith("as std::iter::Iterator>::next"):
            ity = " ".join(t.get("gargs", []) + t.get("arg_tys", []))
            if any(x in ity for x in INFINITE_ITERS):
                continue
            if not _on_every_cycle(cfg, loop, bid):
                continue
            root, inv = optres_root(du, dest)
            for e, f in facts:
                if f[0] == "variant" and f[1] == root and f[3] is (True if inv else False) and e[0] in loop.body and _edge_leaves(cfg, loop, e):
                    loop.form, loop.why = "iter", "exits on the None arm of %s" % (name or decl)
                    return
        # ---- read_exact ----
        if decl in READX or name in READX:
            if not _on_every_cycle(cfg, loop, bid):
                continue
            root, inv = optres_root(du, dest)
            for e, f in facts:
                if f[0] == "variant" and f[1] == root and f[3] is (True if inv else False) and e[0] in loop.body and _edge_leaves(cfg, loop, e):
                    loop.form, loop.why = "readx", "exits when read_exact reports the end of the cursor"
                    return
        # ---- read_until / read ----
        if decl in READN or name in READN:
            if not _on_every_cycle(cfg, loop, bid):
                continue
            # a switch whose discriminant is Eq/Ne(count, 0) with count = unwrap of this call's result; the zero edge leaves
            for sb in loop.body:
                st = cfg.blocks[sb]["term"]
                if st["k"] != "switch":
                    continue
                v = strip_casts(du.val_operand(st["discr"]))
                if v[0] != "binop" or v[1] not in ("Eq", "Ne"):
                    continue
                a, b = strip_casts(v[2]), strip_casts(v[3])
                cnt = a if const_int(b) == 0 else (b if const_int(a) == 0 else None)
                if cnt is None:
                    continue
                if not _is_count_of(du, cnt, bid):
                    continue
                # which edge is "count == 0"?
                for val, tb in st["targets"]:
                    is_zero_edge = (bool(val) == (v[1] == "Eq"))
                    edge = (sb, tb) if is_zero_edge else (sb, st["otherwise"])
                    if _edge_leaves(cfg, loop, edge):
                        loop.form, loop.why = "readn", "exits when the read returns 0 bytes"
                        return
    # ---- counter ----
    hb = cfg.blocks
    for sb in sorted(loop.body):
        st = hb[sb]["term"]
        if st["k"] != "switch":
            continue
        v = strip_casts(du.val_operand(st["discr"]))
        if v[0] == "binop" and v[1] in ("Lt", "Le", "Gt", "Ge", "Ne"):
            for side in (v[2], v[3]):
                side = strip_casts(side)
                if side[0] == "place" and not side[1][1]:
                    from .panics import _is_counter
                    if _is_counter(du, side[1][0]) and _increments_every_cycle(cfg, du, loop, side[1][0]):
                        # some edge of this switch leaves the loop
                        for val, tb in st["targets"] + [[None, st["otherwise"]]]:
                            if _edge_leaves(cfg, loop, (sb, tb)):
                                loop.form, loop.why = "counter", "bounded counter advanced on every cycle"
                                return
    loop.form = None


def _is_count_of(du, v, call_block, depth=0):
    """v is the Ok value of the read call issued at call_block (through unwrap / moves)"""
    if depth > 6:
        return False
    if v[0] == "call":
        if v[3] == call_block:
            return True
        if v[1] and (v[1].endswith("::unwrap") or v[1].endswith("::expect") or v[1].endswith("::unwrap_or")) and v[2]:
            return _is_count_of(du, v[2][0], call_block, depth + 1)
    if v[0] == "place":
        vv = du.val_place(v[1])
        if vv != v:
            return _is_count_of(du, vv, call_block, depth + 1)
        # multi-def user variable: every definition is an integer constant or this read's count
        if v[1][1]:
            return False
        hit = False
        for d in du.defs.get(v[1][0], []):
            if d[0] == "call" and d[1] == call_block:
                hit = True
            elif d[0] == "call" and (callee_name(d[3]) or "").endswith("::unwrap"):
                a = d[3]["args"][0]
                if a.get("k") in ("copy", "move") and _is_count_of(du, du.val_operand(a), call_block, depth + 1):
                    hit = True
                else:
                    return False
            elif d[0] == "assign" and d[3]["k"] == "use":
                o = d[3]["ops"][0]
                if o.get("k") == "const" and isinstance(o.get("v"), int):
                    continue
                if o.get("k") in ("copy", "move") and _is_count_of(du, du.val_operand(o), call_block, depth + 1):
                    hit = True
                else:
                    return False
            else:
                return False
        return hit
    return False


def _increments_every_cycle(cfg, du, loop, l):
    blocks = set()
    for bid, idx, pk, kind in du.writes:
        if pk == (l, ()) and bid in loop.body and kind == "assign":
            rv = du.blocks[bid]["stmts"][idx]["rv"]
            if rv["k"] == "use" and rv["ops"][0].get("k") in ("copy", "move") and rv["ops"][0]["p"]:
                blocks.add(bid)
    return any(_on_every_cycle(cfg, loop, b) for b in blocks)


def loop_rule(ctx, chk, prop, rule_name, seen):
    F = ctx.F
    r = chk.rule(rule_name, "every natural loop exits on the None arm of a finite iterator, on a cursor read's EOF/error, or on a strictly advancing bounded counter")
    allow = {e["loop"]: e for e in ctx.table("safe_sites").get("loops", [])}
    for n in sorted(seen):
        fn = F.fns.get(n)
        if fn is None or fn.kind == "Promoted":
            continue
        for lp in loops_of(fn):
            classify(fn, lp)
            cfg = cfg_of(fn)
            line = cfg.blocks[lp.header]["term"]["span"]["line"]
            if lp.form:
                r.instance({"loop": lp.key(), "form": lp.form, "at": "%s:%d" % (fn.file, line)}, ok=True)
                r.classify(lp.form)
            elif lp.key() in allow:
                r.instance({"loop": lp.key(), "form": "allowlisted", "why": allow[lp.key()]["reason"]}, ok=True)
                r.classify("allowlisted")
            else:
                r.instance({"loop": lp.key(), "form": "unclassified"}, ok=False)
                r.classify("unclassified")
                r.violate("%s|%s|%s" % (prop, rule_name.split("-")[0], lp.key()),
                          "loop in %s (header at line %d) matches no accepted terminating form: no exit is controlled by the exhaustion of an iterator / cursor read or by a bounded counter" % (fn.def_, line),
                          fn.file, line, fn.def_, {"loop": lp.key(), "blocks": sorted(lp.body)})
    return r
