"""A5 (loops): classify natural loops of reachable functions into accepted terminating forms.

Accepted forms (every cycle of the loop must pass through the progress call, and the exhaustion signal must leave the loop):
  iter     - `Iterator::next` of a finite std iterator; the None arm leaves the loop
  readx    - `read_exact` on a cursor; the is_err()==true edge (or the Err arm) leaves the loop
  readn    - `read_until` / `read_line` / `read`; the returned count is compared with 0 and the ==0 edge leaves the loop
  readb    - `read_until` / `read_line` into a buffer that is a fresh empty Vec/String on every cycle and is mutably borrowed only by
             that read; an exit tests the emptiness (len == 0 / is_empty) of a value derived from the buffer by content-preserving or
             shrinking conversions (from_utf8, trim, ...): at the end of input the read appends nothing, the value is empty, the edge leaves
  counter  - the exit test compares a counter that every cycle strictly increases with a loop-invariant bound
Everything else is reported (triage: allowlist with a termination argument, or known finding with a hanging input).
Assumption of readn/readb: the exit test is not by-passed at the end of input (a `continue` that skips it is taken only for a
non-empty read). Requiring the test on every cycle was tried and dropped: it reported
Range::parse_multipart_body_with_boundary, whose `continue` is taken only for a line that is not UTF-8, i.e. not empty."""
from .cfg import cfg_of
from .callgraph import callee_name
from .dataflow import du_of, place_key, val_ref_target
from .guards import guards_of, optres_root, const_int, strip_casts

INFINITE_ITERS = ("std::iter::Repeat", "std::iter::Cycle", "std::iter::FromFn", "std::iter::Successors", "std::iter::RepeatWith", "std::ops::RangeFrom")
READN = ("std::io::BufRead::read_until", "std::io::BufRead::read_line", "std::io::Read::read", "<std::io::Cursor<T> as std::io::BufRead>::read_until",
         "<std::io::Cursor<T> as std::io::Read>::read")
READX = ("std::io::Read::read_exact", "<std::io::Cursor<T> as std::io::Read>::read_exact")


class Loop:
    def __init__(self, fn, header, body, back_edges):
        self.fn, self.header, self.body, self.back_edges = fn, header, body, back_edges
        self.form = None
        self.why = ""
        self.ordinal = 0

    def key(self):
        return "%s|loop|%s" % (self.fn.def_, self.ordinal)


def loops_of(fn):
    cfg = cfg_of(fn)
    by_header = {}
    for (n, h) in cfg.back_edges():
        by_header.setdefault(h, []).append((n, h))
    out = []
    for h, bes in by_header.items():
        body = set()
        for be in bes:
            body |= cfg.natural_loop(be)
        out.append(Loop(fn, h, body, bes))
    # ordinal path by nesting and source line of the header: "2" = second top-level loop, "2.1" = first loop nested directly in it.
    # (wrapping code in a new loop changes the keys of the loops inside it, so a stale allowlist entry cannot match by accident)
    out.sort(key=lambda l: (cfg.blocks[l.header]["term"]["span"]["line"], l.header))
    for l in out:
        encl = [o for o in out if o is not l and l.header in o.body and l.body < o.body]
        l.parent = min(encl, key=lambda o: len(o.body)) if encl else None
    def number(parent, prefix):
        kids = [l for l in out if l.parent is parent]
        for i, l in enumerate(kids):
            l.ordinal = "%s%d" % (prefix, i + 1)
            number(l, l.ordinal + ".")
    number(None, "")
    return out


def _on_every_cycle(cfg, loop, block):
    """every cycle header -> ... -> header inside the loop passes through `block`"""
    if block == loop.header:
        return True
    # remove `block`; can header reach itself within the loop body?
    seen = set()
    stack = [s for s in cfg.succ[loop.header] if s in loop.body and s != block]
    while stack:
        n = stack.pop()
        if n == loop.header:
            return False
        if n in seen:
            continue
        seen.add(n)
        for s in cfg.succ[n]:
            if s in loop.body and s != block:
                stack.append(s)
    return True


VARIANT_INDEX = {"Ok": 0, "Err": 1, "None": 0, "Some": 1, "Continue": 0, "Break": 1}


def _edge_leaves(cfg, loop, edge):
    """the edge's target is outside the loop, or every FEASIBLE path from it leaves the loop without reaching the header again.
    Feasibility is tracked for enum variants only: after `x = Err(..)` (typically the inlined return of a helper) a later
    `match x` / `x?` / `x.is_err()` takes the matching arm - the continuation of an inlined call merges the helper's Ok and Err
    returns, and without this correlation the Err return would seem to run on into the Ok arm."""
    src, dst = edge
    if dst not in loop.body:
        return True
    reach = feasible_reach(cfg, edge, stop=(loop.header,))
    return reach is not None and loop.header not in reach


def feasible_reach(cfg, edge=None, avoid=(), stop=(), start_block=None, init=None):
    """blocks reachable from the target of `edge` (or from the successors of `start_block`), never entering `avoid`, not continuing
    past `stop`, on paths that are feasible w.r.t. the enum variants assigned along the way; None when the walk is too large
    (callers must then assume everything)"""
    blocks = cfg.blocks
    avoid, stop = set(avoid), set(stop)
    seen = set()
    out = set()
    if edge is not None:
        src, dst = edge
        start = _flow_block(blocks, src, {}, only_term=True)
        stack = [(dst, start)] if dst not in avoid else []
    else:
        st0 = _flow_block(blocks, start_block, {})
        if init:
            st0.update(init)      # what the caller assumes about the result of start_block's call (e.g. the write succeeded)
        stack = [(s2, st0) for s2 in _feasible_succ(cfg, blocks, start_block, st0) if s2 not in avoid]
    steps = 0
    while stack:
        n, st = stack.pop()
        out.add(n)
        if n in stop:
            continue
        key = (n, tuple(sorted((repr(k), repr(v)) for k, v in st.items())))
        if key in seen:
            continue
        seen.add(key)
        steps += 1
        if steps > 20000:
            return None
        st2 = _flow_block(blocks, n, st)
        for s2 in _feasible_succ(cfg, blocks, n, st2):
            if s2 not in avoid:
                stack.append((s2, st2))
    return out


def _flow_block(blocks, n, st, only_term=False):
    """variant knowledge after block n: {local: variant} | {('discr', local): enum local} | {('ref', local): referent local} | {('bool', local): bool}"""
    st = dict(st)
    b = blocks[n]
    if not only_term:
        for s in b["stmts"]:
            if s["k"] != "assign":
                continue
            pl = s["place"]
            l = pl["l"]
            if pl["p"]:
                # a field write into l: its variant stays, anything derived from it does not matter here
                continue
            st0 = st if not any(k == l or (isinstance(k, tuple) and k[1] == l) for k in st) else dict(st)
            for k in [k for k in st if k == l or (isinstance(k, tuple) and k[1] == l)]:
                del st[k]
            rv = s["rv"]
            if rv["k"] == "use" and rv["ops"][0].get("k") in ("copy", "move") and len(rv["ops"][0]["p"]) == 2:
                # `v = move (r as Continue).0` / `(r as Ok).0` / `(o as Some).0`: the payload whose variant was remembered
                o = rv["ops"][0]
                pp = o["p"]
                if isinstance(pp[0], dict) and pp[0].get("d") is not None and isinstance(pp[1], dict) and pp[1].get("f") == 0 \
                        and ("pl", o["l"]) in st0 and st0.get(o["l"]) in ("Ok", "Some", "Continue"):
                    st[l] = st0[("pl", o["l"])]
            if rv["k"] == "aggregate" and rv.get("variant") is not None:
                st[l] = rv["variant"]
                if rv.get("adt"):
                    st[("adt", l)] = rv["adt"]
                # `Ok(None)`: the variant of the single payload is remembered as well (one level)
                if len(rv["ops"]) == 1 and rv["ops"][0].get("k") in ("copy", "move") and not rv["ops"][0]["p"] \
                        and st0.get(rv["ops"][0]["l"]) in ("Ok", "Err", "Some", "None"):
                    st[("pl", l)] = st0[rv["ops"][0]["l"]]
            elif rv["k"] == "use" and rv["ops"][0].get("k") in ("copy", "move") and not rv["ops"][0]["p"]:
                m = rv["ops"][0]["l"]
                if m in st:
                    st[l] = st[m]
                    if ("adt", m) in st:
                        st[("adt", l)] = st[("adt", m)]
                    if ("pl", m) in st:
                        st[("pl", l)] = st[("pl", m)]
                if ("bool", m) in st:
                    st[("bool", l)] = st[("bool", m)]
            elif rv["k"] == "discr" and not rv["place"]["p"]:
                st[("discr", l)] = rv["place"]["l"]
            elif rv["k"] == "ref" and not rv["place"]["p"]:
                st[("ref", l)] = rv["place"]["l"]
            elif rv["k"] == "unop" and rv.get("op") == "Not" and rv["ops"][0].get("k") in ("copy", "move") and ("bool", rv["ops"][0]["l"]) in st:
                st[("bool", l)] = not st[("bool", rv["ops"][0]["l"])]
    t = b["term"]
    if t["k"] == "call" and t.get("dest") is not None and not t["dest"]["p"]:
        l = t["dest"]["l"]
        for k in [k for k in st if k == l or (isinstance(k, tuple) and k[1] == l)]:
            del st[k]
        cn = callee_name(t) or ""
        a0 = t["args"][0] if t["args"] else None
        if "FromResidual" in cn and cn.endswith("::from_residual"):
            # the failure arm of `x?`: the function's own result becomes Err(..) / None
            dty = t.get("dest_ty") or ""
            if dty.startswith("std::result::Result<"):
                st[l] = "Err"
            elif dty.startswith("std::option::Option<"):
                st[l] = "None"
        if a0 is not None and a0.get("k") in ("copy", "move") and not a0["p"]:
            m = a0["l"]
            if cn.endswith("as std::ops::Try>::branch") and st.get(m) in ("Ok", "Err", "Some", "None"):
                st[l] = "Continue" if st[m] in ("Ok", "Some") else "Break"
                if ("pl", m) in st and st[m] in ("Ok", "Some"):
                    st[("pl", l)] = st[("pl", m)]
            elif cn.endswith(("bool>::then_some", "bool>::then")) and ("bool", m) in st:
                # `b.then_some(v)` / `b.then(|| v)`: Some exactly when b
                st[l] = "Some" if st[("bool", m)] else "None"
                st[("adt", l)] = "std::option::Option"
            elif cn.startswith("std::option::Option::<T>::ok_or") and st.get(m) in ("Some", "None"):
                st[l] = "Ok" if st[m] == "Some" else "Err"
                st[("adt", l)] = "std::result::Result"
            elif cn in ("std::result::Result::<T, E>::map_err", "std::result::Result::<T, E>::map", "std::result::Result::<T, E>::or_else", "std::result::Result::<T, E>::and_then") and st.get(m) in ("Ok", "Err") and not (cn.endswith("::or_else") and st[m] == "Err") and not (cn.endswith("::and_then") and st[m] == "Ok"):
                st[l] = st[m]
                st[("adt", l)] = "std::result::Result"
            elif cn in ("std::result::Result::<T, E>::is_err", "std::result::Result::<T, E>::is_ok", "std::option::Option::<T>::is_some", "std::option::Option::<T>::is_none"):
                r = st.get(("ref", m), None)
                v = st.get(r) if r is not None else None
                if v is not None:
                    good = v in ("Ok", "Some")
                    st[("bool", l)] = good if cn.endswith(("is_ok", "is_some")) else (not good)
    return st


def _variant_index(adt, name):
    """discriminant value of a variant: Result / Option / ControlFlow by name, enums of the analysed crates by declaration order"""
    if adt in (None, "std::result::Result", "std::option::Option", "std::ops::ControlFlow") and name in VARIANT_INDEX:
        return VARIANT_INDEX[name]
    from . import facts as _facts
    F = _facts.CURRENT
    a = F.adts.get(adt) if F is not None and adt else None
    if a is not None and a.get("kind") == "Enum":
        names = [v["name"] for v in a["variants"]]
        if name in names and not any(v.get("discr") not in (None, i) for i, v in enumerate(a["variants"])):
            return names.index(name)
    return None


def _feasible_succ(cfg, blocks, n, st):
    t = blocks[n]["term"]
    if t["k"] == "switch" and t["discr"].get("k") in ("copy", "move") and not t["discr"]["p"]:
        x = t["discr"]["l"]
        val = None
        if ("discr", x) in st and st.get(st[("discr", x)]) is not None and not isinstance(st.get(st[("discr", x)]), bool):
            el = st[("discr", x)]
            val = _variant_index(st.get(("adt", el)), st[el])
        elif ("bool", x) in st:
            val = 1 if st[("bool", x)] else 0
        if val is not None:
            for v, tb in t["targets"]:
                if v == val:
                    return [tb]
            return [t["otherwise"]]
    return [s for s in cfg.succ.get(n, [])]


def classify(fn, loop):
    cfg = cfg_of(fn)
    du = du_of(fn)
    g = guards_of(fn)
    facts = g.facts()
    for bid in sorted(loop.body):
        t = cfg.blocks[bid]["term"]
        if t["k"] != "call":
            continue
        name = callee_name(t) or ""
        decl = t.get("callee") or ""
        dest = place_key(t["dest"])
        # ---- iterator ----
        if decl == "std::iter::Iterator::next" or name.endswith("as std::iter::Iterator>::next"):
            ity = " ".join(t.get("gargs", []) + t.get("arg_tys", []))
            if any(x in ity for x in INFINITE_ITERS):
                continue
            if not _on_every_cycle(cfg, loop, bid):
                continue
            root, inv = optres_root(du, dest)
            for e, f in facts:
                if f[0] == "variant" and f[1] == root and f[3] is (True if inv else False) and e[0] in loop.body and _edge_leaves(cfg, loop, e):
                    loop.form, loop.why = "iter", "exits on the None arm of %s" % (name or decl)
                    return
        # ---- read_exact ----
        if decl in READX or name in READX:
            if not _on_every_cycle(cfg, loop, bid):
                continue
            root, inv = optres_root(du, dest)
            for e, f in facts:
                if f[0] == "variant" and f[1] == root and f[3] is (True if inv else False) and e[0] in loop.body and _edge_leaves(cfg, loop, e):
                    loop.form, loop.why = "readx", "exits when read_exact reports the end of the cursor"
                    return
        # ---- read_until / read ----
        if decl in READN or name in READN:
            if not _on_every_cycle(cfg, loop, bid):
                continue
            # a switch whose discriminant is Eq/Ne(count, 0) with count = unwrap of this call's result; the zero edge leaves
            for sb in loop.body:
                st = cfg.blocks[sb]["term"]
                if st["k"] != "switch":
                    continue
                v = strip_casts(du.val_operand(st["discr"]))
                if v[0] != "binop" or v[1] not in ("Eq", "Ne"):
                    continue
                a, b = strip_casts(v[2]), strip_casts(v[3])
                cnt = a if const_int(b) == 0 else (b if const_int(a) == 0 else None)
                if cnt is None:
                    continue
                if not _is_count_of(du, cnt, bid):
                    continue
                # which edge is "count == 0"?
                for val, tb in st["targets"]:
                    is_zero_edge = (bool(val) == (v[1] == "Eq"))
                    edge = (sb, tb) if is_zero_edge else (sb, st["otherwise"])
                    if _edge_leaves(cfg, loop, edge):
                        loop.form, loop.why = "readn", "exits when the read returns 0 bytes"
                        return
        # ---- read into a fresh buffer, exit on an empty line ----
        if (decl in READN or name in READN) and not name.endswith("Read>::read") and decl != "std::io::Read::read" and len(t["args"]) >= 2:
            if _on_every_cycle(cfg, loop, bid) and _readb(cfg, du, loop, t, bid):
                loop.form, loop.why = "readb", "exits when the line read into a fresh buffer is empty (end of input)"
                return
    # ---- shrinking container: `while v.last() == Some(..) { v.pop(); }`, `while let Some(x) = v.pop()`, `while !v.is_empty() { v.pop() }` ----
    for bid in sorted(loop.body):
        t = cfg.blocks[bid]["term"]
        if t["k"] != "call":
            continue
        name = callee_name(t) or ""
        if not (name.endswith(("Vec::<T, A>::pop", "String::pop", "VecDeque::<T, A>::pop_front", "VecDeque::<T, A>::pop_back")) and t["args"]):
            continue
        if not _on_every_cycle(cfg, loop, bid):
            continue
        cv = du.val_operand(t["args"][0])
        if cv[0] != "ref" or cv[1][1]:
            continue
        C = cv[1][0]
        # (a) the None of the pop itself leaves the loop
        root, inv = optres_root(du, place_key(t["dest"]))
        for e, f in facts:
            if f[0] == "variant" and f[1] == root and f[3] is (True if inv else False) and e[0] in loop.body and _edge_leaves(cfg, loop, e):
                loop.form, loop.why = "shrink", "exits when pop() returns None; every cycle removes an element"
                return

        def mentions(v, depth=0):
            """the condition looks at the container's end / length: last, first, len, is_empty, ends_with"""
            if depth > 10 or not isinstance(v, tuple):
                return False
            if v and v[0] in ("ref", "place") and isinstance(v[1], tuple) and v[1] and isinstance(v[1][0], int) and v[1][0] != C:
                w = du.val_place((v[1][0], ()))
                return w != v and w[0] != "place" and mentions(w, depth + 1)
            if v and v[0] == "call" and v[1] and v[1].endswith(("::last", "::first", "::len", "::is_empty", "::ends_with", "::back", "::front")) and v[2]:
                a = v[2][0]
                while a[0] == "call" and a[1] and a[1].endswith(("::deref", "::as_slice", "::as_str", "::as_bytes")) and a[2]:
                    a = a[2][0]
                if a[0] == "ref" and a[1][0] == C:
                    return True
            return any(mentions(x, depth + 1) for x in v[1:] if isinstance(x, tuple)) or any(mentions(y, depth + 1) for x in v[1:] if isinstance(x, tuple) for y in x if isinstance(y, tuple))
        # (b) an exit test looks at the end / the length of the container (an empty container has no last element, length 0)
        for sb in loop.body:
            st = cfg.blocks[sb]["term"]
            if st["k"] != "switch":
                continue
            if mentions(du.val_operand(st["discr"])) and any(_edge_leaves(cfg, loop, (sb, tb)) for tb in set([x for _, x in st["targets"]] + [st["otherwise"]])):
                # no other call grows the container inside the loop
                grows = False
                for b2 in loop.body:
                    t2 = cfg.blocks[b2]["term"]
                    if t2["k"] == "call" and (callee_name(t2) or "").endswith(("::push", "::push_str", "::insert", "::extend", "::append", "::extend_from_slice", "::push_back", "::push_front")) and t2["args"]:
                        a2 = du.val_operand(t2["args"][0])
                        if a2[0] == "ref" and a2[1][0] == C:
                            grows = True
                if not grows:
                    loop.form, loop.why = "shrink", "every cycle pops an element of a container that the exit test looks at and nothing in the loop adds to"
                    return
    # ---- counter ----
    hb = cfg.blocks
    for sb in sorted(loop.body):
        st = hb[sb]["term"]
        if st["k"] != "switch":
            continue
        v = strip_casts(du.val_operand(st["discr"]))
        if v[0] == "binop" and v[1] in ("Lt", "Le", "Gt", "Ge", "Ne"):
            for side in (v[2], v[3]):
                side = strip_casts(side)
                if side[0] == "place" and not side[1][1]:
                    from .panics import _is_counter
                    if _is_counter(du, side[1][0]) and _increments_every_cycle(cfg, du, loop, side[1][0]):
                        # some edge of this switch leaves the loop
                        for val, tb in st["targets"] + [[None, st["otherwise"]]]:
                            if _edge_leaves(cfg, loop, (sb, tb)):
                                loop.form, loop.why = "counter", "bounded counter advanced on every cycle"
                                return
    # ---- indexed scan: `data.get(i)` on every cycle, its None arm leaves the loop, i never shrinks and grows on every cycle ----
    if _indexget(fn, cfg, du, g, loop, facts):
        loop.form, loop.why = "indexget", "exits when slice.get(i) is None; i only grows and grows on every cycle; the slice is not written in the loop"
        return
    # ---- counter, general form: every cycle assigns the counter a provably larger value; the bound is loop-invariant ----
    if _counter_general(fn, cfg, du, g, loop):
        loop.form, loop.why = "counter", "the counter is assigned a strictly larger value on every cycle and compared with a loop-invariant bound"
        return
    loop.form = None


def _on_every_cycle_set(cfg, loop, blocks):
    """every cycle header -> ... -> header inside the loop passes through at least one of `blocks`"""
    blocks = set(blocks)
    if loop.header in blocks:
        return True
    seen = set()
    stack = [s for s in cfg.succ[loop.header] if s in loop.body and s not in blocks]
    while stack:
        n = stack.pop()
        if n == loop.header:
            return False
        if n in seen:
            continue
        seen.add(n)
        for s in cfg.succ[n]:
            if s in loop.body and s not in blocks:
                stack.append(s)
    return True


def _indexget(fn, cfg, du, g, loop, facts):
    from .numeric import numeric_of
    num = numeric_of(fn, du, g)
    groups = {}
    for bid in sorted(loop.body):
        t = cfg.blocks[bid]["term"]
        if t["k"] != "call" or (callee_name(t) or "") not in ("core::slice::<impl [T]>::get", "core::str::<impl str>::get") or len(t["args"]) != 2:
            continue
        iv = strip_casts(du.val_operand(t["args"][1]))
        if iv[0] == "aggregate" and iv[2] and iv[2].startswith("std::ops::Range") and iv[3]:
            iv = strip_casts(iv[3][0])          # data.get(i..end): the start of the range is the position
        if iv[0] != "place" or iv[1][1]:
            continue
        data = val_ref_target(du, du.val_operand(t["args"][0]))
        if data is None:
            continue
        data = du.canon(data)
        if any(kb in loop.body for kb, kidx, kind in g._killers(data)):
            continue          # the scanned data must not change inside the loop
        root, inv = optres_root(du, place_key(t["dest"]))
        if not any(f[0] == "variant" and f[1] == root and f[3] is (True if inv else False) and e[0] in loop.body and _edge_leaves(cfg, loop, e) for e, f in facts):
            continue
        groups.setdefault((iv[1][0], data), []).append(bid)
    for (i, data), gets in groups.items():
        # every cycle looks at data[i..] at least once ...
        if not _on_every_cycle_set(cfg, loop, gets):
            continue
        # ... and i never shrinks and grows at least once per cycle
        grow, ok = [], True
        for wb, idx, pk, wk in du.writes:
            if pk[0] != i or wb not in loop.body:
                continue
            if pk[1] or wk != "assign":
                ok = False
                break
            e = du.val_rvalue(du.blocks[wb]["stmts"][idx]["rv"], 0, wb)
            num.ignore_write = (wb, idx)
            try:
                me = ("place", (i, ()))
                es = strip_casts(e)
                step = None
                if es[0] == "binop" and es[1].startswith("Add"):
                    a_, b_ = strip_casts(es[2]), strip_casts(es[3])
                    other = b_ if a_ == me else (a_ if b_ == me else None)
                    if other is not None:
                        step = num.lower_bound(other, wb)      # i + len(chunk): the step is a length, hence >= 0
                if num.prove_le(me, e, -1, wb) or (step is not None and step >= 1):
                    grow.append(wb)
                elif not (num.prove_le(me, e, 0, wb) or (step is not None and step >= 0)):
                    ok = False
            finally:
                num.ignore_write = None
            if not ok:
                break
        if ok and grow and _on_every_cycle_set(cfg, loop, grow):
            return True
    return False


def _counter_general(fn, cfg, du, g, loop):
    from .numeric import numeric_of
    from .guards import value_kills
    num = numeric_of(fn, du, g)
    for sb in sorted(loop.body):
        st = cfg.blocks[sb]["term"]
        if st["k"] != "switch":
            continue
        v = strip_casts(du.val_operand(st["discr"]))
        if v[0] != "binop" or v[1] not in ("Lt", "Le", "Gt", "Ge"):
            continue
        if not any(_edge_leaves(cfg, loop, (sb, tb)) for _, tb in st["targets"] + [[None, st["otherwise"]]]):
            continue
        for cnt, bound, cnt_is_left in ((strip_casts(v[2]), strip_casts(v[3]), True), (strip_casts(v[3]), strip_casts(v[2]), False)):
            if cnt[0] != "place" or cnt[1][1]:
                continue
            # the loop continues while counter < bound (counter on the smaller side: it must grow),
            # or while counter > bound (counter on the larger side: it must shrink)
            smaller_left = v[1] in ("Lt", "Le")
            grows = (smaller_left == cnt_is_left)
            i = cnt[1][0]
            # bound is loop-invariant
            inv = True
            for kind, x in value_kills(bound):
                if kind == "place":
                    for bid, idx, pk, wk in du.writes:
                        if bid in loop.body and pk[0] == x[0] and (pk == x or not pk[1] or not x[1] or pk[1][:len(x[1])] == x[1] or x[1][:len(pk[1])] == pk[1]):
                            inv = False
                else:
                    # a call re-evaluated in the loop (e.g. len()) is invariant when its argument places are
                    pass
            if not inv:
                continue
            # every write to the counter inside the loop is a strict increase
            wblocks = []
            ok = True
            for bid, idx, pk, wk in du.writes:
                if pk[0] != i or bid not in loop.body:
                    continue
                if pk[1] or wk != "assign":
                    ok = False
                    break
                rv = du.blocks[bid]["stmts"][idx]["rv"]
                e = du.val_rvalue(rv, 0, bid)
                num.ignore_write = (bid, idx)
                try:
                    inc = num.prove_le(("place", (i, ())), e, -1, bid) if grows else num.prove_le(e, ("place", (i, ())), -1, bid)
                finally:
                    num.ignore_write = None
                if not inc:
                    ok = False
                    break
                wblocks.append(bid)
            if ok and wblocks and _on_every_cycle_set(cfg, loop, wblocks):
                return True
    return False


SHRINKING = ("std::string::String::from_utf8", "::unwrap", "::expect", "as std::convert::From<", "std::ops::Deref>::deref", "::as_slice", "::as_str", "::as_bytes",
             "::trim", "::trim_start", "::trim_end", "std::string::ToString>::to_string", "::to_vec", "std::clone::Clone>::clone", "::to_owned", "as std::convert::AsRef<", "::to_lowercase", "::to_uppercase",
             "::into_bytes", "as std::convert::Into<", "::as_ref", "as std::borrow::Borrow<", "::as_mut_str")
EMPTY_NEW = ("std::vec::Vec::<T>::new", "std::string::String::new", "std::vec::Vec::<T>::with_capacity", "std::string::String::with_capacity")


_shrinker_cache = {}


LENGTH_PRESERVING = ("std::string::String::from_utf8", "::unwrap", "::expect", "std::ops::Deref>::deref", "::as_slice", "::as_str", "::as_bytes",
                     "std::string::ToString>::to_string", "::to_vec", "std::clone::Clone>::clone", "::to_owned", "::into_bytes", "::as_ref", "as std::borrow::Borrow<")
_ONLY_LENGTH_PRESERVING = [False]


def derives_length_preserving(du, v, B):
    """v is a view / conversion of the local B (a Vec<u8> / String) that has exactly B's length (from_utf8, ?, unwrap, clone, as_str ...)"""
    _ONLY_LENGTH_PRESERVING[0] = True
    try:
        return _from_buffer(du, v, B) is not None
    finally:
        _ONLY_LENGTH_PRESERVING[0] = False


def _is_shrinking(name):
    if _ONLY_LENGTH_PRESERVING[0]:
        return bool(name) and any(x in name for x in LENGTH_PRESERVING)
    return _is_shrinking_(name)


def _is_shrinking_(name):
    """a conversion whose result is empty whenever its (first) argument is: the std views / trims listed above, or a function of the crate
    with one parameter that only deletes from it (`s.replace("\r", "")`, `s.replace(|c| c.is_ascii_control(), "").trim().to_string()`)"""
    if not name:
        return False
    if any(x in name for x in SHRINKING):
        return True
    if name in _shrinker_cache:
        return _shrinker_cache[name]
    from . import facts as _facts
    F = _facts.CURRENT
    g = F.fns.get(name) if F is not None else None
    ok = False
    if g is not None and g.crate == "rws" and g.kind in ("Fn", "AssocFn") and g.nargs == 1:
        du = du_of(g)
        ok = True
        for _, t in g.calls():
            cn = callee_name(t) or ""
            if cn.endswith("impl str>::replace") and len(t["args"]) == 3:
                rep = du.val_operand(t["args"][2])
                if not (rep[0] == "const" and rep[1] == ""):
                    ok = False
            elif not any(x in cn for x in SHRINKING):
                ok = False
    _shrinker_cache[name] = ok
    return ok


def _path(proj):
    return tuple(e for e in proj if e != "*")


def _from_buffer(du, v, B, depth=0, blocks=None):
    """the value is empty whenever the local B (a Vec<u8> / String) is empty: B itself or a content-preserving / shrinking conversion of it,
    possibly wrapped in Ok(..) / a tuple by a helper and unwrapped again by `?` / `match` / `unwrap` (an access path is tracked).
    Returns the list of blocks whose calls compute the chain (None when v does not derive from B)."""
    if blocks is None:
        blocks = []
    if depth > 60:
        return None
    if v[0] in ("ref", "place"):
        return _derives(du, v[1][0], _path(v[1][1]), B, depth + 1, blocks)
    if v[0] == "call" and v[1] and v[2] and _is_shrinking(v[1]):
        blocks.append(v[3])
        return _from_buffer(du, v[2][0], B, depth + 1, blocks)
    return None


def _strip_payload(path):
    """`(x as Ok).0 ...` / `(x as Some).0 ...` -> `...`"""
    if len(path) >= 2 and path[0][0] == "d" and path[0][1] in ("Ok", "Some", "Continue") and path[1][0] == "f" and path[1][1] == 0:
        return path[2:]
    return path


def _derives(du, l, path, B, depth, blocks):
    if depth > 60:
        return None
    if l == B:
        return blocks if not path else None
    ds = du.defs.get(l, [])
    if not ds:
        return None
    seen = 0
    for d in ds:
        if d[0] == "call":
            t = d[3]
            cn = callee_name(t) or ""
            if cn.endswith("::from_residual") and path and path[0][0] == "d" and path[0][1] in ("Ok", "Some", "Continue"):
                continue                      # the Err / None a `?` returns early: not what an Ok / Some projection reads
            a0 = t["args"][0] if t["args"] else None
            if a0 is None or a0.get("k") not in ("copy", "move"):
                return None
            src = place_key(a0)
            if cn.endswith("as std::ops::Try>::branch"):
                # `helper(..)?`: the Continue payload of Try::branch(r) is the Ok payload of r
                if not path or path[0] != ("d", "Continue"):
                    return None
                if _derives(du, src[0], _path(src[1]) + (("d", "Ok"),) + path[1:], B, depth + 1, blocks) is None:
                    return None
            elif cn.endswith("::map_err") or cn.endswith("::or_else"):
                # the Ok payload is untouched
                if _derives(du, src[0], _path(src[1]) + path, B, depth + 1, blocks) is None:
                    return None
            elif cn.endswith("::unwrap") or cn.endswith("::expect"):
                if _derives(du, src[0], _path(src[1]) + (("d", "Ok"), ("f", 0, "0")) + path, B, depth + 1, blocks) is None \
                        and _derives(du, src[0], _path(src[1]) + (("d", "Some"), ("f", 0, "0")) + path, B, depth + 1, blocks) is None:
                    return None
            elif _is_shrinking(cn):
                if _strip_payload(path):
                    return None
                blocks.append(d[1])
                if _derives(du, src[0], _path(src[1]), B, depth + 1, blocks) is None:
                    return None
            else:
                return None
            seen += 1
        elif d[0] == "assign":
            rv = d[3]
            k = rv["k"]
            if k == "aggregate":
                p = path
                variant = rv.get("variant")
                if variant is not None:
                    if not p or p[0][0] != "d":
                        return None
                    if p[0][1] != variant:
                        continue              # Err(..) built on another path: not what this projection reads
                    p = p[1:]
                if not p or p[0][0] != "f" or p[0][1] >= len(rv["ops"]):
                    return None
                op = rv["ops"][p[0][1]]
                if op.get("k") not in ("copy", "move"):
                    return None
                src = place_key(op)
                if _derives(du, src[0], _path(src[1]) + p[1:], B, depth + 1, blocks) is None:
                    return None
            elif k == "use":
                op = rv["ops"][0]
                if op.get("k") not in ("copy", "move"):
                    return None
                src = place_key(op)
                if _derives(du, src[0], _path(src[1]) + path, B, depth + 1, blocks) is None:
                    return None
            elif k in ("ref", "rawptr"):
                src = place_key(rv["place"])
                if _derives(du, src[0], _path(src[1]) + path, B, depth + 1, blocks) is None:
                    return None
            elif k == "cast" and rv["ops"] and rv["ops"][0].get("k") in ("copy", "move"):
                src = place_key(rv["ops"][0])      # unsizing / pointer casts of a reference to the buffer
                if _derives(du, src[0], _path(src[1]) + path, B, depth + 1, blocks) is None:
                    return None
            else:
                return None
            seen += 1
        else:
            return None
    return blocks if seen else None


def _readb(cfg, du, loop, t, bid):
    bv = du.val_operand(t["args"][-1])
    if bv[0] != "ref" or bv[1][1]:
        return False
    B = bv[1][0]
    ds = du.defs.get(B, [])
    if not ds:
        return False
    empties = {d[1] for d in ds if d[0] == "call" and (callee_name(d[3]) or "") in EMPTY_NEW}
    writers = {d[1] for d in ds if d[1] not in empties}
    for b2, blk in du.blocks.items():
        for st in blk["stmts"]:
            rv = st.get("rv") or {}
            if rv.get("k") in ("ref", "rawptr") and (rv.get("mut") or rv.get("k") == "rawptr"):
                pk = du.canon(place_key(rv["place"]))
                if pk[0] == B and b2 != bid:
                    writers.add(b2)
    # (A) the buffer is empty when the read starts: every path into the read passes a `= Vec::new()` after the last other write
    if not empties:
        return False
    if bid in cfg.reachable_from(cfg.entry, removed_nodes=empties):
        return False
    for w in writers | {bid}:
        for s2 in cfg.succ.get(w, []):
            if s2 not in empties and bid in cfg.reachable_from(s2, removed_nodes=empties):
                return False

    def fresh_at(block):
        """no write to B between this read and `block` (paths that pass the read again re-establish it)"""
        after = cfg.reachable_from(bid)
        for w in writers | empties:
            if w != bid and w in after and block in cfg.reachable_from(w, removed_nodes=(bid,)) and w != block:
                return False
        return block in after
    # (B) an exit tests the emptiness of a value derived from the buffer as this read left it
    for sb in loop.body:
        st = cfg.blocks[sb]["term"]
        if st["k"] != "switch":
            continue
        v = strip_casts(du.val_operand(st["discr"]))
        empty_when = None
        chain = None
        if v[0] == "binop" and v[1] in ("Eq", "Ne"):
            a, b = strip_casts(v[2]), strip_casts(v[3])
            x = a if const_int(b) == 0 else (b if const_int(a) == 0 else None)
            if x is not None and x[0] == "call" and x[1] and x[1].endswith("::len") and x[2]:
                chain = _from_buffer(du, x[2][0], B)
                if chain is not None:
                    chain = chain + [x[3]]
                    empty_when = (v[1] == "Eq")
        elif v[0] == "call" and v[1] and v[1].endswith("::is_empty") and v[2]:
            chain = _from_buffer(du, v[2][0], B)
            if chain is not None:
                chain = chain + [v[3]]
                empty_when = True
        # a definition of the chain from which the test cannot be reached at all (a second `x = &buffer` on the way to a return)
        # never supplies the tested value
        if empty_when is None or not all(fresh_at(cb) for cb in chain if cb == sb or sb in cfg.reachable_from(cb)):
            continue
        for val, tb in st["targets"]:
            edge = (sb, tb) if (bool(val) == empty_when) else (sb, st["otherwise"])
            if _edge_leaves(cfg, loop, edge):
                return True
    return False


def _is_count_of(du, v, call_block, depth=0):
    """v is the Ok value of the read call issued at call_block (through unwrap / moves)"""
    if depth > 6:
        return False
    if v[0] == "call":
        if v[3] == call_block:
            return True
        if v[1] and (v[1].endswith("::unwrap") or v[1].endswith("::expect") or v[1].endswith("::unwrap_or")) and v[2]:
            return _is_count_of(du, v[2][0], call_block, depth + 1)
    if v[0] == "place":
        vv = du.val_place(v[1])
        if vv != v:
            return _is_count_of(du, vv, call_block, depth + 1)
        # `match read(..) { Ok(n) => n, .. }` / `read(..)?`: the Ok payload of this call's result
        if v[1][1]:
            p = tuple(e for e in v[1][1] if e != "*")
            if len(p) == 2 and p[0][0] == "d" and p[0][1] in ("Ok", "Continue") and p[1][0] == "f" and p[1][1] == 0:
                ds = du.defs.get(v[1][0], [])
                if len(ds) == 1 and ds[0][0] == "call":
                    if ds[0][1] == call_block:
                        return True
                    t = ds[0][3]
                    if (callee_name(t) or "").endswith("as std::ops::Try>::branch") and t["args"] and t["args"][0].get("k") in ("copy", "move"):
                        a = place_key(t["args"][0])
                        for _ in range(3):
                            ads = du.defs.get(a[0], [])
                            if a[1] or len(ads) != 1 or ads[0][0] != "call":
                                return False
                            if ads[0][1] == call_block:
                                return True
                            t2 = ads[0][3]
                            if (callee_name(t2) or "").endswith("::map_err") and t2["args"] and t2["args"][0].get("k") in ("copy", "move"):
                                a = place_key(t2["args"][0])     # read(..).map_err(..)?
                                continue
                            return False
                        return False
                if len(ds) == 1 and ds[0][0] == "assign" and ds[0][3]["k"] == "use" and ds[0][3]["ops"][0].get("k") in ("copy", "move"):
                    src = place_key(ds[0][3]["ops"][0])
                    return _is_count_of(du, ("place", (src[0], tuple(src[1]) + p)), call_block, depth + 1)
            return False
        # multi-def user variable: every definition is an integer constant or this read's count
        hit = False
        for d in du.defs.get(v[1][0], []):
            if d[0] == "call" and d[1] == call_block:
                hit = True
            elif d[0] == "call" and (callee_name(d[3]) or "").endswith("::unwrap"):
                a = d[3]["args"][0]
                if a.get("k") in ("copy", "move") and _is_count_of(du, du.val_operand(a), call_block, depth + 1):
                    hit = True
                else:
                    return False
            elif d[0] == "assign" and d[3]["k"] == "use":
                o = d[3]["ops"][0]
                if o.get("k") == "const" and isinstance(o.get("v"), int):
                    continue
                if o.get("k") in ("copy", "move") and _is_count_of(du, du.val_operand(o), call_block, depth + 1):
                    hit = True
                else:
                    return False
            else:
                return False
        return hit
    return False


def _increments_every_cycle(cfg, du, loop, l):
    blocks = set()
    for bid, idx, pk, kind in du.writes:
        if pk == (l, ()) and bid in loop.body and kind == "assign":
            rv = du.blocks[bid]["stmts"][idx]["rv"]
            if rv["k"] == "use" and rv["ops"][0].get("k") in ("copy", "move") and rv["ops"][0]["p"]:
                blocks.add(bid)
    return any(_on_every_cycle(cfg, loop, b) for b in blocks)


def _reader_helpers(F):
    """functions of the crate, public or not, that issue a cursor / stream read themselves and are small enough to inline"""
    out = set()
    for g in F.fns.values():
        if g.crate != "rws" or g.kind not in ("Fn", "AssocFn") or len(g.raw["blocks"]) > 80:
            continue
        for _, t in g.calls():
            if (t.get("callee") or "") in READN or (callee_name(t) or "") in READN:
                out.add(g.def_)
                break
    return out


def loop_rule(ctx, chk, prop, rule_name, seen):
    F = ctx.F
    r = chk.rule(rule_name, "every natural loop exits on the None arm of a finite iterator, on a cursor read's EOF/error, or on a strictly advancing bounded counter")
    from .renames import rekey_loop
    allow = {rekey_loop(ctx, e["loop"]): e for e in ctx.table("safe_sites").get("loops", [])}
    readers = None
    for n in sorted(seen):
        fn = F.fns.get(n)
        if fn is None or fn.kind == "Promoted":
            continue
        inl = None
        for lp in loops_of(fn):
            classify(fn, lp)
            if not lp.form:
                # the evidence of termination (the read, the counter update) may sit in a private helper: look at the body with
                # those helpers inlined (A11); block ids of the caller are unchanged, so the loop is found again by its header
                if inl is None:
                    from .inline import inlined
                    inl = inlined(F, fn)
                for attempt, body in (("private helpers inlined", inl), ("reader helpers inlined", None)):
                    if lp.form:
                        break
                    if body is None:
                        # `while let Some(line) = Self::read_line(cursor)?` where the read itself sits one more call down, in a public
                        # line reader: small crate functions that issue the cursor read themselves are inlined as well
                        if readers is None:
                            readers = _reader_helpers(F)
                        body = inlined(F, fn, also=tuple(sorted(readers - {fn.def_})))
                    if body is fn:
                        continue
                    for lp2 in loops_of(body):
                        if lp2.header == lp.header:
                            classify(body, lp2)
                            if lp2.form:
                                lp.form, lp.why = lp2.form, lp2.why + " (%s)" % attempt
                            break
            cfg = cfg_of(fn)
            line = cfg.blocks[lp.header]["term"]["span"]["line"]
            if lp.form:
                r.instance({"loop": lp.key(), "form": lp.form, "at": "%s:%d" % (fn.file, line)}, ok=True)
                r.classify(lp.form)
            elif lp.key() in allow:
                r.instance({"loop": lp.key(), "form": "allowlisted", "why": allow[lp.key()]["reason"]}, ok=True)
                r.classify("allowlisted")
            else:
                r.instance({"loop": lp.key(), "form": "unclassified"}, ok=False)
                r.classify("unclassified")
                r.violate("%s|%s|%s" % (prop, rule_name.split("-")[0], lp.key()),
                          "loop in %s (header at line %d) matches no accepted terminating form: no exit is controlled by the exhaustion of an iterator / cursor read or by a bounded counter" % (fn.def_, line),
                          fn.file, line, fn.def_, {"loop": lp.key(), "blocks": sorted(lp.body)})
    return r
