"""A13: `the function answers true only where a key comparison has succeeded`.

A matcher / membership closure is sound when its result can be `true` only on paths where a designated equality (`origin == allowed`,
`request_uri == "/favicon.svg"`) has succeeded. The result is followed definition by definition with a pair of dual judgements
  T(x): x is true  only where the key equality holds;   F(x): x is false only where the key equality holds
over `==` / `!=` calls, `!`, `&` / `|`, constants (a constant `true` counts only behind the true edge of a key `==`), copies and
short-circuit temporaries (multi-def bool locals: every definition is judged).  `non_empty && a == b` passes; `non_empty || a == b`,
`a != b`, a bare `true` do not."""
from .cfg import cfg_of
from .dataflow import du_of
from .callgraph import callee_name


def _partial_eq(name, suffixes=("::eq", "::ne")):
    return bool(name) and "PartialEq" in name and name.endswith(suffixes)


def true_implies_key_equality(cf, is_key=None):
    """is_key(call_value) -> bool narrows which `==`/`!=` calls count (default: every PartialEq::eq / ne)"""
    cfg, du = cfg_of(cf), du_of(cf)
    if is_key is None:
        is_key = lambda v: True

    def key_call(v, suffix):
        return v[0] == "call" and _partial_eq(v[1], (suffix,)) and is_key(v)

    eq_edges = []
    for sb in cfg.live_blocks():
        st = cfg.blocks[sb]["term"]
        if st["k"] != "switch" or st.get("discr_ty") != "bool":
            continue
        v = du.val_operand(st["discr"])
        neg = False
        while v[0] == "unop" and v[1] == "Not":
            v = v[2]; neg = not neg
        if v[0] == "call" and _partial_eq(v[1]) and is_key(v):
            if v[1].endswith("::ne"):
                neg = not neg
            for val, tb in st["targets"]:
                if val == 0:
                    eq_edges.append((sb, tb) if neg else (sb, st["otherwise"]))

    def holds(v, want, depth=0):
        if depth > 10:
            return False
        if v[0] == "const":
            val = bool(v[1]) if isinstance(v[1], (bool, int)) else None
            return val is not None and val != want        # the constant never takes the value in question
        if v[0] == "call":
            return key_call(v, "::eq") if want else key_call(v, "::ne")
        if v[0] == "unop" and v[1] == "Not":
            return holds(v[2], not want, depth + 1)
        if v[0] == "binop" and v[1] in ("BitAnd", "BitOr"):
            one_suffices = (v[1] == "BitAnd") == want      # true of a&b needs both true; false of a|b needs both false
            a_, b_ = holds(v[2], want, depth + 1), holds(v[3], want, depth + 1)
            return (a_ or b_) if one_suffices else (a_ and b_)
        if v[0] == "place" and not v[1][1]:
            return local_ok(v[1][0], want, depth + 1)
        return False

    def local_ok(l, want=True, depth=0):
        if depth > 10:
            return False
        ds = du.defs.get(l, [])
        if not ds:
            return False
        for d in ds:
            if eq_edges and cfg.edges_dominate(eq_edges, d[1]):
                continue        # computed behind the true edge of a key equality: whatever its value, the equality holds there
            if d[0] == "call":
                v = du.val_call(d[3], 0, d[1])
                if not key_call(v, "::eq" if want else "::ne"):
                    return False
            elif d[0] == "assign":
                rv = d[3]
                if rv["k"] == "use" and rv["ops"][0].get("k") == "const":
                    val = rv["ops"][0].get("v")
                    if isinstance(val, bool) and val == want and not cfg.edges_dominate(eq_edges, d[1]):
                        return False
                    continue
                if rv["k"] == "use" and rv["ops"][0].get("k") in ("copy", "move") and not rv["ops"][0]["p"]:
                    if not local_ok(rv["ops"][0]["l"], want, depth + 1):
                        return False
                    continue
                if rv["k"] in ("binop", "unop"):
                    def opv(o):
                        # operands stay symbolic (a multi-def flag is judged definition by definition)
                        if o.get("k") in ("copy", "move") and not o["p"]:
                            w = du.val_operand(o)
                            return w if w[0] in ("call", "const", "unop", "binop") and len(du.defs.get(o["l"], [])) == 1 else ("place", (o["l"], ()))
                        return du.val_operand(o)
                    v = (rv["k"], rv["op"]) + tuple(opv(o) for o in rv["ops"])
                    if not holds(v, want, depth + 1):
                        return False
                    continue
                return False
            else:
                return False
        return True
    return local_ok(0, True)
