"""A13: `the function answers true only where a key comparison has succeeded`.

A matcher / membership closure is sound when its result can be `true` only on paths where a designated equality (`origin == allowed`,
`request_uri == "/favicon.svg"`) has succeeded. The result is followed definition by definition with a pair of dual judgements
  T(x): x is true  only where the key equality holds;   F(x): x is false only where the key equality holds
over `==` / `!=` calls, `!`, `&` / `|`, constants (a constant `true` counts only behind the true edge of a key `==`), copies and
short-circuit temporaries (multi-def bool locals: every definition is judged).  `non_empty && a == b` passes; `non_empty || a == b`,
`a != b`, a bare `true` do not."""
from .cfg import cfg_of
from .dataflow import du_of
from .callgraph import callee_name


def _partial_eq(name, suffixes=("::eq", "::ne")):
    return bool(name) and "PartialEq" in name and name.endswith(suffixes)


def true_implies_key_equality(cf, is_key=None):
    """True (proved) / False (a definite counter-shape) / None (a construct that is not followed: no verdict).
    is_key(call_value) -> bool narrows which `==`/`!=` calls count (default: every PartialEq::eq / ne)"""
    cfg, du = cfg_of(cf), du_of(cf)
    if is_key is None:
        is_key = lambda v: True

    def key_call(v, suffix):
        return v[0] == "call" and _partial_eq(v[1], (suffix,)) and is_key(v)

    eq_edges = []
    for sb in cfg.live_blocks():
        st = cfg.blocks[sb]["term"]
        if st["k"] != "switch" or st.get("discr_ty") != "bool":
            continue
        v = du.val_operand(st["discr"])
        neg = False
        while v[0] == "unop" and v[1] == "Not":
            v = v[2]; neg = not neg
        if v[0] == "call" and _partial_eq(v[1]) and is_key(v):
            if v[1].endswith("::ne"):
                neg = not neg
            for val, tb in st["targets"]:
                if val == 0:
                    eq_edges.append((sb, tb) if neg else (sb, st["otherwise"]))

    # three-valued: True = proved, False = a definite counter-shape (a value of the wrong polarity that does not come from the key
    # equality and is not behind it), None = a construct the judgement does not follow (a combinator, an opaque call): no verdict
    def all3(xs):
        xs = list(xs)
        if any(x is False for x in xs):
            return False
        return True if all(x is True for x in xs) else None

    def any3(xs):
        xs = list(xs)
        if any(x is True for x in xs):
            return True
        return False if all(x is False for x in xs) else None

    def holds(v, want, depth=0):
        if depth > 10:
            return None
        if v[0] == "const":
            val = bool(v[1]) if isinstance(v[1], (bool, int)) else None
            if val is None:
                return None
            return val != want        # the constant never takes the value in question
        if v[0] == "call":
            if _partial_eq(v[1]):
                return key_call(v, "::eq") if want else key_call(v, "::ne")
            return None               # an opaque call
        if v[0] == "unop" and v[1] == "Not":
            return holds(v[2], not want, depth + 1)
        if v[0] == "binop" and v[1] in ("BitAnd", "BitOr"):
            one_suffices = (v[1] == "BitAnd") == want      # true of a&b needs both true; false of a|b needs both false
            rs = [holds(v[2], want, depth + 1), holds(v[3], want, depth + 1)]
            return any3(rs) if one_suffices else all3(rs)
        if v[0] == "place" and not v[1][1]:
            return local_ok(v[1][0], want, depth + 1)
        return None

    def local_ok(l, want=True, depth=0):
        if depth > 10:
            return None
        ds = du.defs.get(l, [])
        if not ds:
            return None
        out = []
        for d in ds:
            if eq_edges and cfg.edges_dominate(eq_edges, d[1]):
                continue        # computed behind the true edge of a key equality: whatever its value, the equality holds there
            if d[0] == "call":
                out.append(holds(du.val_call(d[3], 0, d[1]), want, depth + 1))
            elif d[0] == "assign":
                rv = d[3]
                if rv["k"] == "use" and rv["ops"][0].get("k") == "const":
                    val = rv["ops"][0].get("v")
                    out.append(not (isinstance(val, bool) and val == want))
                elif rv["k"] == "use" and rv["ops"][0].get("k") in ("copy", "move") and not rv["ops"][0]["p"]:
                    out.append(local_ok(rv["ops"][0]["l"], want, depth + 1))
                elif rv["k"] in ("binop", "unop"):
                    def opv(o):
                        # operands stay symbolic (a multi-def flag is judged definition by definition)
                        if o.get("k") in ("copy", "move") and not o["p"]:
                            w = du.val_operand(o)
                            return w if w[0] in ("call", "const", "unop", "binop") and len(du.defs.get(o["l"], [])) == 1 else ("place", (o["l"], ()))
                        return du.val_operand(o)
                    out.append(holds((rv["k"], rv["op"]) + tuple(opv(o) for o in rv["ops"]), want, depth + 1))
                else:
                    out.append(None)
            else:
                out.append(None)
        return all3(out)
    return local_ok(0, True)
