"""C13 — the server never modifies the files it serves.
Sound w.r.t. the call graph: no function reachable from a connection root calls a file-system mutator."""
import re
from ..callgraph import callee_name
from ..framework import Check


def classify_fs(tbl, name):
    """'mutator' | 'read_only' | 'unclassified' | None (out of scope)"""
    for pat, _ in tbl["mutators"]:
        if re.fullmatch(pat, name):
            return "mutator"
    for pat, _ in tbl["read_only"]:
        if re.fullmatch(pat, name):
            return "read_only"
    for pat in tbl["scope"]:
        if re.fullmatch(pat, name):
            return "unclassified"
    return None


def write_on_file(t):
    """a std::io::Write method (or io::copy) whose receiver/argument types mention std::fs::File"""
    c = callee_name(t) or ""
    tr = t.get("trait")
    if tr == "std::io::Write" or c.startswith("std::io::copy") or "as std::io::Write>" in c:
        tys = " ".join(t.get("gargs", []) + t.get("arg_tys", [])[:1] + ([t["arg_tys"][1]] if c.startswith("std::io::copy") and len(t.get("arg_tys", [])) > 1 else []))
        if "std::fs::File" in tys:
            return True
    return False


def scan(ctx, roots):
    """returns (seen-map, list of (fn, block, term, class, callee))"""
    F, G = ctx.F, ctx.G
    tbl = ctx.table("fs_api")
    seen = G.reachable(roots)
    sites = []
    for n in sorted(seen):
        fn = F.fns.get(n)
        if fn is None:
            continue
        for bid, t in fn.calls():
            c = callee_name(t)
            if c is None or c in F.fns:
                continue
            cls = classify_fs(tbl, c)
            if cls is None and write_on_file(t):
                cls = "mutator"
            if cls:
                sites.append((fn, bid, t, cls, c))
    return seen, sites


def run(ctx):
    F, G, R = ctx.F, ctx.G, ctx.R
    chk = Check("C13", ctx.tier, "No function reachable from a connection root calls a file-system mutator, spawns a process or calls foreign code.")
    chk.technique = "call-graph reachability (CHA for trait calls, closures passed are called) from role-discovered connection roots against a classified table of std file-system APIs; fail-closed on unclassified APIs"
    chk.analysed = ctx.analysed_summary()
    tbl = ctx.table("fs_api")
    roots = R.connection_roots()

    r0 = chk.rule("anchors", "connection roots are discovered by role (closure submitted to the pool by the accept loop; functions generic over Read+Write)", floor=3)
    for e in R.errors:
        r0.violate("C13|anchors|" + e.split(":")[1].strip()[:50], e)
    for x in roots:
        r0.instance({"root": x, "at": F.fns[x].loc()})

    seen, sites = scan(ctx, roots)
    local = [n for n in seen if n in F.fns]
    chk.analysed["reachable_from_connection_roots"] = {"functions": len(local), "external_leaves": len(seen) - len(local)}

    r1 = chk.rule("no-mutator-reachable", "for every call site in a function reachable from a connection root: callee is not a file-system mutator / process spawn", floor=0)
    ncalls = 0
    ordinal = {}
    for n in sorted(local):
        for _ in F.fns[n].calls():
            ncalls += 1
    r1.obligations = ncalls
    r1.instances = ncalls
    bad = 0
    for fn, bid, t, cls, c in sites:
        r1.classify(cls)
        if cls in ("mutator", "unclassified"):
            bad += 1
            k = (fn.def_, c)
            ordinal[k] = ordinal.get(k, 0) + 1
            key = "C13|no-mutator-reachable|%s|%s|%s|%d" % (fn.def_, cls, c, ordinal[k])
            path = G.fmt_path(seen, fn.def_)
            r1.violate(key, "%s call to %s in %s, reachable from a connection root: %s" % (
                "file-system mutator" if cls == "mutator" else "unclassified file-system/process API (classify it in tables/fs_api.json)", c, fn.def_, path),
                t["span"]["file"], t["span"]["line"], fn.def_, {"call_path": path, "callee": c, "class": cls})
        elif len(r1.samples) < 4:
            r1.samples.append({"fn": fn.def_, "callee": c, "class": cls, "at": "%s:%d" % (t["span"]["file"], t["span"]["line"])})
    r1.discharged = ncalls - bad

    r2 = chk.rule("no-ffi", "no foreign (extern) function is declared in the four crates, so none can be called from a handler", floor=0)
    r2.instance({"foreign_items": len(F.foreign)}, ok=not F.foreign)
    for c, name in F.foreign:
        if any(name == callee_name(t) for n in local for _, t in F.fns[n].calls()):
            r2.violate("C13|no-ffi|%s" % name, "foreign function %s (crate %s) is called from request-reachable code" % (name, c))

    # positive control: the table must recognise the mutators that exist one call away, inside file-ext
    r3 = chk.rule("positive-control", "the mutator table matches the write/create/delete/copy wrappers of file-ext (they exist, unreachable from handlers)", floor=8)
    for fn in F.fns.values():
        if fn.crate != "file_ext":
            continue
        for bid, t in fn.calls():
            c = callee_name(t)
            if c and c not in F.fns and (classify_fs(tbl, c) == "mutator" or write_on_file(t)):
                r3.instance({"fn": fn.def_, "callee": c})
    chk.assumptions += [
        "call graph over-approximates: trait calls expanded by class hierarchy, every closure/fn item mentioned by a reachable function is reachable",
        "std / core / alloc functions are leaves described by their resolved def path; a std function not under std::fs, std::os or std::process does not modify files",
        "the generic transport (impl Read + Write) of the per-connection functions is a socket, not a file",
        "start-up code (Server::setup, Log::info -> whoami) is outside the property's quantifier (requests)"]
    return chk.finish()
