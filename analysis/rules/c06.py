import re
"""C06 — serving capacity survives any history of connections (structural)."""
from ..callgraph import callee_name
from ..cfg import cfg_of
from ..dataflow import du_of, place_key
from ..framework import Check
from ..guards import guards_of, optres_root
from .c04 import panic_rule, recursion_rule
from . import c07


def run(ctx):
    F, G, R = ctx.F, ctx.G, ctx.R
    chk = Check("C06", ctx.tier, "No past connection can remove a worker or stop the accept loop: panics are contained, the accept loop only ends when the listener does, the queue lock is not held while a task runs.")
    chk.technique = "cut-edge call-graph reachability (edges into catch_unwind removed) + panic-site inventory; dominance of the accept loop's returns by the iterator-exhausted arm; lock-guard dataflow"
    chk.analysed = ctx.analysed_summary()
    r0 = chk.rule("anchors", "worker closure, accept loop, connection roots discovered by role", floor=3)
    for e in R.errors:
        r0.violate("C06|anchors|" + e.split(":")[1].strip()[:50], e)
    for x in R.worker_closures + R.accept_loops + R.connection_closures:
        r0.instance({"anchor": x})

    # R1: from the worker loop, with every edge that enters a catch_unwind removed, no unguarded panic site is reachable
    def cut(e):
        return e.kind == "dyn-call-caught" or (e.kind == "call" and e.dst.startswith("std::panic::catch_unwind"))
    r1, seen1, inv = panic_rule(ctx, chk, "C06", "R1-unwind-contained", R.worker_closures, cut=cut, floor=1)
    # the task must actually be reachable only through the guard: report how it is reached
    rg = chk.rule("R1b-task-runs-under-catch_unwind", "the worker invokes the received task only through std::panic::catch_unwind", floor=1)
    for wc in R.worker_closures:
        fn = ctx.inl(F.fns[wc])
        jobs = c07.job_blocks(ctx, fn)
        for b, kind in jobs:
            ok = kind == "dyn-call-caught"
            line = cfg_of(fn).blocks[b]["term"]["span"]["line"]
            rg.instance({"worker": wc, "task_call_line": line, "guarded": ok}, ok)
            if not ok:
                rg.violate("C06|R1b|%s|unguarded-task-call" % wc,
                           "the worker runs the task at line %d without an unwind guard: a panic in request handling ends the worker thread for good (workers are never respawned)" % line,
                           fn.file, line, wc)
        if not jobs:
            rg.violate("C06|R1b|%s|no-task-call" % wc, "worker closure %s never invokes a task" % wc)

    # R2: the accept loop returns only when the incoming iterator is exhausted
    r2 = chk.rule("R2-accept-loop-survives-errors", "every reachable return of the accept-loop function is edge-dominated by the None arm of Incoming::next", floor=1)
    for al in R.accept_loops:
        fn = F.fns[al]
        cfg = cfg_of(fn)
        du = du_of(fn)
        g = guards_of(fn)
        nexts = [bid for bid, t in fn.calls() if (callee_name(t) or "").endswith("as std::iter::Iterator>::next") and "std::net::Incoming" in " ".join(t.get("arg_tys", []) + [callee_name(t) or ""])]
        if not nexts:
            # the accept loop as an iterator pipeline: `listener.incoming().filter_map(..).for_each(|c| pool.execute(..))`. The stream of
            # connections is consumed to its end exactly when no adaptor on the way can stop it on a per-connection condition
            names_ = [(callee_name(t) or t.get("callee") or "") for _, t in fn.calls()]
            consumed = any(n_.endswith(("::for_each", "::count", "::last")) for n_ in names_) and any(n_ == "std::net::TcpListener::incoming" for n_ in names_)
            stoppers = sorted({n_.rsplit("::", 1)[-1] for n_ in names_ if re.search(r"::(map_while|take_while|take|scan|try_for_each|try_fold|find|find_map|any|all|position|nth|next|fuse)$", n_)
                               and ("Iterator" in n_ or "iter::" in n_)})
            if consumed:
                ok = not stoppers
                r2.instance({"accept_loop": al, "form": "iterator pipeline consumed by for_each", "adaptors_that_can_end_the_stream": stoppers}, ok)
                if not ok:
                    r2.violate("C06|R2|%s|pipeline-stops" % al, "%s consumes TcpListener::incoming through %s: the first connection for which that adaptor answers None / false ends the accept loop, the server stops accepting" % (al, ", ".join(stoppers)), fn.file, fn.span["line"], al)
                continue
            r2.violate("C06|R2|%s|no-incoming-next" % al, "%s does not iterate TcpListener::incoming (anchor missing)" % al)
            continue
        none_edges = []
        for nb in nexts:
            root, inv_ = optres_root(du, place_key(cfg.blocks[nb]["term"]["dest"]))
            none_edges += [e for e, f in g.facts() if f[0] == "variant" and f[1] == root and f[3] is (True if inv_ else False)]
        for rb in cfg.return_blocks():
            ok = cfg.edges_dominate(none_edges, rb)
            line = cfg.blocks[rb]["term"]["span"]["line"]
            r2.instance({"accept_loop": al, "return_line": line, "dominated_by_iterator_exhausted": ok}, ok)
            if not ok:
                path = cfg.find_path(cfg.entry, rb, removed_edges=none_edges)
                lines = [cfg.blocks[b]["term"]["span"]["line"] for b in (path or [])]
                r2.violate("C06|R2|%s|returns-inside-loop" % al,
                           "%s can return without the listener being exhausted (a per-connection error ends the process): path through lines %s" % (al, sorted(set(lines))[-6:]),
                           fn.file, line, al, {"block_path": path})
        # the loop must also not contain a panic site outside the pool hand-off (accept thread dying = server dead)
    r2p, seen2, _ = panic_rule(ctx, chk, "C06", "R2p-accept-thread-cannot-panic", R.accept_loops,
                               cut=lambda e: e.kind in ("mentions", "dyn-call", "dyn-call-caught") and e.dst in R.connection_closures, floor=0)

    # R3/R4: C07.R1 and C07.R3
    r3 = chk.rule("R3-lock-released-before-task", "C07.R1: no lock guard live when the task is invoked (a stuck task must not block the queue)", floor=1)
    r4 = chk.rule("R4-worker-loop-has-no-exit", "C07.R3: the worker closure cannot return", floor=1)
    for wc in R.worker_closures:
        fn = ctx.inl(F.fns[wc])
        jobs = c07.job_blocks(ctx, fn)
        live = c07.live_guards_at(fn, [b for b, _ in jobs])
        for b, _ in jobs:
            ok = not live[b]
            r3.instance({"worker": wc, "guards_live_at_task": len(live[b])}, ok)
            if not ok:
                r3.violate("C06|R3|%s" % wc, "lock guard live while the task runs in %s" % wc, fn.file, fn.span["line"], wc)
        rets = cfg_of(fn).return_blocks()
        r4.instance({"worker": wc, "returns": len(rets)}, ok=not rets)
        for rb in rets:
            line = cfg_of(fn).blocks[rb]["term"]["span"]["line"]
            r4.violate("C06|R4|%s|return" % wc, "worker closure %s can return at line %d: that worker is gone for every later connection" % (wc, line), fn.file, line, wc)

    # R5: stack exhaustion aborts the whole process and is not caught by catch_unwind
    seen = G.reachable(R.connection_roots())
    recursion_rule(ctx, chk, "C06", "R5-no-recursion", seen)
    # R6: a handler that never returns occupies its worker for ever
    from .. import loops
    loops.loop_rule(ctx, chk, "C06", "R6-handler-loops-terminate", seen)
    chk.assumptions += ["catch_unwind contains every unwinding panic (the crate is not built with panic=abort: Cargo.toml has no profile override)",
                        "same tables and allowlist as C04.P for the code outside the guard"]
    chk.undecided = ["stalled peers: no read timeout exists and timing is outside static reach", "transport-level resets are std behaviour"]
    return chk.finish()
