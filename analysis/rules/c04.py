"""C04 — every connection is answered; no input can crash the server.
P: no reachable unguarded panic site; S: no input-driven recursion; W: exactly one response write per path;
E: error edges answer with the 400 constructor."""
import re
from ..callgraph import callee_name, is_transport_io
from ..cfg import cfg_of
from ..dataflow import du_of, place_key, val_ref_target
from ..framework import Check
from ..guards import guards_of
from .. import panics

WRITE_CALLS = ("std::io::Write::write", "std::io::Write::write_all")


def site_id(s):
    return "%s|%s|%s|%s|%d" % (s.fn.def_, s.kind, s.what, s.producer, s.ordinal)


def panic_rule(ctx, chk, prop, rule_name, roots, cut=None, floor=1):
    """shared by C04.P, C06.R1/R5, C20.P: every potential panic site in functions reachable from `roots`"""
    F, G = ctx.F, ctx.G
    inv = panics.Inventory(ctx)
    from ..renames import rekey_sites, rename_map
    safe = rekey_sites(ctx, inv)       # allowlist entries follow a renamed / moved function (tables/function_snapshot.json)
    seen = G.reachable(roots, cut=cut)
    r = chk.rule(rule_name, "every potential panic site (unwrap/expect, documented-panicking std call, overflow/bounds/division assert, explicit panic) in a function reachable from the roots is guarded, exempt by table, or allowlisted with a reason", floor=floor)
    used_safe = set()
    nfn = 0
    for n in sorted(seen):
        fn = F.fns.get(n)
        if fn is None or fn.kind == "Promoted":
            continue
        nfn += 1
        for s in inv.sites(fn):
            sid = site_id(s)
            if s.extra.get("contradicted") and s.status != "guarded":
                r.instance(None, ok=False)
                r.classify("contradicted")
                r.violate("%s|%s|%s|definite" % (prop, rule_name.split("-")[0], sid),
                          "definite panic: %s (%s) in %s is %s - it panics whenever it is reached; reachable: %s" % (s.what, s.producer, fn.def_, s.extra["contradicted"], G.fmt_path(seen, fn.def_)),
                          s.file, s.line, fn.def_, {"site": sid})
                continue
            if s.status in ("guarded", "exempt"):
                r.instance(None, ok=True)
                r.classify(s.status)
                if s.status == "guarded" and len(r.samples) < 3:
                    r.samples.append({"site": sid, "at": "%s:%d" % (s.file, s.line), "status": s.status, "why": s.reason})
                continue
            if sid in safe and not _requires_ok(fn, s, safe[sid]):
                r.instance(None, ok=False)
                r.classify("allowlist-precondition-lost")
                path = G.fmt_path(seen, fn.def_)
                r.violate("%s|%s|%s|precondition" % (prop, rule_name.split("-")[0], sid),
                          "potential panic: %s (%s) in %s was allowlisted because a dominating test (%s) protects it, and that test no longer dominates the site; reachable: %s" % (
                              s.what, s.producer, fn.def_, safe[sid]["requires"].get("dominating_test") or "a state flag that decides whether the site is reached", path),
                          s.file, s.line, fn.def_, {"site": sid, "allowlist_reason": safe[sid]["reason"]})
                continue
            if sid not in safe:
                # the producer text / ordinal of an allowlisted site changes when the value is bound differently (`match` payload instead
                # of a named local): accept an entry of the same function, kind and operation as long as the function has no more
                # unproven sites of that kind and operation than it has entries (so every one of them is accounted for)
                ents = [e for k_, e in safe.items() if k_.startswith(fn.def_ + "|" + s.kind + "|" + s.what + "|")]
                if ents:
                    nsites = len([x for x in inv.sites(fn) if x.status not in ("guarded", "exempt") and x.kind == s.kind and x.what == s.what])
                    if nsites <= len(ents):
                        # the constants of the operation are part of the reviewed argument (`len - 1` is not `len - 2`)
                        consts = sorted(re.findall(r"const -?\w+", sid))
                        cand = [e for e in ents if _requires_ok(fn, s, e) and sorted(re.findall(r"const -?\w+", e["site"])) == consts]
                        if cand:
                            safe[sid] = dict(cand[0], matched_by="function, kind and operation")
            msafe = None
            if sid not in safe:
                for me in ctx.table("safe_sites").get("module_sites", []):
                    if fn.def_.startswith(me["module"]) and ("%s|%s" % (s.kind, s.what)) == me["kind_what"]:
                        msafe = me
            if msafe is not None:
                r.instance(None, ok=True)
                r.classify("allowlisted")
                continue
            if sid in safe:
                used_safe.add(sid)
                r.instance(None, ok=True)
                r.classify("allowlisted")
                if len(r.samples) < 5:
                    r.samples.append({"site": sid, "at": "%s:%d" % (s.file, s.line), "status": "allowlisted", "why": safe[sid]["reason"]})
                continue
            r.instance(None, ok=False)
            r.classify("unguarded")
            path = G.fmt_path(seen, fn.def_)
            r.violate("%s|%s|%s" % (prop, rule_name.split("-")[0], sid),
                      "potential panic: %s (%s) in %s is not dominated by a check that excludes the failing case%s; reachable: %s" % (
                          s.what, s.producer, fn.def_, (" [" + s.reason + "]") if s.reason else "", path),
                      s.file, s.line, fn.def_, {"site": sid, "kind": s.kind, "producer": s.producer, "call_path": path, "needs": s.extra})
    r.note("functions analysed: %d; allowlist entries used: %d; renamed functions whose entries were carried over: %s" % (nfn, len(used_safe), rename_map(ctx) or "none"))
    return r, seen, inv


def _requires_ok(fn, site, entry):
    """machine-checked precondition of an allowlist entry: some switch whose discriminant mentions the given
    callee/operator (regex over the value expression) has an edge that dominates the site"""
    req = entry.get("requires")
    if not req:
        return True
    import re
    cfg = cfg_of(fn)
    du = du_of(fn)
    if req.get("dominating_flag"):
        # a switch on a boolean state flag (a multi-def bool local whose definitions are the constants true / false) decides whether
        # the site is reached: one of its edges dominates the site
        for sb in cfg.live_blocks():
            st = cfg.blocks[sb]["term"]
            if st["k"] != "switch" or st.get("discr_ty") != "bool":
                continue
            v = du.val_operand(st["discr"])
            while v[0] == "unop" and v[1] == "Not":
                v = v[2]
            if v[0] != "place" or v[1][1]:
                continue
            ds = du.defs.get(v[1][0], [])
            if len(ds) < 2 or not all(d[0] == "assign" and d[3]["k"] == "use" and d[3]["ops"][0].get("k") == "const" for d in ds):
                continue
            succs = set([b for _, b in st["targets"]] + [st["otherwise"]])
            if len(succs) > 1 and any(cfg.edge_dominates((sb, tb), site.bid) for tb in succs):
                return True
        return False
    pat = re.compile(req["dominating_test"])
    for sb in cfg.live_blocks():
        st = cfg.blocks[sb]["term"]
        if st["k"] != "switch":
            continue
        v = du.val_operand(st["discr"])
        if not pat.search(repr(v)):
            continue
        for tb in set([b for _, b in st["targets"]] + [st["otherwise"]]):
            if cfg.edge_dominates((sb, tb), site.bid) and len(set([b for _, b in st["targets"]] + [st["otherwise"]])) > 1:
                return True
    return False


def recursion_rule(ctx, chk, prop, rule_name, seen):
    F, G = ctx.F, ctx.G
    r = chk.rule(rule_name, "no call-graph cycle among the functions reachable from the roots (stack depth chosen by the input)")
    local = [n for n in seen if n in F.fns]
    from ..renames import rename_map
    allow = {rename_map(ctx).get(e["fn"], e["fn"]): e for e in ctx.table("safe_sites").get("recursion", [])}
    sccs = G.sccs(local)
    for c in sccs:
        cyc = len(c) > 1 or any(e.dst == c[0] and e.kind in ("call", "trait-cha", "dyn-call") for e in G.out.get(c[0], []))
        if not cyc:
            r.instance(None, ok=True)
            continue
        name = "+".join(sorted(c))
        if all(x in allow for x in c):
            r.instance({"cycle": name, "status": "allowlisted", "why": allow[c[0]]["reason"]}, ok=True)
            r.classify("allowlisted")
            continue
        r.instance({"cycle": name}, ok=False)
        r.classify("cycle")
        fn = F.fns[sorted(c)[0]]
        r.violate("%s|%s|%s" % (prop, rule_name.split("-")[0], name),
                  "recursion: %s calls itself (one stack frame per input element); reachable: %s" % (name, G.fmt_path(seen, sorted(c)[0])),
                  fn.span["file"], fn.span["line"], fn.def_, {"cycle": sorted(c)})
    return r


def run(ctx):
    F, G, R = ctx.F, ctx.G, ctx.R
    chk = Check("C04", ctx.tier, "No panic site, input-driven recursion, missing or duplicate response write is reachable from the per-connection entry points.")
    chk.technique = "MIR panic-site inventory + dominance-based guard recognition over the call graph from the connection roots; SCC recursion check; CFG path counting of response writes"
    chk.analysed = ctx.analysed_summary()
    roots = R.connection_roots()
    r0 = chk.rule("anchors", "connection roots discovered by role", floor=3)
    for e in R.errors:
        r0.violate("C04|anchors|" + e.split(":")[1].strip()[:50], e)
    for x in roots:
        r0.instance({"root": x})

    rp, seen, inv = panic_rule(ctx, chk, "C04", "P-no-reachable-panic", roots, floor=40)
    chk.analysed["reachable_functions"] = len([n for n in seen if n in F.fns])
    recursion_rule(ctx, chk, "C04", "S-no-recursion", seen)
    from .. import loops
    loops.loop_rule(ctx, chk, "C04", "T-loops-terminate", seen)

    # D: a contradiction rule over the whole program, start-up included: an unwrap that is only reached where a passed test has
    # established the other variant (`if r.is_ok() { r.err().unwrap() }`) panics whenever it is reached; on the start-up path that
    # means no connection is ever answered. Expected count: zero.
    rd = chk.rule("D-no-contradicted-unwrap", "in every function of the crate reachable from main (start-up included): no unwrap/expect is dominated by a passed test that establishes the opposite variant of the value it unwraps")
    everything = G.reachable([R.main] if R.main else roots)
    nd = 0
    for n in sorted(everything):
        fn = F.fns.get(n)
        if fn is None or fn.crate != "rws" or fn.kind == "Promoted" or n in seen:
            continue       # functions reachable from the connection roots are covered by P above
        for s_ in inv.sites(fn):
            if s_.kind != "unwrap":
                continue
            nd += 1
            bad = bool(s_.extra.get("contradicted")) and s_.status != "guarded"
            rd.instance({"fn": n, "line": s_.line, "unwrap_of": s_.producer} if nd <= 3 or bad else None, not bad)
            if bad:
                rd.violate("C04|D|%s|definite" % site_id(s_), "definite panic outside the request path (start-up): %s (%s) in %s is %s" % (s_.what, s_.producer, n, s_.extra["contradicted"]), s_.file, s_.line, n)

    # W: exactly one response write on every entry->return path of each per-connection function
    rw = chk.rule("W-one-response-per-path", "on every entry->return path of a per-connection function the transport is written exactly once", floor=2)
    re_ = chk.rule("E-error-edges-answer-400", "a write dominated by a failed read/parse/handler test sends the bytes of the 400 constructor; every other write sends the serialised response", floor=2)
    ctor400 = None
    for fn in F.rws_fns():
        # the 400 constructor: builds a response from the n400 status entry and serialises it
        for bid, t in fn.calls():
            if callee_name(t) == "response::Response::get_response" and t["args"]:
                v = du_of(fn).val_operand(t["args"][0])
                if v[0] == "const" and isinstance(v[1], dict) and v[1].get("fields", {}).get("status_code") == 400:
                    ctor400 = fn.def_
    if ctor400 is None:
        re_.violate("C04|E|anchor-missing|400-constructor", "no function builds a Response from the 400 status entry (anchor missing)")
    for name in R.connection_fns:
        # private helpers (send-and-flush, reply-with-400) are part of the function for this rule; the rule's own anchors stay calls
        fn = ctx.inl(F.fns[name], keep=tuple(x for x in (ctor400, "response::Response::generate_response") if x))
        cfg = cfg_of(fn)
        du = du_of(fn)
        g = guards_of(fn)
        def is_write_call(t):
            if t.get("callee") in WRITE_CALLS and is_transport_io(t, t.get("callee")):
                return True
            c = callee_name(t)
            if c in F.fns and c not in R.connection_fns and c != name:
                sub = G.reachable([c], kinds=("call", "trait-cha"))
                return any(x in R.transport_helpers and any((tt.get("callee") or "") in WRITE_CALLS and is_transport_io(tt, tt.get("callee")) for _, tt in F.fns[x].calls()) for x in sub if x in F.fns)
            return False
        wblocks = [bid for bid, t in fn.calls() if is_write_call(t)]
        res = cfg.minmax_count(wblocks)
        ok_all = True
        for rb, (mn, mx) in sorted(res.items()):
            ok = (mn == 1 and mx == 1)
            ok_all = ok_all and ok
            rw.instance({"fn": name, "return_block": rb, "min_writes": mn, "max_writes": mx if mx != float("inf") else "inf"}, ok)
            if not ok:
                line = cfg.blocks[rb]["term"]["span"]["line"]
                rw.violate("C04|W|%s|%s" % (name, "no-write" if mn == 0 else "multiple-writes"),
                           "%s: a path to the return at line %d writes the transport %s time(s) (min %s, max %s); exactly one response per connection is required" % (
                               name, line, "0" if mn == 0 else "more than 1", mn, mx), fn.span["file"], line, name)
        if not res:
            rw.violate("C04|W|%s|no-return" % name, "%s has no reachable return" % name)
        # E
        fail_edges = [(e, f) for e, f in g.facts() if f[0] == "variant" and f[3] is False]
        k = 0
        for wb in wblocks:
            t = cfg.blocks[wb]["term"]
            k += 1
            prod = None
            cands = [t["args"][1]] if (t.get("callee") in WRITE_CALLS and len(t["args"]) > 1) else t["args"]
            for a_ in cands:
                pr = _producer(du, du.val_operand(a_))
                if pr in (ctor400, "response::Response::generate_response"):
                    prod = pr
                elif prod is None:
                    prod = pr
            # is this write dominated by the failure edge of a read / parse / execute result?
            def failure_dominating(block):
                dominated = None
                for e, f in fail_edges:
                    src = _root_producer(du, f[1])
                    is_reader = src in F.fns and src not in R.connection_fns and any(
                        x in R.transport_helpers and any(is_transport_io(tt, "std::io::Read::read") for _, tt in F.fns[x].calls())
                        for x in G.reachable([src], kinds=("call", "trait-cha")) if x in F.fns) if src else False
                    if src and (is_reader or any(x in src for x in ("std::io::Read::read", "request::Request::parse", "application::Application::execute"))) and cfg.edge_dominates(e, block):
                        dominated = src
                return dominated
            dominated = failure_dominating(wb)
            if prod is None and not dominated:
                # one write after the arms have merged (`let raw = match parsed { Err(..) => bad_request(..), Ok(..) => generate(..) }; send(raw)`):
                # each definition of the bytes is judged where it is made
                multi = [x for a_ in cands for x in _producers_by_def(du, du.val_operand(a_))]
                if multi and all(pr is not None for pr, _ in multi):
                    verdicts = []
                    for pr, db in multi:
                        dom_i = failure_dominating(db)
                        ok_i = pr == (ctor400 if dom_i else "response::Response::generate_response") \
                            or (not dom_i and pr == ctor400 and any(cfg.edge_dominates(e, db) for e, f in fail_edges))
                        verdicts.append(ok_i)
                        re_.instance({"fn": name, "write_at_line": t["span"]["line"], "bytes_from": pr, "defined_in_block": db, "on_failure_of": dom_i}, ok_i)
                    if all(verdicts) and any(pr == "response::Response::generate_response" for pr, _ in multi):
                        continue
            want = ctor400 if dominated else "response::Response::generate_response"
            ok = prod == want
            if not ok and not dominated and prod == ctor400 and any(cfg.edge_dominates(e, wb) for e, f in fail_edges):
                # a defensive 400 on the failure of some other fallible step (e.g. a peer address that does not parse): allowed;
                # what is required is that the read / parse / handler failures answer 400 and that the success path sends the response
                ok, dominated = True, "another fallible step"
            re_.instance({"fn": name, "write_at_line": t["span"]["line"], "bytes_from": prod, "on_failure_of": dominated}, ok)
            if not ok:
                re_.violate("C04|E|%s|write-%d" % (name, k),
                            "%s: the write at line %d %s but sends bytes produced by %s (expected %s)" % (
                                name, t["span"]["line"], ("is dominated by the failure of " + dominated) if dominated else "is on the success path", prod, want),
                            t["span"]["file"], t["span"]["line"], name)
    chk.assumptions += [
        "call graph over-approximates (CHA; closures passed are called); std functions are leaves described by their rustdoc '# Panics' section and tables/std_panic_exempt.json",
        "allocation failure, capacity overflow and stdout/stderr write failures are outside the claim",
        "allowlisted sites (tables/safe_sites.json) are safe for the one-line semantic reason recorded with each exact key",
        "a guard is recognised only if a SwitchInt edge establishing it dominates the use and no write to the tested place can reach the use without re-crossing it"]
    chk.undecided = ["stalled peers / timing", "that the bytes written form a complete response is C05's concern"]
    return chk.finish()


def _producer(du, v, depth=0):
    """name of the call that produced the buffer a write sends (through Borrow::borrow / deref / as_slice views)"""
    if depth > 8:
        return None
    if v[0] == "call":
        from ..dataflow import is_view_call
        if is_view_call(v[1]) or (v[1] and "borrow" in v[1]):
            return _producer(du, v[2][0], depth + 1) if v[2] else None
        return v[1]
    if v[0] == "ref":
        base = v[1]
        while base[1] and base[1][-1] == "*":
            base = (base[0], base[1][:-1])
        vv = du.val_place(base)
        if vv[0] in ("call",):
            return _producer(du, vv, depth + 1)
        return None
    if v[0] == "place":
        vv = du.val_place(v[1])
        if vv != v:
            return _producer(du, vv, depth + 1)
    return None


def _producers_by_def(du, v, depth=0):
    """[(producer, defining block)] for a buffer that has several definitions (one per arm of a match that merged before the write)"""
    if depth > 8:
        return []
    if v[0] == "call":
        from ..dataflow import is_view_call
        if (is_view_call(v[1]) or (v[1] and "borrow" in v[1])) and v[2]:
            return _producers_by_def(du, v[2][0], depth + 1)
        return [(v[1], v[3])]
    if v[0] in ("ref", "place"):
        base = v[1]
        while base[1] and base[1][-1] == "*":
            base = (base[0], base[1][:-1])
        if base[1]:
            return []
        vv = du.val_place(base)
        if vv[0] == "call":
            return _producers_by_def(du, vv, depth + 1)
        out = []
        for d in du.defs.get(base[0], []):
            if d[0] == "call":
                out.append((callee_name(d[3]) or d[3].get("callee"), d[1]))
            elif d[0] == "assign" and d[3]["k"] == "use" and d[3]["ops"][0].get("k") in ("copy", "move") and not d[3]["ops"][0]["p"]:
                sub = _producers_by_def(du, ("place", (d[3]["ops"][0]["l"], ())), depth + 1)
                if not sub:
                    return []
                out.extend(sub)
            elif d[0] == "assign" and d[3]["k"] == "use" and d[3]["ops"][0].get("k") in ("copy", "move") and _ok_payload(d[3]["ops"][0]["p"]):
                # `Ok(bytes) => bytes` of a helper's result (inlined, A11): the Ok(..) the helper builds; its early Err returns carry no bytes
                sub = []
                for d2 in du.defs.get(d[3]["ops"][0]["l"], []):
                    if d2[0] == "call" and (callee_name(d2[3]) or "").endswith("::from_residual"):
                        continue
                    if d2[0] == "assign" and d2[3]["k"] == "aggregate" and d2[3].get("variant") == "Err":
                        continue
                    if d2[0] == "assign" and d2[3]["k"] == "aggregate" and d2[3].get("variant") in ("Ok", "Some") and d2[3]["ops"] and d2[3]["ops"][0].get("k") in ("copy", "move") and not d2[3]["ops"][0]["p"]:
                        s2 = _producers_by_def(du, ("place", (d2[3]["ops"][0]["l"], ())), depth + 1)
                        if not s2:
                            return []
                        sub.extend(s2)
                    elif d2[0] == "assign" and d2[3]["k"] == "use" and d2[3]["ops"][0].get("k") in ("copy", "move") and not d2[3]["ops"][0]["p"]:
                        # the call's destination takes the inlined helper's return place
                        inner = []
                        for d3 in du.defs.get(d2[3]["ops"][0]["l"], []):
                            if d3[0] == "call" and (callee_name(d3[3]) or "").endswith("::from_residual"):
                                continue
                            if d3[0] == "assign" and d3[3]["k"] == "aggregate" and d3[3].get("variant") == "Err":
                                continue
                            if d3[0] == "assign" and d3[3]["k"] == "aggregate" and d3[3].get("variant") in ("Ok", "Some") and d3[3]["ops"] and d3[3]["ops"][0].get("k") in ("copy", "move") and not d3[3]["ops"][0]["p"]:
                                s3 = _producers_by_def(du, ("place", (d3[3]["ops"][0]["l"], ())), depth + 1)
                                if not s3:
                                    return []
                                inner.extend(s3)
                            else:
                                return []
                        sub.extend(inner)
                    else:
                        return []
                if not sub:
                    return []
                out.extend(sub)
            else:
                return []
        return out
    return []


def _ok_payload(proj):
    p = [e for e in proj if e != "*"]
    return len(p) == 2 and isinstance(p[0], dict) and p[0].get("d") in ("Ok", "Some") and isinstance(p[1], dict) and p[1].get("f") == 0


def _root_producer(du, place):
    c = du.canon(place)
    if c[1]:
        return None
    d = du.unique_def(c[0])
    if d and d[0] == "call":
        return callee_name(d[3]) or d[3].get("callee")
    return None
