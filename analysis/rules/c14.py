"""C14 — request parsing accepts exactly well-formed requests and round-trips them (4 structural clauses; equality not decided)."""
import re
from ..callgraph import callee_name
from ..cfg import cfg_of
from ..dataflow import du_of, place_key, val_ref_target
from ..framework import Check
from ..guards import guards_of, optres_root
from .parse_common import tests_dominating, ok_return_blocks, deep_mentions, const_field_list, vec_literal_len
from .c05 import const_str, _push_desc

HEADER_LINE_READERS = ("request::Request::parse_http_request_header_string", "response::Response::parse_http_response_header_string",
                       "response::Response::_parse_http_response_header_string")


def list_fields(F, fn, item):
    """(field names of constant struct `item` turned into list elements, length of the vec literal)"""
    du = du_of(fn)
    fields = []
    for bid, t in fn.calls():
        if t["args"]:
            v = du.val_operand(t["args"][0])
            if v[0] == "const" and (v[2] or "").startswith(item + "."):
                fields.append(v[2][len(item) + 1:].split(".")[0])
    sizes = [n for n, _ in vec_literal_len(fn)]
    return fields, (max(sizes) if sizes else 0)


def method_tables(F):
    """constants that are a list of METHOD strings: {const name: [strings]}"""
    mv = ((F.consts.get("request::METHOD") or {}).get("v") or {}).get("fields") or {}
    names = {v for v in mv.values() if isinstance(v, str)}
    out = {}
    for cn, c in F.consts.items():
        f = (c.get("v") or {}).get("fields") if isinstance(c.get("v"), dict) else None
        if isinstance(f, dict) and len(f) >= 5 and all(isinstance(x, str) and x in names for x in f.values()):
            out[cn] = [f[k] for k in sorted(f, key=lambda x: int(x) if str(x).isdigit() else 0)]
    return out


def items_mentioned(F, fn):
    """constant items read by the function, the helpers inlined into it, and their promoted constants"""
    from ..inline import IN_INFO
    owners = [fn.def_] + list(IN_INFO.get(id(fn), {}).get("callees", []))
    bodies = [fn] + [g for n, g in F.fns.items() if g.kind == "Promoted" and any(n.startswith(o + "::{promoted#") for o in owners)]
    out = set()
    for g in bodies:
        for b in g.blocks:
            for st in b["stmts"]:
                if st["k"] == "assign":
                    for o in st["rv"].get("ops", []):
                        if o.get("k") == "const" and o.get("item"):
                            out.add(o["item"])
            t = b["term"]
            if t["k"] == "call":
                for o in t["args"]:
                    if o.get("k") == "const" and o.get("item"):
                        out.add(o["item"])
    return out


def _call_block(du, v, name_part, depth=0):
    """block of the first call whose name contains name_part in the value expression (following single-definition locals)"""
    if depth > 14:
        return None
    if v[0] in ("ref", "place"):
        vv = du.val_place((v[1][0], ()))
        if vv != v and vv[0] != "place":
            return _call_block(du, vv, name_part, depth + 1)
        return None
    if v[0] == "call":
        if name_part in (v[1] or ""):
            return v[3]
        for a in v[2]:
            r = _call_block(du, a, name_part, depth + 1)
            if r is not None:
                return r
    if v[0] in ("unop", "cast"):
        return _call_block(du, v[2], name_part, depth + 1)
    return None


def run(ctx):
    F, G, R = ctx.F, ctx.G, ctx.R
    chk = Check("C14", ctx.tier, "Request-line validation dominates the Ok return; method/version lists are exhaustive; header lines are split at the first separator by all sibling readers using the serialiser's constant; lookup is case-insensitive; a non-UTF-8 head is an error.")
    chk.technique = "edge dominance of the Ok return by the validation tests, exhaustiveness against ADT definitions, sibling agreement on separator constant and split operation"
    chk.analysed = ctx.analysed_summary()

    # ---- R1 request-line validation
    r1 = chk.rule("R1-request-line-validated", "the Ok return of the request-line parser is dominated by: two split_once(..).is_none()==false edges, method-list membership true, version-list membership true", floor=4)
    from ..inline import is_private_helper
    rl = None
    mtables = method_tables(F)
    for fn0 in F.rws_fns():
        if fn0.kind == "Promoted" or is_private_helper(F, fn0.def_):
            continue
        fn = ctx.inl(fn0)     # the membership tests may live in private helpers (is_supported_method ..)
        cs = {callee_name(t) for _, t in fn.calls()}
        if "http::HTTP::version_list" in cs and ("request::Request::method_list" in cs or (mtables and items_mentioned(F, fn) & set(mtables))):
            rl = fn
    literal_done = False
    if rl is None:
        # the membership tests written against literals (`matches!(method, "GET" | "HEAD" | ..)`): the strings the parser compares with
        # must be exactly the Method and Version entries - one missing or misspelt entry refuses requests the serialiser writes
        cand = F.fns.get("request::Request::parse_method_and_request_uri_and_http_version_string")
        if cand is not None:
            ci = ctx.inl(cand)
            cdu = du_of(ci)
            compared = set()
            for _, t_ in ci.calls():
                cn_ = callee_name(t_) or ""
                if ("PartialEq" in cn_ or cn_.endswith("impl str>::eq")) and cn_.endswith(("::eq", "::ne")) and len(t_["args"]) == 2:
                    for a_ in t_["args"]:
                        v_ = cdu.val_operand(a_)
                        for _i in range(3):
                            if v_[0] in ("ref", "place"):
                                w_ = cdu.val_place((v_[1][0], ()))
                                if w_ != v_ and w_[0] != "place":
                                    v_ = w_
                        if v_[0] == "const" and isinstance(v_[1], str):
                            compared.add(v_[1])
            mvals = {v for v in (((F.consts.get("request::METHOD") or {}).get("v") or {}).get("fields") or {}).values() if isinstance(v, str)}
            vvals = {v for v in (((F.consts.get("http::VERSION") or {}).get("v") or {}).get("fields") or {}).values() if isinstance(v, str)}
            if mvals and vvals and len(compared & (mvals | vvals)) >= 6:
                literal_done = True
                missing = sorted((mvals | vvals) - compared)
                unknown = sorted(x for x in compared - mvals - vvals if x.upper().startswith("HTTP/") or x.isalpha() and x.isupper())
                ok = not missing and not unknown
                r1.instance({"fn": cand.def_, "form": "literal comparisons", "compared_with": sorted(compared), "entries_not_compared": missing, "literals_that_are_no_entry": unknown}, ok)
                r1.note("%s tests the method and the version against literals: the set of literals is checked against the Method / Version entries; that the tests dominate the Ok return is not decided for this form" % cand.def_)
                r1.floor = min(r1.floor, 1)
                for x in missing:
                    r1.violate("C14|R1|%s|literal-missing|%s" % (cand.def_, x), "%s compares the request line with literals and has none for %r, an entry of the Method / Version list: a request the serialiser writes with it is refused" % (cand.def_, x), cand.file, cand.span["line"], cand.def_)
                for x in unknown:
                    r1.violate("C14|R1|%s|literal-unknown|%s" % (cand.def_, x), "%s accepts the literal %r, which is no entry of the Method / Version list" % (cand.def_, x), cand.file, cand.span["line"], cand.def_)
    if rl is None and literal_done:
        pass
    elif rl is None:
        r1.violate("C14|R1|anchor-missing", "the request-line parser (caller of Request::method_list and HTTP::version_list) was not found")
    else:
        du = du_of(rl)
        uses_mtable = bool(mtables and items_mentioned(F, rl) & set(mtables))
        three_way = False
        for _, t_ in rl.calls():
            if (callee_name(t_) or "").endswith("impl str>::splitn") and len(t_["args"]) == 3:
                lim, pat = du.val_operand(t_["args"][1]), du.val_operand(t_["args"][2])
                if lim[0] == "const" and lim[1] == 3 and pat[0] == "const" and pat[1] == " ":
                    three_way = True
        oks = ok_return_blocks(rl)
        if not oks:
            r1.violate("C14|R1|%s|no-ok" % rl.def_, "%s never returns Ok" % rl.def_)
        for ob in oks:
            tests = tests_dominating(rl, ob)
            need = {
                "target present (first split_once is Some)": lambda c, tr, v: c.endswith("::is_none") and tr is False and deep_mentions(du, v, "split_once"),
                "known method": lambda c, tr, v: (c.endswith("::contains") or c.endswith("::any")) and tr is True and (deep_mentions(du, v, "method_list") or (uses_mtable and not deep_mentions(du, v, "version_list"))),
                "known version": lambda c, tr, v: (c.endswith("::contains") or c.endswith("::any")) and tr is True and deep_mentions(du, v, "version_list"),
            }
            # distinct split_once calls whose Some-ness dominates the Ok return
            nsplit = len({_call_block(du, v, "split_once") for c, tr, v, _ in tests if c.endswith("::is_none") and tr is False and deep_mentions(du, v, "split_once")})
            if three_way:
                # `splitn(3, ' ')`: three `next()` results known to be Some where Ok is returned
                from ..guards import guards_of as _guards_of
                g_ = _guards_of(rl)
                cfg_ = cfg_of(rl)
                nexts = set()
                for e, f in g_.facts():
                    if f[0] == "variant" and f[3] is True and cfg_.edge_dominates(e, ob):
                        pv = du.val_place(du.canon(f[1]))
                        if pv[0] == "call" and (pv[1] or "").endswith("::next") and "SplitN" in (pv[1] or ""):
                            nexts.add(pv[3])
                if len(nexts) >= 3:
                    nsplit = 2
                    need["target present (first split_once is Some)"] = lambda c, tr, v: True
            for label, pred in need.items():
                ok = any(pred(c, tr, v) for c, tr, v, _ in tests)
                r1.instance({"fn": rl.def_, "requirement": label, "dominates_ok_return": ok}, ok)
                if not ok:
                    r1.violate("C14|R1|%s|%s" % (rl.def_, label.split(" ")[0] + "-" + label.split(" ")[1]), "%s can return Ok without the test '%s'" % (rl.def_, label), rl.file, rl.span["line"], rl.def_)
            ok = nsplit >= 2
            r1.instance({"fn": rl.def_, "requirement": "both separators present (two split_once tests)", "count": nsplit}, ok)
            if not ok:
                r1.violate("C14|R1|%s|two-splits" % rl.def_, "%s accepts a request line with fewer than three space-separated parts (only %d split_once test(s) dominate Ok)" % (rl.def_, nsplit), rl.file, rl.span["line"], rl.def_)
        # membership through iter().any(closure): the closure is a plain equality
        for bid, t in rl.calls():
            if (callee_name(t) or "").endswith("::any"):
                for cn in t.get("fn_items", []):
                    cf = F.fns.get(cn)
                    if cf is None or cf.kind != "Closure":
                        continue
                    badc = [callee_name(ct) for _, ct in cf.calls() if not re.search(r"PartialEq|::deref|::as_str|::to_string|::clone|::borrow|::as_ref", callee_name(ct) or "")]
                    okc = not badc and any("PartialEq" in (callee_name(ct) or "") for _, ct in cf.calls())
                    r1.instance({"fn": rl.def_, "membership_closure": cn, "plain_equality": okc}, okc)
                    if not okc:
                        r1.violate("C14|R1|%s|membership-closure" % rl.def_, "%s tests list membership with a closure that is not a plain equality (%s)" % (rl.def_, badc), cf.file, cf.span["line"], rl.def_)
        # the line is split with split_once on a single space, not on arbitrary whitespace
        bad = [callee_name(t) for _, t in rl.calls() if re.search(r"impl str>::(split_whitespace|split_ascii_whitespace|splitn|split)$", callee_name(t) or "")
               and not (three_way and (callee_name(t) or "").endswith("::splitn"))]
        r1.instance({"fn": rl.def_, "tokeniser": "split_once(' ')", "other_tokenisers": bad}, ok=not bad)
        if bad:
            r1.violate("C14|R1|%s|tokeniser" % rl.def_, "%s tokenises the request line with %s: runs of blanks / tabs collapse, so malformed lines (missing target, double spaces) are accepted" % (rl.def_, bad), rl.file, rl.span["line"], rl.def_)
    r1b = chk.rule("R1b-lists-exhaustive", "the method list holds every field of the Method struct exactly once (9), the version list every field of Version (4)", floor=2)
    for lname, item, adt in (("request::Request::method_list", "request::METHOD", "request::Method"), ("http::HTTP::version_list", "http::VERSION", "http::Version")):
        fn = F.fns.get(lname)
        a = F.adts.get(adt)
        if fn is None or a is None:
            r1b.violate("C14|R1b|anchor-missing|%s" % lname, "%s / %s not found" % (lname, adt))
            continue
        want = [f["name"] for f in a["variants"][0]["fields"]]
        got, veclen = list_fields(F, fn, item)
        if not got and lname.endswith("method_list"):
            # the list is produced from a constant table of the method strings
            mt = method_tables(F)
            used = sorted(items_mentioned(F, ctx.inl(fn)) & set(mt))
            if len(used) == 1:
                mv = ((F.consts.get(item) or {}).get("v") or {}).get("fields") or {}
                by_val = {v_: k_ for k_, v_ in mv.items()}
                got, veclen = [by_val.get(x, "?") for x in mt[used[0]]], len(mt[used[0]])
        ok = sorted(got) == sorted(want) and veclen == len(want)
        r1b.instance({"list": lname, "fields": got, "vec_len": veclen, "struct_fields": len(want)}, ok)
        if not ok:
            r1b.violate("C14|R1b|%s" % lname, "%s lists %s (vec of %d) but %s has fields %s" % (lname, sorted(got), veclen, adt, sorted(want)), fn.file, fn.span["line"], lname)

    # ---- R2 header split agreement
    r2 = chk.rule("R2-header-split-at-first-separator", "every header-line reader splits with split_once / splitn(2) on the NAME_VALUE_SEPARATOR constant the serialisers write; none indexes a full split", floor=3)
    sep = (F.consts.get("header::Header::NAME_VALUE_SEPARATOR") or {}).get("v")
    if not isinstance(sep, str):
        r2.violate("C14|R2|anchor-missing|separator", "Header::NAME_VALUE_SEPARATOR not found")
    for name in HEADER_LINE_READERS:
        fn = F.fns.get(name)
        if fn is None:
            r2.violate("C14|R2|anchor-missing|%s" % name, "header-line reader %s not found (sibling missing)" % name)
            continue
        du = du_of(fn)
        ops = []
        for bid, t in fn.calls():
            c = callee_name(t) or ""
            m = re.search(r"impl str>::(split_once|splitn|split|rsplit_once|rsplit|split_terminator)$", c)
            if m and len(t["args"]) >= 2:
                pat = du.val_operand(t["args"][-1])
                limit = None
                if m.group(1) == "splitn" and len(t["args"]) == 3:
                    lv = du.val_operand(t["args"][1])
                    limit = lv[1] if lv[0] == "const" else None
                ops.append((m.group(1) + ("(%s)" % limit if m.group(1) == "splitn" else ""), pat[1] if pat[0] == "const" else None, pat[2] if pat[0] == "const" else None, t["span"]["line"]))
        good = [o for o in ops if o[0] in ("split_once", "splitn(2)") and o[1] == sep]
        bad = [o for o in ops if o[0] in ("split", "rsplit", "rsplit_once", "split_terminator") or (o[0].startswith("splitn") and o[0] != "splitn(2)") or (o[0] in ("split_once", "splitn(2)") and o[1] != sep)]
        ok = bool(good) and not bad
        r2.instance({"reader": name, "operations": [(o[0], o[1]) for o in ops]}, ok)
        if not ok:
            r2.violate("C14|R2|%s" % name, "%s splits the header line with %s (separator %r expected, first occurrence only): a value containing the separator is cut or the line is mis-split" % (name, [(o[0], o[1]) for o in ops], sep),
                       fn.file, (ops[0][3] if ops else fn.span["line"]), name)
    # the name and the value are stored as written: only the line terminator is removed
    r2t = chk.rule("R2t-header-text-kept-verbatim", "no header-line reader (private helpers inlined) applies a whitespace trim or a case conversion to the line, the name or the value: only CR / LF are deleted, so a value with leading / trailing blanks or an empty value reads back as it was written", floor=3)
    for name in HEADER_LINE_READERS:
        fn0 = F.fns.get(name)
        if fn0 is None:
            continue
        fi = ctx.inl(fn0)
        alters = sorted({(callee_name(t) or "").rsplit("::", 1)[-1] for _, t in fi.calls()
                         if re.search(r"impl str>::(trim|trim_end|trim_start|trim_matches|trim_end_matches|trim_start_matches|trim_ascii|trim_ascii_end|trim_ascii_start|to_lowercase|to_uppercase|to_ascii_lowercase|to_ascii_uppercase)$", callee_name(t) or "")})
        ok = not alters
        r2t.instance({"reader": name, "altering_calls": alters}, ok)
        if not ok:
            r2t.violate("C14|R2t|%s" % name, "%s applies %s to the header text: a value that ends in a blank, or an empty value after ': ', is not read back as it was written" % (name, alters), fn0.file, fn0.span["line"], name)
    # serialisers write the same constant between name and value
    for sname in ("request::Request::_generate_request", "response::Response::generate_response", "response::Response::generate"):
        fn = F.fns.get(sname)
        if fn is None:
            r2.violate("C14|R2|anchor-missing|%s" % sname, "serialiser %s not found" % sname)
            continue
        from .c05 import emission_sequences
        fn = ctx.inl(fn)        # the header loop may be a private helper (append_header_lines)
        seqs = emission_sequences(ctx, fn)
        pat = ["field:name", "const:" + (sep or "?"), "field:value", "const:\r\n"]
        ok = any(q[i:i + 4] == pat for q in seqs for i in range(len(q)))
        seq = max(seqs, key=len) if seqs else []
        r2.instance({"serialiser": sname, "writes": "name, %r, value, CRLF" % sep, "found": ok}, ok)
        if not ok:
            r2.violate("C14|R2|%s|writer" % sname, "%s does not append each header as name, %r, value, CRLF (pushes: %s): reader and writer disagree, or a header-less message gets a different framing" % (sname, sep, seq[:10]), fn.file, fn.span["line"], sname)

    # ---- R3 case-insensitive lookup
    r3 = chk.rule("R3-lookup-ignores-case", "the header lookup closure lowercases both the stored and the requested name before comparing them for equality", floor=1)
    for gname in ("request::Request::get_header",):
        gfn = F.fns.get(gname)
        closures = [F.fns[e.dst] for e in G.out.get(gname, []) if e.dst in F.fns and F.fns[e.dst].kind == "Closure"]
        if gfn is None:
            r3.violate("C14|R3|anchor-missing|%s" % gname, "%s not found" % gname)
            continue
        # the comparison sits in a `find` closure or in an explicit loop of the function itself (a hoisted `name.to_lowercase()` counts)
        all_calls = [t for _, t in ctx.inl(gfn).calls()] + [t for cf in closures for _, t in cf.calls()]
        folds = [callee_name(t) or "" for t in all_calls if re.search(r"impl str>::(to_lowercase|to_uppercase|to_ascii_lowercase|to_ascii_uppercase)$|eq_ignore_ascii_case$", callee_name(t) or "")]
        nlow = len(folds)
        eq = any("PartialEq" in (callee_name(t) or "") or (callee_name(t) or "").endswith("eq_ignore_ascii_case") for t in all_calls)
        ok = eq and (nlow >= 2 or any(x.endswith("eq_ignore_ascii_case") for x in folds))
        r3.instance({"lookup": gname, "closures": [c.def_ for c in closures], "case_folding_calls": nlow, "equality": eq}, ok)
        if not ok:
            r3.violate("C14|R3|%s" % gname, "%s compares header names without folding the case of both sides" % gname, gfn.file, gfn.span["line"], gname)

    # every other lookup of a request header by name folds the case too (a sibling of get_header must agree with it)
    for hn, hf in sorted(F.fns.items()):
        if hf.crate != "rws" or hf.kind == "Promoted" or not hn.startswith("request::Request::") or hn.startswith("request::Request::get_header::") or hn == "request::Request::get_header":
            continue
        bodies = [ctx.inl(hf)] if hf.kind != "Closure" else [hf]
        cmp_name = False
        folds = 0
        for body in bodies:
            bdu = du_of(body)
            for _, t in body.calls():
                c = callee_name(t) or ""
                if re.search(r"impl str>::(to_lowercase|to_uppercase|to_ascii_lowercase|to_ascii_uppercase)$|eq_ignore_ascii_case$", c):
                    folds += 2 if c.endswith("eq_ignore_ascii_case") else 1
                if "PartialEq" in c and c.endswith(("::eq", "::ne")):
                    if any(bdu.val_operand(a)[0] == "const" for a in t["args"]):
                        continue        # a header looked for by a constant name is not a lookup by the caller's spelling
                    for a in t["args"]:
                        v = bdu.val_operand(a)
                        hops = 0
                        while v[0] == "call" and v[2] and hops < 4:
                            v, hops = v[2][0], hops + 1
                        if v[0] in ("ref", "place") and any(isinstance(e, tuple) and e[0] == "f" and e[2] == "name" for e in v[1][1]) and "header::Header" in " ".join(body.local_ty(l_) or "" for l_ in [v[1][0]]):
                            cmp_name = True
        if not cmp_name:
            continue
        # the closure's folding calls may sit in the closure or in the function that owns it
        owner = F.fns.get(hf.parent) if hf.kind == "Closure" and hf.parent in F.fns else None
        if owner is not None:
            folds += len([1 for _, t in owner.calls() if re.search(r"impl str>::(to_lowercase|to_ascii_lowercase)$", callee_name(t) or "")])
        ok = folds >= 2
        r3.instance({"lookup": hn, "compares_header_name": True, "case_folding_calls": folds}, ok)
        if not ok:
            r3.violate("C14|R3|%s" % hn, "%s compares a header's name with the requested name without folding the case of both sides: it disagrees with get_header for `x-forwarded-for` vs `X-Forwarded-For`" % hn, hf.file, hf.span["line"], hn)

    # ---- R4 non-UTF-8 head is an error
    r4 = chk.rule("R4-non-utf8-head-is-error", "in the line reader the from_utf8(..).is_err() edge leads to an Err return", floor=1)
    cr = F.fns.get("request::Request::cursor_read")
    if cr is None:
        r4.violate("C14|R4|anchor-missing", "Request::cursor_read not found")
    else:
        cr = ctx.inl(cr)      # the line reader may be a private helper (read_head_line)
        cfg = cfg_of(cr)
        du = du_of(cr)
        g = guards_of(cr)
        found = False
        for bid, t in cr.calls():
            if callee_name(t) == "std::string::String::from_utf8":
                root, inv = optres_root(du, place_key(t["dest"]))
                err_edges = [e for e, f in g.facts() if f[0] == "variant" and f[1] == root and f[3] is (True if inv else False)]
                for e in err_edges:
                    # on the paths that are feasible after the Err edge (a helper's `Err(..)` return is matched / `?`-ed by the caller)
                    # the function returns, and never through a block that builds `Ok(..)` as its result
                    from .. import loops as L
                    region = L.feasible_reach(cfg, e)
                    if region is None:
                        region = cfg.reachable_from(e[1])
                    builds_ok = [b for b in region if any(s["k"] == "assign" and s["place"]["l"] == 0 and not s["place"]["p"] and s["rv"]["k"] == "aggregate" and s["rv"].get("variant") == "Ok" for s in cfg.blocks[b]["stmts"])]
                    ok = not builds_ok and any(r_ in region for r_ in cfg.return_blocks())
                    found = True
                    r4.instance({"fn": cr.def_, "from_utf8_line": t["span"]["line"], "err_edge_returns_Err": ok}, ok)
                    if not ok:
                        r4.violate("C14|R4|%s" % cr.def_, "%s: a line that is not valid UTF-8 does not lead to an Err return" % cr.def_, cr.file, t["span"]["line"], cr.def_)
        if not found:
            r4.violate("C14|R4|%s|no-utf8-test" % cr.def_, "%s no longer tests from_utf8(..) for an error" % cr.def_, cr.file, cr.span["line"], cr.def_)
    chk.assumptions += ["the request line is the first line read by cursor_read; the tests named are the only gates of its Ok return"]
    chk.undecided = ["equality of re-parsed headers and body with the original (round trip); that every accepted method/version string is upper-cased consistently"]
    # ---- R5 the reader reports what its sub-readers report
    r5 = chk.rule("R5-reader-errors-are-reported", "in every function reachable from Request::parse that returns Result: the Err of a crate function it calls (established by is_err / match / ?) does not reach an Ok return on a feasible path (reviewed recoveries: tables/error_recovery.json)", floor=2)
    from .parse_common import swallowed_errors
    rec = {(e["fn"], e["callee"]): e for e in ctx.table("error_recovery")["recoveries"]}
    for fnn in sorted(G.reachable([n for n in ("request::Request::parse",) if n in F.fns])):
        fn0 = F.fns.get(fnn)
        if fn0 is None or fn0.crate != "rws" or fn0.kind in ("Promoted", "Closure") or not (fn0.ret or "").startswith("std::result::Result<"):
            continue
        bad = {(c, bid) for c, line, bid in swallowed_errors(ctx, fn0)}
        kk = 0
        for bid, t in fn0.calls():
            c = callee_name(t) or ""
            g2 = F.fns.get(c)
            if g2 is None or g2.crate != "rws" or not (g2.ret or "").startswith("std::result::Result<"):
                continue
            ok = (c, bid) not in bad or (fnn, c) in rec
            r5.instance({"fn": fnn, "callee": c, "line": t["span"]["line"]} if not ok else None, ok)
            if not ok:
                kk += 1
                r5.violate("C14|R5|%s|%s|%d" % (fnn, c, kk), "%s: the Err of %s (line %d) can reach an Ok return: what the sub-reader rejects is accepted by the caller" % (fnn, c, t["span"]["line"]), t["span"]["file"], t["span"]["line"], fnn)
    return chk.finish()
