"""C12 — effective settings: command line over config file over environment over defaults (table agreement + order)."""
import os, re
from ..callgraph import callee_name
from ..cfg import cfg_of
from ..dataflow import du_of, place_key, val_ref_target
from ..framework import Check
from ..guards import guards_of, optres_root
from ..taint import local_deps
from .c05 import const_str
from .c11 import env_const_of

ENV_WRITERS = ("std::env::set_var",)


def const_item(v):
    """item path of a constant value expression (through to_string etc.)"""
    if v[0] == "const":
        return v[2]
    if v[0] == "call" and v[2]:
        return const_item(v[2][0])
    if v[0] in ("cast",):
        return const_item(v[2])
    return None


def _mapped_table(F, fn):
    """the flag table written as data: `CONST_ARRAY_OF_TUPLES.iter().map(|(a, b, c, ..)| CommandLineArgument { short_form: a.., .. }).collect()`.
    Returns the entries (same shape as the aggregate style) or None."""
    if "CommandLineArgument" not in (fn.ret or ""):
        return None
    du = du_of(fn)
    for bid, t in fn.calls():
        if (callee_name(t) or "") != "std::iter::Iterator::map" or not t["args"]:
            continue
        recv = du.val_operand(t["args"][0])
        rows = None
        v = recv
        for _ in range(6):
            if v[0] == "call" and v[2]:
                v = v[2][0]
            elif v[0] == "cast":
                v = v[2]
            elif v[0] == "ref":
                nv = du.val_place(v[1])
                if nv == ("place", v[1]):
                    break
                v = nv
            else:
                break
        if v[0] == "const" and isinstance(v[1], dict) and "fields" in v[1]:
            rows = [v[1]["fields"][k] for k in sorted(v[1]["fields"], key=lambda x: int(x))]
        if not rows:
            continue
        for cn in t.get("fn_items", []):
            cf = F.fns.get(cn)
            if cf is None or cf.kind != "Closure":
                continue
            cdu = du_of(cf)
            for b in cf.blocks:
                for st in b["stmts"]:
                    if st["k"] == "assign" and st["rv"]["k"] == "aggregate" and (st["rv"].get("adt") or "").endswith("CommandLineArgument"):
                        d = dict(zip(st["rv"]["fields"], st["rv"]["ops"]))
                        col = {}
                        for fld in ("short_form", "long_form", "environment_variable"):
                            fv = cdu.val_operand(d[fld])
                            while fv[0] == "call" and fv[2]:
                                fv = fv[2][0]
                            idx = [p[1] for p in (fv[1][1] if fv[0] in ("ref", "place") else ()) if isinstance(p, tuple) and p[0] == "f"]
                            if fv[0] not in ("ref", "place") or fv[1][0] != 2 or len(idx) != 1:
                                return None
                            col[fld] = str(idx[0])
                        out = []
                        for row in rows:
                            f = row.get("fields", {}) if isinstance(row, dict) else {}
                            out.append({"short": f.get(col["short_form"]), "long": f.get(col["long_form"]), "var": f.get(col["environment_variable"]), "var_item": None, "line": st["span"]["line"]})
                        return out
    return None


def _pair_table(fn):
    """rows [(a, b)] of a constant array of >= 8 string pairs that fn iterates (`for (variable, default) in DEFAULT_VALUES`), with the
    block of the iterator call; None when fn does not iterate such a table"""
    du = du_of(fn)
    for bid, t in fn.calls():
        c = callee_name(t) or ""
        if not (c.endswith("::into_iter") or c.endswith("::iter")) or not t["args"]:
            continue
        v = du.val_operand(t["args"][0])
        while v[0] in ("cast",):
            v = v[2]
        if v[0] in ("ref", "place"):
            v = du.val_place((v[1][0], tuple(e for e in v[1][1] if e != "*")))
        if v[0] == "const" and isinstance(v[1], dict) and isinstance(v[1].get("fields"), dict) and len(v[1]["fields"]) >= 8:
            rows = []
            for k in sorted(v[1]["fields"], key=lambda x: int(x) if str(x).isdigit() else 0):
                e = v[1]["fields"][k]
                f = e.get("fields") if isinstance(e, dict) else None
                if not (isinstance(f, dict) and isinstance(f.get("0"), str) and isinstance(f.get("1"), str)):
                    rows = None
                    break
                rows.append((f["0"], f["1"]))
            if rows:
                return rows, bid
    return None


def run(ctx):
    F, G, R = ctx.F, ctx.G, ctx.R
    chk = Check("C12", ctx.tier, "Fold order defaults < environment < file < command line; flag table complete, distinct and paired with the setting constants; defaults guarded and paired; every documented spelling reaches a table entry; writers unconditional; getters read their own variables.")
    chk.technique = "constant/table extraction from MIR aggregates, call-order (dominance) checks, dataflow pairing, comparison with the repository's documentation files"
    chk.analysed = ctx.analysed_summary()
    repo = ctx.repo

    # ---- setting name constants
    names = {}
    defaults = {}
    for path, c in F.consts.items():
        m = re.fullmatch(r"entry_point::Config::(RWS_CONFIG_\w+)", path)
        if not m or not isinstance(c.get("v"), str):
            continue
        n = m.group(1)
        if n.endswith("_DEFAULT_VALUE"):
            defaults[n[:-len("_DEFAULT_VALUE")]] = c["v"]
        else:
            names[n] = c["v"]
    r0 = chk.rule("anchors", "11 setting-name constants whose value is their own name, each with a *_DEFAULT_VALUE constant", floor=11)
    for n, v in sorted(names.items()):
        ok = v == n and n in defaults
        r0.instance({"setting": n, "default": defaults.get(n)}, ok)
        if not ok:
            r0.violate("C12|anchors|%s" % n, "setting constant %s has value %r / no default constant" % (n, v))

    # ---- roles
    def calls(fn, pred):
        return [(bid, t) for bid, t in fn.calls() if pred(callee_name(t) or "")]
    from ..inline import is_private_helper
    # roles are recognised on bodies with private helpers inlined (A11), and a private helper is never a role itself:
    # `set_default_if_absent(name, default)` called eleven times is still the defaults function's work
    all_fns = [f for f in F.rws_fns() if f.kind != "Promoted"]
    fns = [ctx.inl(f) for f in all_fns if not is_private_helper(F, f.def_)]
    role = {}
    for fn in fns:
        nset = len(calls(fn, lambda c: c == "std::env::set_var"))
        if nset >= 8 or (nset >= 1 and _pair_table(fn) is not None):
            role["defaults"] = fn
        if calls(fn, lambda c: c == "std::env::args"):
            role["cli"] = fn
        if calls(fn, lambda c: c == "std::fs::read_to_string") and any(callee_name(t) in F.fns and "config" in callee_name(t) for _, t in fn.calls()):
            role["file"] = fn
        aggs = [s for b in fn.blocks for s in b["stmts"] if s["k"] == "assign" and s["rv"]["k"] == "aggregate" and (s["rv"].get("adt") or "").endswith("CommandLineArgument")]
        if len(aggs) >= 8 or (_mapped_table(F, fn) is not None):
            role["table"] = fn
        nvar = len({const_str(du_of(fn).val_operand(t["args"][0])) for _, t in calls(fn, lambda c: c == "std::env::var") if t["args"]})
        if nvar >= 8 and nset == 0 and not calls(fn, lambda c: c == "std::vec::Vec::<T, A>::push") and fn.ret == "()":
            role.setdefault("env", fn)
        if nvar < 8 and nset == 0 and fn.ret == "()":
            # the same report driven by a constant table of the setting names (`NAMES.iter().filter_map(|n| env::var(n).ok()..)`)
            from .c14 import items_mentioned
            tabs = []
            for item in items_mentioned(F, fn):
                f_ = ((F.consts.get(item) or {}).get("v") or {}).get("fields") if isinstance((F.consts.get(item) or {}).get("v"), dict) else None
                if isinstance(f_, dict) and len([x for x in f_.values() if isinstance(x, str) and x in names]) >= 8:
                    tabs.append(item)
            reads = any(callee_name(t_) == "std::env::var" for cn_, cf_ in F.fns.items() if cf_.kind == "Closure" and cn_.startswith(fn.def_ + "::{closure") for _, t_ in cf_.calls()) \
                or bool(calls(fn, lambda c: c == "std::env::var"))
            if tabs and reads and not calls(fn, lambda c: c == "std::vec::Vec::<T, A>::push"):
                role.setdefault("env", fn)
        if nset == 1 and fn.nargs == 2:
            role["setter"] = fn
    for fn in fns:
        cs = {callee_name(t) for _, t in fn.calls()}
        if "cli" in role and "file" in role and role["cli"].def_ in cs and role["file"].def_ in cs:
            role["bootstrap"] = fn
    for fn in fns:
        cs = {callee_name(t) for _, t in fn.calls()}
        if "defaults" in role and "bootstrap" in role and role["defaults"].def_ in cs and role["bootstrap"].def_ in cs:
            role["setup"] = fn
    for need in ("defaults", "cli", "file", "env", "table", "setter", "bootstrap", "setup"):
        if need not in role:
            r0.violate("C12|anchors|role-%s" % need, "the %s function could not be identified by its role (anchor missing; fail closed)" % need)
    if any(x not in role for x in ("defaults", "cli", "file", "env", "table", "setter", "bootstrap", "setup")):
        return chk.finish()
    chk.analysed["roles"] = {k: v.def_ for k, v in role.items()}

    # ---- R1 fold order
    r1 = chk.rule("R1-fold-order", "set-up calls defaults before bootstrap; bootstrap calls the environment, file and command-line stages in that order on its single path", floor=3)

    def order_in(fn, seq):
        cfg = cfg_of(fn)
        blocks = []
        for name in seq:
            bs = [bid for bid, t in fn.calls() if callee_name(t) == name]
            if len(bs) != 1:
                return False, "%s is called %d times in %s" % (name, len(bs), fn.def_)
            blocks.append(bs[0])
        for a, b in zip(blocks, blocks[1:]):
            if not (cfg.node_dominates(a, b) and not cfg.can_reach(b, a) and a != b):
                return False, "call order not enforced between blocks %d and %d" % (a, b)
        rets = cfg.return_blocks()
        for b in blocks:
            reach = cfg.reachable_from(cfg.entry, removed_nodes=[b])
            if any(r_ in reach for r_ in rets):
                return False, "a path skips the call in bb%d" % b
        return True, ""
    ok, why = order_in(role["setup"], [role["defaults"].def_, role["bootstrap"].def_])
    r1.instance({"fn": role["setup"].def_, "order": ["defaults", "bootstrap"]}, ok)
    if not ok:
        r1.violate("C12|R1|setup-order", "%s: defaults must be installed before the bootstrap stages run (%s)" % (role["setup"].def_, why), role["setup"].file, role["setup"].span["line"], role["setup"].def_)
    ok, why = order_in(role["bootstrap"], [role["env"].def_, role["file"].def_, role["cli"].def_])
    r1.instance({"fn": role["bootstrap"].def_, "order": ["environment", "file", "command line"]}, ok)
    if not ok:
        r1.violate("C12|R1|bootstrap-order", "%s: stages must run in the order environment, config file, command line so that later sources overwrite earlier ones (%s)" % (role["bootstrap"].def_, why), role["bootstrap"].file, role["bootstrap"].span["line"], role["bootstrap"].def_)
    # the accept loop starts after set-up in main
    if R.main and R.accept_loops:
        mfn = F.fns[R.main]
        ok, why = order_in(mfn, [role["setup"].def_, R.accept_loops[0]])
        r1.instance({"fn": R.main, "order": ["setup", "accept loop"]}, ok)
        if not ok:
            r1.violate("C12|R1|main-order", "main must run set-up before the accept loop (%s)" % why, mfn.file, mfn.span["line"], R.main)

    # ---- R2 flag table
    r2 = chk.rule("R2-flag-table", "the flag table has one entry per setting with pairwise distinct short forms, long forms and variables", floor=11)
    tfn = role["table"]
    tdu = du_of(tfn)
    table = []
    mapped = _mapped_table(F, tfn)
    if mapped is not None:
        table = mapped
    for b in (tfn.blocks if mapped is None else []):
        for s in b["stmts"]:
            if s["k"] == "assign" and s["rv"]["k"] == "aggregate" and (s["rv"].get("adt") or "").endswith("CommandLineArgument"):
                d = dict(zip(s["rv"]["fields"], s["rv"]["ops"]))
                sv, lv, ev = tdu.val_operand(d["short_form"]), tdu.val_operand(d["long_form"]), tdu.val_operand(d["environment_variable"])
                table.append({"short": const_str(sv), "long": const_str(lv), "var": const_str(ev), "var_item": const_item(ev), "line": s["span"]["line"]})
    for col in ("short", "long", "var"):
        vals = [e[col] for e in table]
        for e in table:
            ok = e[col] is not None and vals.count(e[col]) == 1
            if col == "var":
                ok = ok and e["var"] in names
            r2.instance({"entry": e, "column": col}, ok) if col == "var" else None
            if not ok:
                r2.violate("C12|R2|%s|%s" % (col, e[col]), "flag table entry at line %d: %s %r is %s" % (e["line"], col, e[col], "not a setting variable" if (col == "var" and e[col] not in names) else "duplicated or not a constant"), tfn.file, e["line"], tfn.def_)
    for n in sorted(names):
        if n not in [e["var"] for e in table]:
            r2.violate("C12|R2|missing|%s" % n, "setting %s has no flag table entry: it cannot be set from the config file or the command line" % n, tfn.file, tfn.span["line"], tfn.def_)
    # the table function returns the vector it pushed every entry into (every aggregate is pushed)
    npush = len([1 for _, t in tfn.calls() if callee_name(t) == "std::vec::Vec::<T, A>::push"])
    if mapped is not None:
        npush = len(table) if any((callee_name(t) or "") == "std::iter::Iterator::collect" for _, t in tfn.calls()) else 0
    if npush < len(table):
        r2.violate("C12|R2|not-pushed", "%d flag entries are built but only %d are pushed into the table" % (len(table), npush), tfn.file, tfn.span["line"], tfn.def_)

    # ---- R3 defaults
    r3 = chk.rule("R3-defaults-paired-and-guarded", "each set_var(N, V) of the defaults function has V = N_DEFAULT_VALUE and is guarded by env::var(N).is_ok() == false for the same N; documented defaults equal the constants", floor=11)
    dfn = role["defaults"]
    ddu = du_of(dfn)
    dcfg = cfg_of(dfn)
    dg = guards_of(dfn)
    seen_n = set()
    ptab = _pair_table(dfn)
    if ptab is not None:
        # table form: `for (variable, default) in TABLE { match env::var(variable) { Err(_) => set_var(variable, default), .. } }`
        rows, _ib = ptab
        by_value = {v_: n_ for n_, v_ in names.items()}
        # the one set_var of the loop takes both fields of the SAME element, on an edge where env::var of its first field is not Ok
        shape_ok = False
        for bid, t in dfn.calls():
            if callee_name(t) != "std::env::set_var" or len(t["args"]) < 2:
                continue
            a0, a1 = ddu.val_operand(t["args"][0]), ddu.val_operand(t["args"][1])
            p0 = tuple(e for e in a0[1][1] if e != "*") if a0[0] in ("place", "ref") else ()
            p1 = tuple(e for e in a1[1][1] if e != "*") if a1[0] in ("place", "ref") else ()
            same_elem = a0[0] in ("place", "ref") and a1[0] == a0[0] and a0[1][0] == a1[1][0] and p0[:-1] == p1[:-1] \
                and p0 and p1 and p0[-1][:2] == ("f", 0) and p1[-1][:2] == ("f", 1)
            guarded = False
            for e_, f_ in dg.facts():
                if f_[0] == "variant" and f_[3] is False:
                    pv = ddu.val_place(ddu.canon(f_[1]))
                    if pv[0] == "call" and pv[1] == "std::env::var" and pv[2] and pv[2][0] == a0 and dcfg.edge_dominates(e_, bid):
                        guarded = True
            shape_ok = shape_ok or (same_elem and guarded)
        for a_, b_ in rows:
            n = by_value.get(a_)
            ok_pair = n is not None and defaults.get(n) == b_
            if n is not None:
                seen_n.add(n)
            r3.instance({"setting": n or a_, "default_in_table": b_, "guarded_by_unset_test": shape_ok, "form": "table"}, ok_pair and shape_ok)
            if not (ok_pair and shape_ok):
                r3.violate("C12|R3|%s" % (n or a_), "defaults table: the row (%r, %r) is %s" % (a_, b_, "not (setting, its own default)" if not ok_pair else "installed by a set_var that is not `set_var(row.0, row.1)` under 'env::var(row.0) is not Ok': it would overwrite a value from the environment"), dfn.file, dfn.span["line"], dfn.def_)
    for bid, t in dfn.calls():
        if callee_name(t) != "std::env::set_var" or ptab is not None:
            continue
        nv, vv = ddu.val_operand(t["args"][0]), ddu.val_operand(t["args"][1])
        ni, vi = const_item(nv) or "", const_item(vv) or ""
        n = ni.split("::")[-1]
        ok_pair = vi.split("::")[-1] == n + "_DEFAULT_VALUE" and n in names
        # guard: a switch on is_ok(env::var(N)) whose false edge dominates this block
        ok_guard = False
        # `if env::var(N).is_ok() == false`, `if env::var(N).is_err()`, `match env::var(N) { Err(_) => .. }`: all are an edge on
        # which the result of env::var(N) is known not to be Ok
        for e_, f_ in dg.facts():
            if f_[0] == "variant" and f_[3] is False:
                pv = ddu.val_place(ddu.canon(f_[1]))
                if pv[0] == "call" and pv[1] == "std::env::var" and pv[2] and const_str(pv[2][0]) == names.get(n) and dcfg.edge_dominates(e_, bid):
                    ok_guard = True
        seen_n.add(n)
        r3.instance({"setting": n, "value_item": vi.split("::")[-1], "guarded_by_unset_test": ok_guard}, ok_pair and ok_guard)
        if not (ok_pair and ok_guard):
            r3.violate("C12|R3|%s" % n, "defaults: set_var(%s, %s) is %s" % (n, vi.split("::")[-1], "paired with the wrong default constant" if not ok_pair else "not guarded by 'variable %s is unset': it would overwrite a value from the environment" % n),
                       t["span"]["file"], t["span"]["line"], dfn.def_)
    for n in sorted(set(names) - seen_n):
        r3.violate("C12|R3|missing|%s" % n, "no default is installed for %s" % n, dfn.file, dfn.span["line"], dfn.def_)
    spec = ctx.table("spec_config")
    doc = _read(repo, "CONFIGURE.md")
    for n, want in spec["documented_defaults"].items():
        ok = defaults.get(n) == want["value"] and want["doc_token"] in doc
        r3.instance({"documented_default": n, "constant": defaults.get(n), "documented": want["value"]}, ok)
        if not ok:
            r3.violate("C12|R3|documented|%s" % n, "documented default of %s is %r (CONFIGURE.md), the constant is %r" % (n, want["value"], defaults.get(n)), "CONFIGURE.md", 1)

    # ---- R4 documented spellings
    r4 = chk.rule("R4-documented-spellings", "every flag of rws.command_line, every key of rws.config.toml (mapped by '[table] key_name' -> '--table-key-name') and every variable of rws.variables matches a table entry", floor=40)
    longs = {e["long"] for e in table}
    shorts = {e["short"] for e in table}
    cl = _read(repo, "rws.command_line")
    for m in re.finditer(r"(?<![\w-])(--?)([A-Za-z][\w-]*)=", cl):
        dash, flag = m.group(1), m.group(2)
        ok = flag in (longs if dash == "--" else shorts)
        r4.instance({"file": "rws.command_line", "flag": dash + flag}, ok)
        if not ok:
            r4.violate("C12|R4|rws.command_line|%s%s" % (dash, flag), "rws.command_line documents %s%s, which matches no flag table entry: it is silently ignored" % (dash, flag), "rws.command_line", cl[:m.start()].count("\n") + 1)
    prefix = ""
    toml = _read(repo, "rws.config.toml")
    for ln, line in enumerate(toml.splitlines(), 1):
        line = line.split("#")[0].strip()
        if not line:
            continue
        if line.startswith("["):
            prefix = line.strip("[]").strip()
            continue
        if "=" in line:
            key = line.split("=")[0].strip().replace("_", "-")
            flag = (prefix + "-" + key) if prefix else key
            ok = flag in longs
            r4.instance({"file": "rws.config.toml", "key": line.split("=")[0].strip(), "table": prefix, "long_flag": flag}, ok)
            if not ok:
                r4.violate("C12|R4|rws.config.toml|%s" % flag, "rws.config.toml key %r (table %r) maps to --%s, which matches no flag table entry" % (line.split("=")[0].strip(), prefix, flag), "rws.config.toml", ln)
    varsf = _read(repo, "rws.variables")
    for m in re.finditer(r"^\s*export\s+(\w+)=", varsf, re.M):
        ok = m.group(1) in names
        r4.instance({"file": "rws.variables", "variable": m.group(1)}, ok)
        if not ok:
            r4.violate("C12|R4|rws.variables|%s" % m.group(1), "rws.variables documents %s, which is not a setting variable" % m.group(1), "rws.variables", varsf[:m.start()].count("\n") + 1)
    # every setting is documented in all three files
    for e in table:
        for what, ok in (("--" + (e["long"] or "?") + " in rws.command_line", ("--%s=" % e["long"]) in cl), ("-" + (e["short"] or "?") + " in rws.command_line", re.search(r"(?<![\w-])-%s=" % re.escape(e["short"] or "?"), cl) is not None),
                         ((e["var"] or "?") + " in rws.variables", ("export %s=" % e["var"]) in varsf)):
            r4.instance({"documented": what}, ok)
            if not ok:
                r4.violate("C12|R4|undocumented|%s" % what, "setting spelling %s is not documented" % what)

    # ---- R4b mapping anchors in the config-file reader and the matcher
    r4b = chk.rule("R4b-mapping-anchors", "the config reader maps '_' to '-' on the KEY only (the part before '='), joins '--', table, '-', key, '=', value; the matcher compares the parameter with '-'+short / '--'+long by equality", floor=3)
    reader = None
    for fn in fns:
        if any(callee_name(t) == role["table"].def_ for _, t in fn.calls()) and any((callee_name(t) or "").endswith("::lines") for _, t in fn.calls()):
            reader = fn
    if reader is None:
        r4b.violate("C12|R4b|anchor-missing|reader", "the config-file reader (iterates lines and consults the flag table) was not found")
    else:
        reader = ctx.inl(reader)          # the line -> argument conversion may sit in private helpers (A11)
        rdu = du_of(reader)
        key_replaces = []
        for bid, t in reader.calls():
            if callee_name(t) == "std::str::<impl str>::replace" and len(t["args"]) == 3:
                a, b = rdu.val_operand(t["args"][1]), rdu.val_operand(t["args"][2])
                if a[0] == "const" and a[1] == "_" and b[0] == "const" and b[1] == "-":
                    recv = rdu.val_operand(t["args"][0])
                    key_replaces.append((t, recv))
        ok = len(key_replaces) == 1
        where = None
        if ok:
            t, recv = key_replaces[0]
            # the receiver is element .0 of the tuple obtained from split_once('=')
            where = _tuple_elem_of_split(rdu, recv)
            ok = where == 0
        r4b.instance({"reader": reader.def_, "underscore_to_hyphen_applied_to": {0: "key", 1: "value", None: "something else"}.get(where, "something else"), "sites": len(key_replaces)}, ok)
        if not ok:
            r4b.violate("C12|R4b|%s|underscore-mapping" % reader.def_, "%s applies the '_' -> '-' mapping to %s instead of exactly the key before '=': values from the config file would be rewritten, so the same value means different things per source" % (
                reader.def_, "the value" if where == 1 else ("%d places" % len(key_replaces) if len(key_replaces) != 1 else "the whole line / another string")), reader.file, (key_replaces[0][0]["span"]["line"] if key_replaces else reader.span["line"]), reader.def_)
        consts = set()
        for b in reader.blocks:
            for s in b["stmts"]:
                if s["k"] == "assign" and s["rv"]["k"] == "aggregate" and s["rv"].get("agg") == "array":
                    for o in s["rv"]["ops"]:
                        v = rdu.val_operand(o)
                        if v[0] == "const" and isinstance(v[1], str):
                            consts.add(v[1])
        # ... or a formatter whose literal pieces carry them: format!("--{}-{}={}", table, key, value)
        from ..fmtargs import format_parts, FORMAT_FNS
        for bid, t in reader.calls():
            if callee_name(t) in FORMAT_FNS:
                fp = format_parts(rdu, rdu.val_call(t, 0, bid))
                if fp is not None:
                    for prt in fp[0]:
                        if prt[0] == "lit":
                            consts.add(prt[1])
                            consts.update(prt[1])
        ok = {"-", "="} <= consts
        r4b.instance({"reader": reader.def_, "join_constants": sorted(consts)}, ok)
        if not ok:
            r4b.violate("C12|R4b|%s|join" % reader.def_, "%s does not build '--[table-]key=value' from the '-' and '=' constants (saw %s)" % (reader.def_, sorted(consts)), reader.file, reader.span["line"], reader.def_)
    # matcher closure: equality only
    matcher_closures = [f for f in fns if f.kind == "Closure" and any(e.src and e.src.endswith("CommandLineArgument::_parse") for e in G.inn.get(f.def_, []))]
    if not matcher_closures:
        # the lookup written as an explicit loop inside _parse itself
        matcher_closures = [f for f in fns if f.def_.endswith("CommandLineArgument::_parse") and any("PartialEq" in (callee_name(t) or "") for _, t in f.calls())]
    # the lookup may be spread over closures and private helpers of _parse (`for_each(|..| find_by_flag(..))`, `find(|a| a.is_spelled(p))`):
    # the family is judged as one - no member may use a substring / prefix / case-folding test, and some member compares for equality
    family = []
    pname = next((f.def_ for f in fns if f.def_.endswith("CommandLineArgument::_parse")), None)
    if pname is not None and matcher_closures and all(f.kind == "Closure" for f in matcher_closures):
        stack, seen_f = [pname], {pname}
        while stack:
            x = stack.pop()
            for e in G.out.get(x, []):
                g_ = F.fns.get(e.dst)
                if g_ is not None and g_.crate == "rws" and e.dst not in seen_f and (g_.kind == "Closure" or is_private_helper(F, e.dst)):
                    seen_f.add(e.dst)
                    stack.append(e.dst)
                    family.append(ctx.inl(g_))
    fam_eq = any(re.search(r"(impl str>::eq|PartialEq.*::eq)", callee_name(t) or "") for f_ in family for _, t in f_.calls())
    if family and fam_eq:
        matcher_closures = [f_ for f_ in family if any(re.search(r"(impl str>::eq|PartialEq.*::eq)|impl str>::(contains|starts_with|ends_with|find|eq_ignore_ascii_case|to_lowercase|trim_start_matches)", callee_name(t) or "") for _, t in f_.calls())]
    for cf in matcher_closures:
        bad = [callee_name(t) for _, t in cf.calls() if re.search(r"impl str>::(contains|starts_with|ends_with|find|eq_ignore_ascii_case|to_lowercase|trim_start_matches)", callee_name(t) or "")]
        has_eq = any(re.search(r"(impl str>::eq|PartialEq.*::eq)", callee_name(t) or "") for _, t in cf.calls()) or (bool(family) and fam_eq and not bad)
        ok = has_eq and not bad
        r4b.instance({"matcher_closure": cf.def_, "equality": has_eq, "other_string_tests": bad}, ok)
        if not ok:
            r4b.violate("C12|R4b|%s|matcher" % cf.def_, "%s matches flags with %s instead of plain equality" % (cf.def_, bad or "no equality test"), cf.file, cf.span["line"], cf.def_)
    if not matcher_closures:
        r4b.violate("C12|R4b|anchor-missing|matcher", "the flag matcher closure of _parse was not found")

    # ---- R6 writers are unconditional
    r6 = chk.rule("R6-later-source-overwrites", "the setter reaches env::set_var on every path except the NUL-value refusal; the matcher's hit leads to the setter", floor=1)
    sfn = role["setter"]
    scfg = cfg_of(sfn)
    sdu = du_of(sfn)
    setb = [bid for bid, t in sfn.calls() if callee_name(t) == "std::env::set_var"]
    nul_edges = []
    for sb in scfg.live_blocks():
        st = scfg.blocks[sb]["term"]
        if st["k"] == "switch":
            v = sdu.val_operand(st["discr"])
            if v[0] == "call" and (v[1] or "").endswith("impl str>::contains"):
                for val, tb in st["targets"]:
                    if val == 0:
                        nul_edges.append((sb, st["otherwise"]))
    reach = scfg.reachable_from(scfg.entry, removed_nodes=setb, removed_edges=nul_edges)
    ok = not any(r_ in reach for r_ in scfg.return_blocks())
    r6.instance({"setter": sfn.def_, "set_var_on_every_accepting_path": ok}, ok)
    if not ok:
        path = scfg.find_path(scfg.entry, [r_ for r_ in scfg.return_blocks() if r_ in reach][0], removed_nodes=setb, removed_edges=nul_edges)
        r6.violate("C12|R6|%s|skips-write" % sfn.def_, "%s can return without writing the variable (blocks %s): a later source would then fail to override an earlier one" % (sfn.def_, path), sfn.file, sfn.span["line"], sfn.def_)

    # ---- R5 getters
    r5 = chk.rule("R5-getters-read-their-variables", "each start-up getter returns, per tuple position, a value read from the variable it is named for", floor=4)
    expect = {"entry_point::get_ip_port_thread_count": ["RWS_CONFIG_IP", "RWS_CONFIG_PORT", "RWS_CONFIG_THREAD_COUNT"],
              "entry_point::get_request_allocation_size": ["RWS_CONFIG_REQUEST_ALLOCATION_SIZE_IN_BYTES"]}
    for gname, want in expect.items():
        gfn = F.fns.get(gname)
        if gfn is None:
            r5.violate("C12|R5|anchor-missing|%s" % gname, "getter %s not found" % gname)
            continue
        gfn = ctx.inl(gfn)          # `read_number::<T>(VARIABLE)`: the env::var call may sit in a private helper (A11)
        gdu = du_of(gfn)
        ld = local_deps(gfn)
        # locals holding env::var(N) results
        src = {}
        for bid, t in gfn.calls():
            if callee_name(t) == "std::env::var" and t["args"]:
                src[t["dest"]["l"]] = const_str(gdu.val_operand(t["args"][0]))
        # every definition of the result (one per arm of a `match`): per tuple position, the operands that flow into it
        rets_all = []
        for b in gfn.blocks:
            if b.get("cleanup"):
                continue
            for s in b["stmts"]:
                if s["k"] == "assign" and s["place"]["l"] == 0 and not s["place"]["p"]:
                    if s["rv"]["k"] == "aggregate" and s["rv"].get("agg") == "tuple":
                        rets_all.append(s["rv"]["ops"])
                    elif s["rv"]["k"] == "use":
                        rets_all.append([s["rv"]["ops"][0]])
            t_ = b["term"]
            if t_["k"] == "call" and t_.get("dest") is not None and t_["dest"]["l"] == 0 and not t_["dest"]["p"]:
                rets_all.append([{"k": "copy", "l": 0, "p": []}])
        for i, w in enumerate(want):
            got = set()
            for rets in rets_all:
                if i < len(rets) and rets[i].get("k") in ("copy", "move"):
                    got |= {src[l] for l in ld.closure(rets[i]["l"]) if l in src}
            ok = got == {w}
            r5.instance({"getter": gname, "position": i, "reads": sorted(x for x in got if x)}, ok)
            if not ok:
                r5.violate("C12|R5|%s|%d" % (gname, i), "%s: tuple position %d is computed from %s, expected %s" % (gname, i, sorted(x for x in got if x), w), gfn.file, gfn.span["line"], gname)
    chk.assumptions += ["std::env::set_var / env::var behave as a single key-value store", "documentation files are read from the repository root; CONFIGURE.md states the defaults in prose (tokens listed in tables/spec_config.json)"]
    chk.undecided = ["parsing of quoting / arrays / whitespace in the TOML subset at value level"]
    return chk.finish()


def _read(repo, name):
    try:
        with open(os.path.join(repo, name), encoding="utf-8", errors="replace") as fh:
            return fh.read()
    except OSError:
        return ""


def _tuple_elem_of_split(du, v, depth=0):
    """0/1 when v is (a view of) element 0/1 of the tuple returned by split_once(..).unwrap(); None otherwise"""
    if depth > 8:
        return None
    if v[0] in ("place", "ref"):
        l, proj = v[1]
        idx = [p[1] for p in proj if isinstance(p, tuple) and p[0] == "f"]
        base = du.val_place((l, ()))
        if base[0] == "call" and (base[1] or "").endswith("::unwrap") and base[2]:
            inner = base[2][0]
            if inner[0] in ("place", "ref"):
                inner = du.val_place((inner[1][0], ()))
            if inner[0] == "call" and (inner[1] or "").endswith("split_once"):
                return idx[0] if idx else None
        if base[0] == "call" and (base[1] or "").endswith("split_once"):
            # `if let Some((key, value)) = line.split_once('=')`: ((opt as Some).0).k
            pos = [i for i, p in enumerate(proj) if isinstance(p, tuple) and p[0] == "d" and p[1] == "Some"]
            if pos:
                fs = [p[1] for p in proj[pos[0] + 1:] if isinstance(p, tuple) and p[0] == "f"]
                if len(fs) >= 2 and fs[0] == 0:
                    return fs[1]
        if not proj and base != v and base[0] != "place":
            return _tuple_elem_of_split(du, base, depth + 1)
        if idx and base[0] in ("place",):
            # a copy of the tuple element through another local
            d = du.unique_def(l)
            if d and d[0] == "assign" and d[3]["k"] == "use":
                o = d[3]["ops"][0]
                if o.get("k") in ("copy", "move"):
                    return _tuple_elem_of_split(du, ("place", place_key(o)), depth + 1)
        return None
    if v[0] == "call" and v[2]:
        return _tuple_elem_of_split(du, v[2][0], depth + 1)
    return None
