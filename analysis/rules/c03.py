"""C03 — byte-range requests return exactly the requested bytes (structural clauses; offset arithmetic not decided)."""
import re
from ..callgraph import callee_name
from ..cfg import cfg_of
from ..dataflow import du_of, place_key, val_ref_target
from ..framework import Check
from ..guards import strip_casts
from .. import loops as L
from .parse_common import tests_dominating, strip_not
from .c05 import status_entry_of, const_str, serialiser_clauses

SPEC_PARSER = "range::Range::parse_range_in_content_range"
HEADER_PARSER = "range::Range::parse_content_range"


def _cmp_desc(du, v):
    """('Gt', 'range.end', 'filelength') for a comparison of range fields / the file length parameter"""
    v = strip_casts(v)
    if v[0] != "binop" or v[1] not in ("Gt", "Ge", "Lt", "Le", "Eq", "Ne"):
        return None
    def side(x):
        x = strip_casts(x)
        if x[0] in ("place", "ref"):
            l, proj = x[1]
            fields = [p[2] for p in proj if isinstance(p, tuple) and p[0] == "f"]
            name = du.fn.local_name(l) or ("arg%d" % l if 1 <= l <= du.fn.nargs else "tmp")
            return ".".join([name] + fields)
        if x[0] == "const":
            return "const %s" % (x[1],)
        return x[0]
    return (v[1], side(v[2]), side(v[3]))


def _aggregate_form(ctx, r1, sp):
    from ..guards import guards_of
    from ..numeric import numeric_of
    cfg, du = cfg_of(sp), du_of(sp)
    num = numeric_of(sp, du, guards_of(sp))
    length = ("place", (1, ()))
    OPAQUE = re.compile(r"::(unwrap_or|unwrap_or_default|unwrap_or_else|saturating_sub|saturating_add|checked_sub|wrapping_sub|min|max|map_or)$")

    def opaque(v, depth=0):
        if depth > 8 or not isinstance(v, tuple):
            return False
        if v[0] == "call":
            return bool(OPAQUE.search(v[1] or "")) or any(opaque(a, depth + 1) for a in v[2])
        if v[0] in ("binop", "unop", "cast"):
            return any(opaque(a, depth + 1) for a in v[1:] if isinstance(a, tuple))
        return False
    n = 0
    for bid in cfg.live_blocks():
        for st in cfg.blocks[bid]["stmts"]:
            if st["k"] != "assign" or st["rv"]["k"] != "aggregate" or st["rv"].get("adt") != "range::Range":
                continue
            d = dict(zip(st["rv"]["fields"], st["rv"]["ops"]))
            if "start" not in d or "end" not in d:
                continue
            n += 1
            S, E = du.val_operand(d["start"]), du.val_operand(d["end"])
            for label, a, b in (("start<=end", S, E), ("end<=length", E, length)):
                proved = a == b or bool(num.prove_le(a, b, 0, bid))
                if proved:
                    r1.instance({"range_built_at_line": st["span"]["line"], "fact": label, "proved": True}, True)
                elif opaque(a) or opaque(b) or opaque(S) or opaque(E):
                    r1.instance({"range_built_at_line": st["span"]["line"], "fact": label, "proved": False, "undecided": "a bound is computed by a saturating / defaulting call the numeric engine does not model"}, True)
                    r1.note("Range built at line %d: %s not decided (bound computed by a saturating / defaulting call)" % (st["span"]["line"], label))
                else:
                    r1.instance({"range_built_at_line": st["span"]["line"], "fact": label, "proved": False}, False)
                    r1.violate("C03|R1|missing|%s|built-%d" % (label, n), "%s builds a Range (line %d) for which %s is not established by a dominating comparison: a range reaching outside the file, or reversed, would be read" % (sp.def_, st["span"]["line"], label), sp.file, st["span"]["line"], sp.def_)
    if n == 0:
        r1.violate("C03|R1|anchor-missing|no-range-built", "%s neither updates range.start / range.end nor builds a Range value (anchor missing)" % sp.def_, sp.file, sp.span["line"], sp.def_)
    r1.floor = min(r1.floor, 2)


def _rejection_reason_by_role(sp, err_block, reason):
    """aggregate form: the comparisons whose rejecting edge dominates an Err, read by the ROLE of their operands (a value that becomes the
    start / the end of a constructed Range, the file length) instead of by their names"""
    from ..guards import guards_of
    from ..numeric import numeric_of
    cfg, du = cfg_of(sp), du_of(sp)
    num = numeric_of(sp, du, guards_of(sp))
    starts, ends = [], []
    for bid in cfg.live_blocks():
        for st in cfg.blocks[bid]["stmts"]:
            if st["k"] == "assign" and st["rv"]["k"] == "aggregate" and st["rv"].get("adt") == "range::Range":
                d = dict(zip(st["rv"]["fields"], st["rv"]["ops"]))
                if "start" in d and "end" in d:
                    starts.append(du.val_operand(d["start"]))
                    ends.append(du.val_operand(d["end"]))
    length = ("place", (1, ()))

    def payload_of(v):
        """(option place aliases) when v is `(o as Some).0` or `o.unwrap_or(c)`"""
        v = strip_casts(v)
        if v[0] == "place" and len(v[1][1]) >= 2 and v[1][1][-2][0] == "d" and v[1][1][-2][1] == "Some":
            return [repr(x) for x in num._aliases((v[1][0], tuple(v[1][1][:-2])))]
        if v[0] == "call" and (v[1] or "").endswith("Option::<T>::unwrap_or") and v[2] and v[2][0][0] == "place":
            return [repr(x) for x in num._aliases(v[2][0][1])]
        return []

    def same(a, b):
        a, b = strip_casts(a), strip_casts(b)
        if a == b:
            return True
        num.use_block = err_block
        if num.lin(a) == num.lin(b) and num.lin(a)[0][0] != "val":
            return True
        pa, pb = payload_of(a), payload_of(b)
        return bool(pa and pb and set(pa) & set(pb))

    def roles(v):
        out = set()
        if same(v, length):
            out.add("length")
        if any(same(v, x) for x in starts):
            out.add("start")
        if any(same(v, x) for x in ends):
            out.add("end")
        return out
    other = []
    for sb in cfg.live_blocks():
        st = cfg.blocks[sb]["term"]
        if st["k"] != "switch":
            continue
        v, neg = strip_not(du, du.val_operand(st["discr"]))
        if v[0] != "binop" or v[1] not in ("Gt", "Lt", "Ge", "Le"):
            continue
        true_e = false_e = None
        for val, tb in st["targets"]:
            if val == 0:
                true_e, false_e = (sb, st["otherwise"]), (sb, tb)
        if true_e is None:
            continue
        if neg:
            true_e, false_e = false_e, true_e
        for edge, truth in ((true_e, True), (false_e, False)):
            if not cfg.edge_dominates(edge, err_block):
                continue
            # the relation that holds on this edge, written as big > small (strict) or big >= small
            op = v[1] if truth else {"Gt": "Le", "Le": "Gt", "Lt": "Ge", "Ge": "Lt"}[v[1]]
            big, small = (v[2], v[3]) if op in ("Gt", "Ge") else (v[3], v[2])
            rb, rs = roles(big), roles(small)
            if not (rb or rs):
                continue
            strict = op in ("Gt", "Lt")
            if strict and (("start" in rb or "end" in rb) and "length" in rs or ("start" in rb and "end" in rs)):
                reason = "%s > %s" % ("/".join(sorted(rb)), "/".join(sorted(rs)))
            elif not strict and (("length" in rb and ("start" in rs or "end" in rs)) or ("end" in rb and "start" in rs)):
                pass        # a bound check that was passed on the way (start <= end <= length holds for every valid range): not a reason
            else:
                other.append((op, "/".join(sorted(rb)) or "?", "/".join(sorted(rs)) or "?"))
    return reason, other


def run(ctx):
    F, G, R = ctx.F, ctx.G, ctx.R
    chk = Check("C03", ctx.tier, "Every definition of a range bound is followed by the three bound checks; rejections are enumerated and answer 416; 206 only with a Range header; the stored Range labels exactly the bytes read; serialisers label parts from the emitted element.")
    chk.technique = "must-pass-through (post-dominance inside the loop body) of the bound checks, enumeration of rejection edges, constant extraction of error statuses, same-origin dataflow between label and read"
    chk.analysed = ctx.analysed_summary()
    sp = F.fns.get(SPEC_PARSER)
    hp = F.fns.get(HEADER_PARSER)
    if sp is None or hp is None:
        r = chk.rule("anchors", "range-spec parser and range-header parser exist", floor=2)
        r.violate("C03|anchors", "range parsers not found (%s / %s)" % (SPEC_PARSER, HEADER_PARSER))
        return chk.finish()
    sp, hp = ctx.inl(sp), ctx.inl(hp)       # the bound checks / the 416 constructor may be private helpers (A11)
    cfg = cfg_of(sp)
    du = du_of(sp)

    # the three checks
    checks = {}
    for sb in cfg.live_blocks():
        st = cfg.blocks[sb]["term"]
        if st["k"] != "switch":
            continue
        v, neg = strip_not(du, du.val_operand(st["discr"]))
        d = _cmp_desc(du, v)
        if d is None:
            continue
        for val, tb in st["targets"]:
            if val == 0:
                true_e = (sb, st["otherwise"]) if not neg else (sb, tb)
        checks[sb] = (d, true_e)
    want = {"end<=length": ("Gt", "range.end", "filelength"), "start<=length": ("Gt", "range.start", "filelength"), "start<=end": ("Gt", "range.start", "range.end")}
    found = {}          # label -> [(switch block, true edge)]: a helper inlined at several call sites gives several copies
    for sb, (d, te) in checks.items():
        for label, w in want.items():
            if d == w:
                found.setdefault(label, []).append((sb, te))
    r1 = chk.rule("R1-bounds-checked-after-every-definition", "every assignment to range.start / range.end is followed, on every path to the loop back-edge or the Ok return, by the checks end<=length, start<=length, start<=end, whose failing edge returns Err", floor=4)
    # start <= length follows from the other two (start <= end <= length): where both are in force it is not required separately
    others_present = [x for x in want if x != "start<=length" and x in found]
    implied = len(others_present) == len(want) - 1
    # the parser may instead build each `Range { start, end }` once, from values it has compared before (no `range.start = ..` updates,
    # no comparisons on the fields): then the two facts start <= end <= length are proved per constructed value (A10)
    field_form = any(kind in ("assign", "call") and [p_[2] for p_ in pk[1] if isinstance(p_, tuple) and p_[0] == "f"][-1:] in (["start"], ["end"])
                     and sp.local_name(pk[0]) == "range" for _b, _i, pk, kind in du.writes)
    form_b = not found and not field_form
    if form_b:
        _aggregate_form(ctx, r1, sp)
        want = {}
    for label, w in want.items():
        ok = label in found or (label == "start<=length" and implied)
        r1.instance({"check": label, "comparison": w, "present": label in found, "implied_by_the_other_two": label == "start<=length" and implied}, ok)
        if not ok:
            r1.violate("C03|R1|missing|%s" % label, "%s has no check %s (%s %s %s -> Err): a range reaching outside the file, or reversed, would be read" % (SPEC_PARSER, label, w[1], {"Gt": ">"}.get(w[0], w[0]), w[2]), sp.file, sp.span["line"], sp.def_)
    # failing edge returns Err
    for label, lst in found.items():
      for sb, te in lst:
        # on the feasible paths after the failing edge an Err is built and the function returns without building Ok
        region = L.feasible_reach(cfg, te)
        if region is None:
            region = cfg.reachable_from(te[1])
        builds_err = any(s["k"] == "assign" and s["rv"]["k"] == "aggregate" and s["rv"].get("variant") == "Err" for b in region for s in cfg.blocks[b]["stmts"])
        builds_ok = any(s["k"] == "assign" and s["rv"]["k"] == "aggregate" and s["rv"].get("variant") == "Ok" and s["place"]["l"] == 0 and not s["place"]["p"] for b in region for s in cfg.blocks[b]["stmts"])
        ok = builds_err and not builds_ok and any(r_ in region for r_ in cfg.return_blocks())
        if not ok and label == "start<=length" and implied:
            r1.note("the failing edge of start<=length does not return Err by itself; start<=end<=length rejects the same ranges")
            continue
        r1.instance({"check": label, "failing_edge_returns_Err": ok}, ok)
        if not ok:
            r1.violate("C03|R1|no-err|%s" % label, "the failing edge of check %s does not return Err" % label, sp.file, cfg.blocks[sb]["term"]["span"]["line"], sp.def_)
    # assignments to range.start/end
    lps = L.loops_of(sp)
    headers = [lp.header for lp in lps]
    ok_ret = [b for b in cfg.live_blocks() if any(s["k"] == "assign" and s["place"]["l"] == 0 and s["rv"]["k"] == "aggregate" and s["rv"].get("variant") == "Ok" for s in cfg.blocks[b]["stmts"])]
    k = 0
    for bid, idx, pk, kind in du.writes:
        if kind not in ("assign", "call"):
            continue
        fields = [p[2] for p in pk[1] if isinstance(p, tuple) and p[0] == "f"]
        if fields[-1:] not in (["start"], ["end"]) or (sp.local_name(pk[0]) != "range"):
            continue
        k += 1
        # must pass through every check block before reaching a loop header again or the Ok return
        for label, lst in found.items():
            if label == "start<=length" and implied:
                continue
            sbs = [sb for sb, _ in lst]
            if bid in sbs:
                reach = set()
            else:
                # feasible paths only: the Err return of an inlined check helper does not run on into the loop
                reach = L.feasible_reach(cfg, avoid=sbs, start_block=bid)
                if reach is None:
                    reach = cfg.reachable_from(bid, removed_nodes=sbs)
            targets = set(headers) | set(ok_ret)
            # the header can only be re-entered through a back edge: test successors of bid
            hit = [t for t in targets if t in reach and t != bid]
            # the initial definition before the loop reaches the header directly: it is validated by the first iteration's checks only if the loop body runs;
            # `Range{start:0,end:length}` before the loop is exempt when it is an aggregate of (0, length)
            ok = not hit
            line = (cfg.blocks[bid]["stmts"][idx]["span"]["line"] if idx != "term" else cfg.blocks[bid]["term"]["span"]["line"])
            r1.instance({"assignment": "range." + fields[-1], "line": line, "check": label, "unavoidable": ok}, ok)
            if not ok:
                r1.violate("C03|R1|%s|skips-%s|%d" % ("range." + fields[-1], label, k), "range.%s assigned at line %d can reach the next iteration / the Ok return without passing the check %s" % (fields[-1], line, label), sp.file, line, sp.def_)

    # R1b enumerated rejections
    r1b = chk.rule("R1b-rejections-enumerated", "every Err exit of the range-spec parser is dominated by a failed number parse or by one of the three bound checks (no other reason rejects a range that lies inside the file)", floor=1)
    errblocks = [(b, s) for b in cfg.live_blocks() for s in cfg.blocks[b]["stmts"] if s["k"] == "assign" and s["rv"]["k"] == "aggregate" and (s["rv"].get("adt") or "").endswith("response::Error")]
    k = 0
    for b, s in errblocks:
        k += 1
        tests = tests_dominating(sp, b)
        reason = None
        for c, tr, v, line in tests:
            if (c.endswith("::is_err") and tr is True) or (c.endswith("::is_ok") and tr is False):
                reason = "unparsable number"
        for label, lst in found.items():
            if any(cfg.edge_dominates(te, b) for _, te in lst):
                reason = label + " violated"
        other = []
        for sb, (d, te) in checks.items():
            if cfg.edge_dominates(te, b) and d not in want.values() and any(("range." in x or "filelength" in x) for x in d[1:]):
                other.append(d)
        if form_b:
            reason, other = _rejection_reason_by_role(sp, b, reason)
        ok = reason is not None and not other
        r1b.instance({"error_at_line": s["span"]["line"], "reason": reason, "other_comparisons": other}, ok)
        if not ok:
            r1b.violate("C03|R1b|%s" % (str(other[0]) if other else "unexplained-%d" % k), "%s rejects at line %d for a reason outside the enumerated ones (%s): ranges that lie inside the file would be refused" % (SPEC_PARSER, s["span"]["line"], other or "no dominating test recognised"),
                        sp.file, s["span"]["line"], sp.def_)

    # R2 all error exits are 416
    r2 = chk.rule("R2-range-errors-are-416", "every Error built by the range-spec and range-header parsers carries the 416 entry", floor=1)
    for fn in (sp, hp):
        d_ = du_of(fn)
        for b in fn.blocks:
            if b["cleanup"]:
                continue
            for s in b["stmts"]:
                if s["k"] == "assign" and s["rv"]["k"] == "aggregate" and (s["rv"].get("adt") or "").endswith("response::Error"):
                    dd = dict(zip(s["rv"]["fields"], s["rv"]["ops"]))
                    e = status_entry_of(d_.val_operand(dd["status_code_reason_phrase"]))
                    ok = e == "const:n416_range_not_satisfiable"
                    r2.instance({"fn": fn.def_, "line": s["span"]["line"], "status_entry": e}, ok)
                    if not ok:
                        r2.violate("C03|R2|%s|%s" % (fn.def_, e), "%s builds an error with %s instead of 416 Range Not Satisfiable" % (fn.def_, e), s["span"]["file"], s["span"]["line"], fn.def_)

    # R3 206 only with a Range header
    r3 = chk.rule("R3-206-only-with-range-header", "the 206 entry is selected only where 'the request has a Range header' is true", floor=1)
    for n in sorted(G.reachable(R.connection_roots())):
        fn = F.fns.get(n)
        if fn is None or fn.crate != "rws" or fn.kind == "Promoted":
            continue
        d_ = du_of(fn)
        c_ = cfg_of(fn)
        for bid in c_.live_blocks():
            for s in c_.blocks[bid]["stmts"]:
                if s["k"] == "assign" and not s["place"]["p"] and s["rv"]["k"] in ("use", "ref") and status_entry_of(d_.val_rvalue(s["rv"], 0, bid)) == "const:n206_partial_content" and (fn.local_name(s["place"]["l"]) or (s["place"]["l"] == 0 and (fn.local_ty(0) or "").endswith("StatusCodeReasonPhrase"))):
                    tests = tests_dominating(fn, bid)
                    from .parse_common import deep_strings
                    ok = any(c.endswith("::is_some") and tr is True and "Range" in deep_strings(d_, v) and any(x.endswith("::get_header") for x in deep_strings(d_, v)) for c, tr, v, _ in tests)
                    r3.instance({"fn": n, "line": s["span"]["line"], "under_range_header_present": ok}, ok)
                    if not ok:
                        r3.violate("C03|R3|%s" % n, "%s selects 206 Partial Content on a path that has not established that the request carries a Range header" % n, s["span"]["file"], s["span"]["line"], n)

    # R3b the converse: the function that turns the static lookup into a response does select 206
    r3b = chk.rule("R3b-range-answers-are-206", "every function that hands the result of the static lookup (process_static_resources) to the response selects the 206 entry somewhere (in itself or a private helper): a Range request must not be answered 200 with a slice", floor=1)
    for n in sorted(G.reachable(R.connection_roots())):
        fn0 = F.fns.get(n)
        if fn0 is None or fn0.crate != "rws" or fn0.kind == "Promoted":
            continue
        if not any((callee_name(t) or "").endswith("::process_static_resources") for _, t in fn0.calls()):
            continue
        fi = ctx.inl(fn0)
        di = du_of(fi)
        has = any(s_["k"] == "assign" and s_["rv"]["k"] in ("use", "ref") and status_entry_of(di.val_rvalue(s_["rv"], 0, b_["id"])) == "const:n206_partial_content" for b_ in fi.blocks if not b_.get("cleanup") for s_ in b_["stmts"])
        r3b.instance({"fn": n, "selects_206": has}, has)
        if not has:
            r3b.violate("C03|R3b|%s" % n, "%s answers for the static lookup and never selects 206 Partial Content: a Range request gets its slice under another status" % n, fn0.file, fn0.span["line"], n)

    # R8 the request's Range header is what the range computation receives
    r6 = chk.rule("R8-range-header-reaches-the-computation", "the header argument of every call of the range computation (Range::get_content_range_list) in request-reachable code is, where the request carries a Range header, that header: the argument has a definition taken from the request's Range lookup under the lookup's Some edge, and the call is reachable from it", floor=1)
    from .parse_common import deep_strings
    for n in sorted(G.reachable(R.connection_roots())):
        fn0 = F.fns.get(n)
        if fn0 is None or fn0.crate != "rws" or fn0.kind == "Promoted":
            continue
        if not any((callee_name(t) or "") == "range::Range::get_content_range_list" for _, t in fn0.calls()):
            continue
        fn = ctx.inl(fn0)
        d_, c_ = du_of(fn), cfg_of(fn)
        k = 0
        for bid, t in fn.calls():
            if (callee_name(t) or "") != "range::Range::get_content_range_list" or len(t["args"]) < 2 or c_.blocks[bid].get("cleanup"):
                continue
            k += 1
            a = t["args"][1]
            ok, why = False, "the header argument is not a local"
            if a.get("k") in ("copy", "move"):
                root = d_.canon(place_key(a))[0]
                cands = [root] + ([a["l"]] if a["l"] != root else [])
                # `&*range_header`: follow the reborrows to the local that holds the reference
                v0 = d_.val_operand(a)
                for _ in range(6):
                    if v0[0] == "ref" and all(e == "*" for e in v0[1][1]):
                        cands.append(v0[1][0])
                        if len(d_.defs.get(v0[1][0], [])) == 1:
                            v0 = d_.val_place((v0[1][0], ()))
                            continue
                    break
                why = "no definition of the header argument comes from the request's Range lookup"
                for l in cands:
                    for d in d_.defs.get(l, []):
                        v = d_.val_rvalue(d[3], 0, d[1]) if d[0] == "assign" else d_.val_call(d[3], 0, d[1])
                        strs = set(deep_strings(d_, v))
                        # the lookup may sit in a closure / private helper that yields the header (`let get_range_header = || ..`)
                        for cn in [x for x in list(strs) if x in F.fns and F.fns[x].crate == "rws" and (F.fns[x].kind == "Closure" or (F.fns[x].vis or "").startswith("Restricted"))] + \
                                  [x for x in (d[3].get("fn_items", []) if d[0] == "call" else []) if x in F.fns and F.fns[x].kind == "Closure"]:
                            cdu = du_of(F.fns[cn])
                            strs |= set(deep_strings(cdu, cdu.val_place((0, ()))))
                        if "Range" in strs and any(re.search(r"::get_header(_\w+)?$", x) for x in strs):
                            if bid == d[1] or bid in c_.reachable_from(d[1]):
                                ok, why = True, ""
                            else:
                                why = "the definition taken from the Range lookup cannot reach the call"
            r6.instance({"fn": n, "call_line": t["span"]["line"], "argument_from_the_request_range_header": ok}, ok)
            if not ok:
                r6.violate("C03|R8|%s|%d" % (n, k), "%s calls the range computation (line %d) with a header that is never the request's Range header: %s - the requested range is ignored" % (n, t["span"]["line"], why), t["span"]["file"], t["span"]["line"], n)

    # R4 labelling consistency in the range-header parser
    r4 = chk.rule("R4-label-matches-read", "in the range-header parser the body of every ContentRange comes from read_file_partially(path, R.start, R.end) of the same Range R that is stored as its label, and size derives from the file-length parameter", floor=1)
    reads = [(bid, t) for bid, t in hp.calls() if (callee_name(t) or "").endswith("read_file_partially")]
    hp_entry = hp
    if not reads:
        # the part may be read one call down, in a helper the header parser maps over the items (`.split(",").map(|item| read_part(..))`):
        # the function of the crate, reachable from the header parser, that issues the partial read is judged instead
        cands = []
        for n2 in sorted(G.reachable([HEADER_PARSER])):
            g2 = F.fns.get(n2)
            if g2 is not None and g2.crate == "rws" and g2.kind in ("Fn", "AssocFn") and n2 != HEADER_PARSER \
                    and any((callee_name(t2) or "").endswith("read_file_partially") for _, t2 in g2.calls()):
                cands.append(g2)
        if len(cands) == 1:
            hp = ctx.inl(cands[0])
            reads = [(bid, t) for bid, t in hp.calls() if (callee_name(t) or "").endswith("read_file_partially")]
    hdu = du_of(hp)
    len_param = next((i for i in range(1, hp.nargs + 1) if re.search(r"length|size", hp.local_name(i) or "")), 2)
    other_reads = [(bid, t) for bid, t in hp.calls() if re.search(r"(FileExt::read_file$|std::fs::read|std::fs::File::open|as std::io::Read>::read)", callee_name(t) or "")]
    r4.instance({"partial_reads": len(reads), "other_content_reads": len(other_reads)}, ok=len(reads) == 1 and not other_reads)
    if len(reads) != 1 or other_reads:
        r4.violate("C03|R4|read-sites", "%s reads file content through %d partial read(s) and %d other read(s): every part must be read as exactly its own range" % (HEADER_PARSER, len(reads), len(other_reads)), hp.file, hp.span["line"], hp.def_)
    for bid, t in reads:
        a1, a2 = hdu.val_operand(t["args"][1]), hdu.val_operand(t["args"][2])
        def fld(v):
            if v[0] in ("place", "ref"):
                fs = [p[2] for p in v[1][1] if isinstance(p, tuple) and p[0] == "f"]
                return (v[1][0], fs[-1] if fs else None)
            return (None, None)
        (l1, f1), (l2, f2) = fld(a1), fld(a2)
        ok = f1 == "start" and f2 == "end" and l1 == l2 and l1 is not None
        r4.instance({"read_args": [f1, f2], "same_range_value": l1 == l2}, ok)
        if not ok:
            r4.violate("C03|R4|read-args", "read_file_partially is not called with (R.start, R.end) of one Range value (got %s, %s)" % ((l1, f1), (l2, f2)), hp.file, t["span"]["line"], hp.def_)
        # the ContentRange aggregate stores that same local as `range` and the read's result as `body`
        for b in hp.blocks:
            for s in b["stmts"]:
                if s["k"] == "assign" and s["rv"]["k"] == "aggregate" and (s["rv"].get("adt") or "").endswith("range::ContentRange"):
                    dd = dict(zip(s["rv"]["fields"], s["rv"]["ops"]))
                    rv_ = dd["range"]
                    rl = hdu.canon(place_key(rv_))[0] if rv_.get("k") in ("copy", "move") else None
                    okr = rl is not None and rl == hdu.canon((l1, ()))[0]
                    from ..taint import local_deps
                    ld = local_deps(hp)
                    okb = dd["body"].get("k") in ("copy", "move") and t["dest"]["l"] in ld.closure(dd["body"]["l"])
                    oks = dd["size"].get("k") in ("copy", "move") and len_param in ld.closure(dd["size"]["l"])   # the file-length parameter
                    r4.instance({"stored_range_is_read_range": okr, "body_from_that_read": okb, "size_from_file_length": oks}, okr and okb and oks)
                    if not (okr and okb and oks):
                        r4.violate("C03|R4|label", "the ContentRange built at line %d does not label the bytes it carries (range same value: %s, body from the read: %s, size from file length: %s)" % (s["span"]["line"], okr, okb, oks), hp.file, s["span"]["line"], hp.def_)
    # serialisers label from the emitted element (Content-Range from .range.start/.range.end/.size): shared clause R5
    serialiser_clauses(ctx, chk, "C03", G.reachable(R.connection_roots()))
    chk.assumptions += ["FileExt::read_file_partially(path, start, end) returns the bytes start..=end (dependency contract)"]
    chk.undecided = ["offset arithmetic on runtime lengths (inclusive / exclusive ends, clamping of open-ended and suffix ranges): e.g. whether an open-ended range is labelled 0-L or 0-(L-1)"]
    return chk.finish()


def _bool_local_range_test(fn, block):
    """a dominating switch on a bool local defined as is_some(get_header("Range"))"""
    cfg = cfg_of(fn)
    du = du_of(fn)
    for sb in cfg.live_blocks():
        st = cfg.blocks[sb]["term"]
        if st["k"] != "switch":
            continue
        v, neg = strip_not(du, du.val_operand(st["discr"]))
        if "is_some" in repr(v) and "Range" in repr(v) and "get_header" in repr(v):
            for val, tb in st["targets"]:
                if val == 0:
                    te = (sb, st["otherwise"]) if not neg else (sb, tb)
                    if cfg.edge_dominates(te, block):
                        return True
    return False
