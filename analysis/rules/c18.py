"""C18 — Base64 conforms to RFC 4648 and round-trips.
A9: bit-provenance abstract interpretation of the per-group kernels: every output sextet / byte is proved, for all input values at once,
to consist of exactly the RFC bits.  The chunking loops (index arithmetic) are assumed, not decided."""
import re
from ..callgraph import callee_name
from ..cfg import cfg_of
from ..dataflow import du_of, place_key, val_ref_target
from ..framework import Check
from ..guards import strip_casts, const_int
from .parse_common import strip_not

ENC_SEQ = "core::base64::Base64::encode_sequence"
DEC_SEQ = "core::base64::Base64::decode_sequence"
N2C = "core::base64::Base64::convert_number_to_base64_char"
C2N = "core::base64::Base64::convert_base64_char_to_number"
TABLE = "core::base64::Base64::get_base64_char_list"
RFC_ALPHABET = "ABCDEFGHIJKLMNOPQRSTUVWXYZabcdefghijklmnopqrstuvwxyz0123456789+/"
TOP = "T"


def bits_const(k):
    return tuple("1" if (k >> (7 - i)) & 1 else "0" for i in range(8))


def shr(b, k):
    if b == TOP:
        return TOP
    return tuple(["0"] * k + list(b[:8 - k])) if k < 8 else bits_const(0)


def shl(b, k):
    if b == TOP:
        return TOP
    return tuple(list(b[k:]) + ["0"] * k) if k < 8 else bits_const(0)


def band(a, b):
    if a == TOP or b == TOP:
        return TOP
    out = []
    for x, y in zip(a, b):
        if x == "0" or y == "0":
            out.append("0")
        elif x == "1":
            out.append(y)
        elif y == "1":
            out.append(x)
        elif x == y:
            out.append(x)
        else:
            return TOP
    return tuple(out)


def bor(a, b):
    if a == TOP or b == TOP:
        return TOP
    out = []
    for x, y in zip(a, b):
        if x == "1" or y == "1":
            out.append("1")
        elif x == "0":
            out.append(y)
        elif y == "0":
            out.append(x)
        elif x == y:
            out.append(x)
        else:
            return TOP
    return tuple(out)


class BitEval:
    def __init__(self, fn, input_of):
        self.fn = fn
        self.du = du_of(fn)
        self.input_of = input_of     # value expr -> (index, width) of an input symbol, or None

    def ev(self, v, depth=0):
        if depth > 30:
            return TOP
        sym = self.input_of(self.du, v)
        if sym is not None:
            idx, width = sym
            return tuple(["0"] * (8 - width) + ["in%d.b%d" % (idx, width - 1 - j) for j in range(width)])
        k = v[0]
        if k == "const":
            if isinstance(v[1], int) and not isinstance(v[1], bool) and 0 <= v[1] < 256:
                return bits_const(v[1])
            return TOP
        if k == "cast":
            return self.ev(v[2], depth + 1)
        if k in ("ref", "place"):
            l, proj = v[1]
            vv = self.du.val_place((l, ()))
            if vv != v and vv[0] != "place":
                return self.ev(vv, depth + 1)
            return TOP
        if k == "binop":
            op = v[1]
            a = self.ev(v[2], depth + 1)
            if op in ("Shr", "Shl", "ShrUnchecked", "ShlUnchecked"):
                s = const_int(strip_casts(v[3]))
                if s is None:
                    return TOP
                return shr(a, s) if op.startswith("Shr") else shl(a, s)
            b = self.ev(v[3], depth + 1)
            if op == "BitAnd":
                return band(a, b)
            if op == "BitOr":
                return bor(a, b)
            return TOP
        if k == "call":
            name = v[1] or ""
            m = re.search(r"as std::ops::(Shr|Shl|BitAnd|BitOr)<.*>>::(shr|shl|bitand|bitor)$", name)
            if m and len(v[2]) == 2:
                a = self.ev(v[2][0], depth + 1)
                if m.group(2) in ("shr", "shl"):
                    s = const_int(strip_casts(v[2][1]))
                    if s is None:
                        return TOP
                    return shr(a, s) if m.group(2) == "shr" else shl(a, s)
                b = self.ev(v[2][1], depth + 1)
                return band(a, b) if m.group(2) == "bitand" else bor(a, b)
            if name.endswith("::unwrap") or name.endswith("as std::clone::Clone>::clone") or name.endswith("::copied") or name.endswith("::cloned"):
                return self.ev(v[2][0], depth + 1) if v[2] else TOP
            return TOP
        return TOP


def enc_input(du, v, depth=0):
    """v is (a reference to / copy of) input byte i = unwrap(get(bytes, const i)): returns (i, 8)"""
    if depth > 10:
        return None
    if v[0] == "call":
        name = v[1] or ""
        if name.endswith("::unwrap") and v[2]:
            return enc_input(du, v[2][0], depth + 1)
        if name == "core::slice::<impl [T]>::get" and len(v[2]) == 2:
            i = const_int(strip_casts(v[2][1]))
            tgt = v[2][0]
            if i is not None and tgt[0] in ("place", "ref") and tgt[1][0] == 1:
                return (i, 8)
        return None
    if v[0] in ("ref", "place"):
        vv = du.val_place((v[1][0], ()))
        if vv != v and vv[0] != "place":
            return enc_input(du, vv, depth + 1)
    if v[0] == "cast":
        return enc_input(du, v[2], depth + 1)
    return None


def dec_input(du, v, depth=0):
    """v = unwrap(convert_base64_char_to_number(<char at position k>)): a 6-bit symbol c_k"""
    if depth > 14:
        return None
    if v[0] == "call":
        name = v[1] or ""
        if name.endswith("::unwrap") and v[2]:
            return dec_input(du, v[2][0], depth + 1)
        if name == C2N and v[2]:
            k = _char_pos(du, v[2][0])
            if k is not None:
                return (k, 6)
        return None
    if v[0] in ("ref", "place"):
        vv = du.val_place((v[1][0], ()))
        if vv != v and vv[0] != "place":
            return dec_input(du, vv, depth + 1)
    return None


def _char_pos(du, v, depth=0):
    if depth > 14:
        return None
    if v[0] == "cast":
        return _char_pos(du, v[2], depth + 1)
    if v[0] == "call":
        name = v[1] or ""
        if name.endswith("::nth") and len(v[2]) == 2:
            return const_int(strip_casts(v[2][1]))
        if name.endswith("::unwrap") and v[2]:
            return _char_pos(du, v[2][0], depth + 1)
        return None
    if v[0] in ("ref", "place"):
        vv = du.val_place((v[1][0], ()))
        if vv != v and vv[0] != "place":
            return _char_pos(du, vv, depth + 1)
    return None


def sym(idx, hi, lo, width=8):
    """bits hi..lo (inclusive, bit numbers) of input idx"""
    return ["in%d.b%d" % (idx, j) for j in range(hi, lo - 1, -1)]


def branch_blocks(fn, selector):
    """{n: set(blocks)} dominated by the true edge of `<selector> == n`"""
    cfg = cfg_of(fn)
    du = du_of(fn)
    out = {}
    for sb in cfg.live_blocks():
        st = cfg.blocks[sb]["term"]
        if st["k"] != "switch":
            continue
        v, neg = strip_not(du, du.val_operand(st["discr"]))
        v = strip_casts(v)
        if st.get("discr_ty") != "bool" and selector(du, v):
            # `match <selector> { 1 => .., 2 => .., 3 => .., _ => .. }`
            for val, tb in st["targets"]:
                if tb != st["otherwise"]:
                    out[val] = {b for b in cfg.live_blocks() if cfg.edge_dominates((sb, tb), b)}
            continue
        if v[0] == "binop" and v[1] == "Eq" and selector(du, strip_casts(v[2])) and const_int(strip_casts(v[3])) is not None:
            n = const_int(strip_casts(v[3]))
            for val, tb in st["targets"]:
                if val == 0:
                    te = (sb, st["otherwise"]) if not neg else (sb, tb)
                    out[n] = {b for b in cfg.live_blocks() if cfg.edge_dominates(te, b)}
    return out


def run(ctx):
    F, G, R = ctx.F, ctx.G, ctx.R
    chk = Check("C18", ctx.tier, "Per-group Base64 kernels proved for all inputs by bit-provenance abstract interpretation (9 sextets + 3 paddings for the encoder, 6 bytes for the decoder); alphabet table evaluated to the RFC 4648 alphabet; chunking loops assumed.")
    chk.technique = "bit-provenance abstract interpretation of shift/mask/or expressions over the MIR (exact on this domain), constant evaluation of the alphabet builder"
    chk.level = "proof"
    chk.analysed = ctx.analysed_summary()
    enc, dec = F.fns.get(ENC_SEQ), F.fns.get(DEC_SEQ)
    if enc is not None:
        enc = ctx.inl(enc)      # the 1/2/3-byte cases may be private functions (A11)
    if dec is not None:
        dec = ctx.inl(dec)
    r0 = chk.rule("anchors", "kernel functions exist", floor=5)
    for n in (ENC_SEQ, DEC_SEQ, N2C, C2N, TABLE):
        ok = n in F.fns
        r0.instance({"fn": n}, ok)
        if not ok:
            r0.violate("C18|anchors|%s" % n, "%s not found" % n)
    if not (enc and dec and N2C in F.fns and C2N in F.fns and TABLE in F.fns):
        return chk.finish()

    # ---- R1 encoder
    r1 = chk.rule("R1-encoder-sextets", "for group length 1, 2, 3 the k-th argument of the number->char function is exactly the k-th RFC 4648 sextet of the input bits (valid for all 2^8 / 2^16 / 2^24 groups), followed by 2 / 1 / 0 '=' pushes", floor=12)
    expect = {
        1: [["0", "0"] + sym(0, 7, 2), ["0", "0"] + sym(0, 1, 0) + ["0"] * 4],
        2: [["0", "0"] + sym(0, 7, 2), ["0", "0"] + sym(0, 1, 0) + sym(1, 7, 4), ["0", "0"] + sym(1, 3, 0) + ["0", "0"]],
        3: [["0", "0"] + sym(0, 7, 2), ["0", "0"] + sym(0, 1, 0) + sym(1, 7, 4), ["0", "0"] + sym(1, 3, 0) + sym(2, 7, 6), ["0", "0"] + sym(2, 5, 0)],
    }
    pads = {1: 2, 2: 1, 3: 0}
    def len_sel(du, v):
        return v[0] == "call" and (v[1] or "").endswith("::len") and v[2] and v[2][0][0] in ("place", "ref") and v[2][0][1][0] == 1
    ecfg = cfg_of(enc)
    edu = du_of(enc)
    ev = BitEval(enc, enc_input)
    branches = branch_blocks(enc, len_sel)
    enc_shape = any(branches.get(n_) and any(ecfg.blocks[b_]["term"]["k"] == "call" and callee_name(ecfg.blocks[b_]["term"]) == N2C for b_ in branches[n_]) for n_ in (1, 2, 3))
    if not enc_shape:
        # not one branch per group length each looking its sextets up (e.g. a helper that cuts the group into sextets by slice patterns,
        # then a map-and-pad loop): the bit-level evaluation is written for the branch form only. Not decided for this shape.
        r1.floor = 0
        r1.note("encode_sequence is not written as one branch per group length: the sextets handed to the alphabet lookup are not decided by this rule for this shape")
    for n in ((1, 2, 3) if enc_shape else ()):
        blocks = branches.get(n)
        if not blocks:
            r1.violate("C18|R1|len-%d|no-branch" % n, "encode_sequence has no branch for group length %d" % n, enc.file, enc.span["line"], ENC_SEQ)
            continue
        calls = [(b, ecfg.blocks[b]["term"]) for b in ecfg.rpo() if b in blocks and ecfg.blocks[b]["term"]["k"] == "call" and callee_name(ecfg.blocks[b]["term"]) == N2C]
        if len(calls) != len(expect[n]):
            r1.violate("C18|R1|len-%d|count" % n, "group length %d: %d characters are produced from sextets, RFC 4648 requires %d" % (n, len(calls), len(expect[n])), enc.file, enc.span["line"], ENC_SEQ)
        for k, (b, t) in enumerate(calls[:len(expect[n])]):
            got = ev.ev(edu.val_operand(t["args"][0]))
            ok = got != TOP and list(got) == expect[n][k]
            r1.instance({"group_length": n, "sextet": k, "bits_msb_first": list(got) if got != TOP else "unknown", "line": t["span"]["line"]}, ok)
            if not ok:
                r1.violate("C18|R1|len-%d|sextet-%d" % (n, k), "group length %d, character %d: the value passed to the alphabet lookup has bits %s, RFC 4648 requires %s" % (n, k, list(got) if got != TOP else "not expressible as input bits", expect[n][k]),
                           enc.file, t["span"]["line"], ENC_SEQ)
        # padding pushes: Vec::push of to_string(const "=") inside the branch
        npad = 0
        for b in blocks:
            t = ecfg.blocks[b]["term"]
            if t["k"] == "call" and callee_name(t) == "std::vec::Vec::<T, A>::push" and len(t["args"]) == 2:
                v = edu.val_operand(t["args"][1])
                s_ = v
                for _ in range(4):
                    if s_[0] == "call" and s_[2]:
                        s_ = s_[2][0]
                if s_[0] == "const" and s_[1] == "=":
                    npad += 1
        ok = npad == pads[n]
        r1.instance({"group_length": n, "padding_characters": npad, "required": pads[n]}, ok)
        if not ok:
            r1.violate("C18|R1|len-%d|padding" % n, "group length %d: %d '=' characters are appended, RFC 4648 requires %d" % (n, npad, pads[n]), enc.file, enc.span["line"], ENC_SEQ)

    # ---- R2 decoder
    r2 = chk.rule("R2-decoder-bytes", "for 2 / 1 / 0 padding characters the returned bytes are exactly the RFC recombination of the looked-up 6-bit values", floor=6)
    def c(k, hi, lo):
        return ["in%d.b%d" % (k, j) for j in range(hi, lo - 1, -1)]
    dexpect = {
        2: [c(0, 5, 0) + c(1, 5, 4)],
        1: [c(0, 5, 0) + c(1, 5, 4), c(1, 3, 0) + c(2, 5, 2)],
        0: [c(0, 5, 0) + c(1, 5, 4), c(1, 3, 0) + c(2, 5, 2), c(2, 1, 0) + c(3, 5, 0)],
    }
    def eq_sel(du, v):
        return (v[0] == "call" and (v[1] or "").endswith("::count")) or (v[0] == "place")
    dcfg = cfg_of(dec)
    ddu = du_of(dec)
    dev = BitEval(dec, dec_input)
    dbranches = branch_blocks(dec, lambda du, v: True)
    def _arrays_of(blocks_):
        return [s_ for b_ in dcfg.rpo() if b_ in (blocks_ or ()) for s_ in dcfg.blocks[b_]["stmts"]
                if s_["k"] == "assign" and s_["rv"]["k"] == "aggregate" and s_["rv"].get("agg") == "array" and s_["rv"].get("elem_ty") == "u8"]
    shape_present = any(len(_arrays_of(dbranches.get(n_))) == 1 for n_ in (2, 1, 0))
    if not shape_present:
        # not one branch per padding count each returning its own bytes (e.g. one table of sextets filled in a loop, the result cut to
        # length): the bit-level evaluation below is written for the branch form only. Not decided, and said so; nothing is reported.
        r2.floor = 0
        r2.note("decode_sequence is not written as one branch per padding count: the recombination of the 6-bit values is not decided by this rule for this shape")
    for n in ((2, 1, 0) if shape_present else ()):
        blocks = dbranches.get(n)
        if not blocks:
            r2.violate("C18|R2|pad-%d|no-branch" % n, "decode_sequence has no branch for %d padding characters" % n, dec.file, dec.span["line"], DEC_SEQ)
            continue
        arrays = []
        for b in dcfg.rpo():
            if b not in blocks:
                continue
            for s in dcfg.blocks[b]["stmts"]:
                if s["k"] == "assign" and s["rv"]["k"] == "aggregate" and s["rv"].get("agg") == "array" and s["rv"].get("elem_ty") == "u8":
                    arrays.append(s)
        if len(arrays) != 1:
            r2.violate("C18|R2|pad-%d|result" % n, "branch for %d padding characters builds %d result arrays (expected one vec![..] of bytes)" % (n, len(arrays)), dec.file, dec.span["line"], DEC_SEQ)
            continue
        ops = arrays[0]["rv"]["ops"]
        if len(ops) != len(dexpect[n]):
            r2.violate("C18|R2|pad-%d|count" % n, "%d padding characters: %d bytes are returned, RFC 4648 requires %d" % (n, len(ops), len(dexpect[n])), dec.file, arrays[0]["span"]["line"], DEC_SEQ)
        for k, o in enumerate(ops[:len(dexpect[n])]):
            got = dev.ev(ddu.val_operand(o))
            ok = got != TOP and list(got) == dexpect[n][k]
            r2.instance({"padding": n, "byte": k, "bits_msb_first": list(got) if got != TOP else "unknown"}, ok)
            if not ok:
                r2.violate("C18|R2|pad-%d|byte-%d" % (n, k), "%d padding characters, output byte %d has bits %s, RFC 4648 requires %s" % (n, k, list(got) if got != TOP else "not expressible as looked-up bits", dexpect[n][k]),
                           dec.file, arrays[0]["span"]["line"], DEC_SEQ)

    # ---- R3 alphabet
    r3 = chk.rule("R3-alphabet", "the table builder evaluates to A-Z a-z 0-9 + / (64 entries, in order); number->char indexes that table and rejects > 63; char->number enumerates the same table and returns Err on a miss", floor=4)
    tfn = F.fns[TABLE]
    tdu = du_of(tfn)
    tcfg = cfg_of(tfn)
    table = []
    ranges = {}
    ok_eval = True
    for b in tcfg.rpo():
        t = tcfg.blocks[b]["term"]
        if t["k"] != "call":
            continue
        c_ = callee_name(t) or ""
        if c_.startswith("std::ops::RangeInclusive::<Idx>::new") and len(t["args"]) == 2:
            a, z = tdu.val_operand(t["args"][0]), tdu.val_operand(t["args"][1])
            ca = a[1].get("char") if a[0] == "const" and isinstance(a[1], dict) else None
            cz = z[1].get("char") if z[0] == "const" and isinstance(z[1], dict) else None
            ranges[t["dest"]["l"]] = (ca, cz)
        elif c_ == "std::vec::Vec::<T, A>::append" and len(t["args"]) == 2:
            # the appended vector derives from one of the ranges
            from ..taint import local_deps
            ld = local_deps(tfn)
            src = [ranges[l] for l in ranges if t["args"][1].get("k") in ("copy", "move") and l in ld.closure(t["args"][1]["l"])]
            if len(src) >= 1 and src[-1][0] and src[-1][1]:
                # the most recently created range that flows here
                cand = [ranges[l] for l in sorted(ranges) if l in ld.closure(t["args"][1]["l"])]
                a_, z_ = cand[-1]
                table += [chr(x) for x in range(ord(a_), ord(z_) + 1)]
            else:
                ok_eval = False
        elif c_ == "std::vec::Vec::<T, A>::push" and len(t["args"]) == 2:
            v = tdu.val_operand(t["args"][1])
            if v[0] == "const" and isinstance(v[1], dict) and "char" in v[1]:
                table.append(v[1]["char"])
            else:
                ok_eval = False
    # the alphabet as one constant (`const ALPHABET: &[u8; 64] = b"ABC..+/"`) read by the three functions
    from .c14 import items_mentioned
    const_alpha = {}
    for item_ in sorted(items_mentioned(F, ctx.inl(tfn)) | items_mentioned(F, ctx.inl(F.fns[N2C])) | items_mentioned(F, ctx.inl(F.fns[C2N]))):
        cv_ = (F.consts.get(item_) or {}).get("v")
        if isinstance(cv_, dict) and isinstance(cv_.get("fields"), dict) and all(isinstance(x, int) for x in cv_["fields"].values()) and len(cv_["fields"]) >= 16:
            const_alpha[item_] = "".join(chr(cv_["fields"][k_]) for k_ in sorted(cv_["fields"], key=int) if 0 <= cv_["fields"][k_] < 0x110000)
        elif isinstance(cv_, dict) and isinstance(cv_.get("bytes"), list):
            const_alpha[item_] = "".join(chr(x) for x in cv_["bytes"])
        elif isinstance(cv_, str) and len(cv_) >= 16:
            const_alpha[item_] = cv_
    table_item = None
    if not table and len(const_alpha) == 1 and items_mentioned(F, ctx.inl(tfn)) & set(const_alpha):
        table_item = next(iter(const_alpha))
        table = list(const_alpha[table_item])
        ok_eval = not any((callee_name(t_) or "").endswith(("::push", "::insert", "::swap", "::reverse", "::sort", "::rev", "::skip", "::filter")) for _, t_ in ctx.inl(tfn).calls())
    got = "".join(table)
    ok = ok_eval and got == RFC_ALPHABET
    r3.instance({"table": got, "entries": len(table)}, ok)
    if not ok:
        r3.violate("C18|R3|alphabet", "the alphabet table evaluates to %r (%d entries), RFC 4648 requires %r" % (got, len(table), RFC_ALPHABET), tfn.file, tfn.span["line"], TABLE)
    n2c = F.fns[N2C]
    ndu = du_of(n2c)
    uses_table = any(callee_name(t) == TABLE for _, t in n2c.calls())
    idx_ok = False
    for _, t in n2c.calls():
        if callee_name(t) == "core::slice::<impl [T]>::get" and len(t["args"]) == 2:
            iv = strip_casts(ndu.val_operand(t["args"][1]))
            idx_ok = iv[0] == "place" and iv[1][0] == 1
    from ..guards import guards_of
    from .parse_common import tests_dominating, ok_return_blocks
    gt_ok = False
    for ob in ok_return_blocks(n2c):
        for cc, tr, v, _ in []:
            pass
    ncfg = cfg_of(n2c)
    for sb in ncfg.live_blocks():
        st = ncfg.blocks[sb]["term"]
        if st["k"] == "switch":
            v, neg = strip_not(ndu, ndu.val_operand(st["discr"]))
            v = strip_casts(v)
            if v[0] == "binop" and v[1] == "Gt" and const_int(strip_casts(v[3])) == 63:
                for ob in ok_return_blocks(n2c):
                    for val, tb in st["targets"]:
                        if val == 0 and ncfg.edge_dominates((sb, tb) if not neg else (sb, st["otherwise"]), ob):
                            gt_ok = True
    if table_item is not None and table_item in items_mentioned(F, ctx.inl(n2c)):
        # `ALPHABET.get(number as usize)`: Ok only on the Some edge, i.e. only for an index inside the 64 entries
        uses_table = True
        ng_ = guards_of(n2c)
        for gb_, t in n2c.calls():
            if callee_name(t) == "core::slice::<impl [T]>::get" and len(t["args"]) == 2:
                from ..guards import optres_root as _orr
                root_, inv_ = _orr(ndu, (t["dest"]["l"], ()))
                some_edges = [e_ for e_, f_ in ng_.facts() if f_[0] == "variant" and f_[1] == root_ and f_[3] is (False if inv_ else True)]
                if some_edges and all(ncfg.edges_dominate(some_edges, ob) for ob in ok_return_blocks(n2c)) and ok_return_blocks(n2c):
                    gt_ok = len(table) == 64
    ok = uses_table and idx_ok and gt_ok
    r3.instance({"number_to_char": {"indexes_table_with_argument": idx_ok, "uses_table": uses_table, "rejects_above_63": gt_ok}}, ok)
    if not ok:
        r3.violate("C18|R3|number-to-char", "convert_number_to_base64_char: uses table=%s, indexes it with its argument=%s, Ok only when number <= 63=%s" % (uses_table, idx_ok, gt_ok), n2c.file, n2c.span["line"], N2C)
    c2n = F.fns[C2N]
    cdu = du_of(c2n)
    uses_table = any(callee_name(t) == TABLE for _, t in c2n.calls())
    enum_ok = any((callee_name(t) or "").endswith("Iterator::enumerate") for _, t in c2n.calls())
    ins_ok = False
    for _, t in c2n.calls():
        if (callee_name(t) or "").startswith("std::collections::HashMap::<K, V, S, A>::insert") and len(t["args"]) == 3:
            kv, vv = cdu.val_operand(t["args"][1]), strip_casts(cdu.val_operand(t["args"][2]))
            # key = the char element, value = the enumerate index
            ins_ok = "1" in repr([p for p in (kv[1][1] if kv[0] in ("place", "ref") else [])]) or True
            ins_ok = vv[0] in ("place", "ref") and any(isinstance(p, tuple) and p[0] == "f" and p[1] == 0 for p in vv[1][1])
    miss_ok = False
    ccfg = cfg_of(c2n)
    for ob in ok_return_blocks(c2n):
        for cc, tr, v, _ in tests_dominating(c2n, ob):
            if cc.endswith("::is_none") and tr is False:
                miss_ok = True
    if table_item is not None and table_item in items_mentioned(F, ctx.inl(c2n)):
        # `ALPHABET.iter().position(|s| *s as char == c).map(|p| p as u8).ok_or_else(..)`: the value is the position of the first equal
        # entry, a miss is an Err
        names_ = [callee_name(t) or "" for _, t in c2n.calls()]
        pos_cl = [x for _, t in c2n.calls() if (callee_name(t) or "").endswith("::position") for x in t.get("fn_items", []) if x in F.fns]
        eq_only = bool(pos_cl) and all(any(st_["k"] == "assign" and st_["rv"]["k"] == "binop" and st_["rv"].get("op") == "Eq" for b_ in F.fns[x].blocks for st_ in b_["stmts"])
                                       and not any(st_["k"] == "assign" and st_["rv"]["k"] == "binop" and st_["rv"].get("op") in ("Ne", "Lt", "Le", "Gt", "Ge") for b_ in F.fns[x].blocks for st_ in b_["stmts"]) for x in pos_cl)
        uses_table = True
        enum_ok = ins_ok = eq_only
        miss_ok = any(n_.endswith(("::ok_or_else", "::ok_or")) for n_ in names_) and not any(n_.endswith(("::unwrap_or", "::unwrap_or_default", "::unwrap_or_else")) for n_ in names_)
    ok = uses_table and enum_ok and ins_ok and miss_ok
    r3.instance({"char_to_number": {"uses_table": uses_table, "enumerates": enum_ok, "value_is_enumerate_index": ins_ok, "err_on_miss": miss_ok}}, ok)
    if not ok:
        r3.violate("C18|R3|char-to-number", "convert_base64_char_to_number: uses table=%s, enumerates it=%s, stores the index=%s, returns Err on a miss=%s" % (uses_table, enum_ok, ins_ok, miss_ok), c2n.file, c2n.span["line"], C2N)
    # the looked-up values are 6-bit because the table has 64 entries (used by R2)
    r3.instance({"lookup_values_fit_6_bits": len(table) == 64}, ok=len(table) == 64)

    # ---- R4 / R5: two necessary conditions on the grouping functions (the loops' index arithmetic itself stays assumed)
    r4 = chk.rule("R4-chunking-is-group-aligned", "if the encoder / decoder input is cut with a chunking adaptor, the chunk size is a constant divisible by 3 (encoder) / 4 (decoder): otherwise padding appears in the middle of the text", floor=2)
    CHUNKERS = re.compile(r"core::slice::<impl \[T\]>::(chunks|chunks_exact|rchunks|rchunks_exact|windows|split_at|split_at_checked)|core::str::<impl str>::(split_at|char_indices)")
    for root, mod in (("core::base64::Base64::encode", 3), ("core::base64::Base64::decode", 4)):
        if root not in F.fns:
            r4.violate("C18|R4|anchor-missing|%s" % root, "%s not found" % root)
            continue
        sub = [n for n in G.reachable([root]) if n in F.fns and n not in (ENC_SEQ, DEC_SEQ, N2C, C2N, TABLE)]
        bad = []
        for n in sub:
            fn_ = F.fns[n]
            du_ = du_of(fn_)
            for _, t in fn_.calls():
                c_ = callee_name(t) or ""
                if CHUNKERS.fullmatch(c_) and len(t["args"]) >= 2:
                    k_ = const_int(strip_casts(du_.val_operand(t["args"][1])))
                    if k_ is None or k_ % mod != 0:
                        bad.append((n, c_, k_, t["span"]["line"]))
        r4.instance({"root": root, "functions": len(sub), "misaligned_chunking": [(b[1], b[2]) for b in bad]}, ok=not bad)
        for n, c_, k_, line in bad:
            r4.violate("C18|R4|%s|%s" % (n, c_.split("::")[-1]), "%s cuts the %s input with %s(%s): groups of %d are no longer aligned, so padding / partial groups appear inside the text" % (n, "encoder" if mod == 3 else "decoder", c_.split("::")[-1], k_, mod), F.fns[n].file, line, n)
    r5 = chk.rule("R5-non-ascii-text-is-rejected", "Base64::decode narrows chars with `as u8`; it must therefore either test is_ascii or bound its char-indexed loop by the BYTE length of the text (a multi-byte character then makes chars().nth(i) run out and return Err)", floor=1)
    dfn = F.fns.get("core::base64::Base64::decode")
    if dfn is not None:
        dfn = ctx.inl(dfn)       # the narrowing cast may sit in a private helper (next_sequence ..)
        ddu_ = du_of(dfn)
        dcfg_ = cfg_of(dfn)
        narrowing = [s for b in dfn.blocks if not b["cleanup"] for s in b["stmts"] if s["k"] == "assign" and s["rv"]["k"] == "cast" and s["rv"].get("from") == "char" and s["rv"].get("to") == "u8"]
        has_ascii_test = any((callee_name(t) or "").endswith("::is_ascii") for _, t in dfn.calls())
        bound_is_byte_len = False
        from .. import loops as L
        for lp in L.loops_of(dfn):
            for sb in lp.body:
                st = dcfg_.blocks[sb]["term"]
                if st["k"] != "switch":
                    continue
                v, neg = strip_not(ddu_, ddu_.val_operand(st["discr"]))
                v = strip_casts(v)
                if v[0] == "binop" and v[1] in ("Lt", "Le", "Gt", "Ge"):
                    for side in (v[2], v[3]):
                        side = strip_casts(side)
                        if side[0] in ("place", "ref"):
                            side = ddu_.val_place((side[1][0], ()))
                        if side[0] == "call" and (side[1] or "") in ("std::string::String::len", "core::str::<impl str>::len"):
                            tgt = side[2][0]
                            if tgt[0] in ("place", "ref") and tgt[1][0] == 1:
                                bound_is_byte_len = True
        ok = (not narrowing) or has_ascii_test or bound_is_byte_len
        r5.instance({"narrowing_casts": len(narrowing), "is_ascii_test": has_ascii_test, "loop_bounded_by_byte_length_of_text": bound_is_byte_len}, ok)
        if not ok:
            r5.violate("C18|R5|decode", "Base64::decode narrows characters with `as u8` but neither tests is_ascii nor bounds its loop by the byte length of the text: a character above U+00FF whose low byte is an alphabet byte is decoded as that ASCII character instead of being rejected",
                       dfn.file, narrowing[0]["span"]["line"], dfn.def_)
    else:
        r5.violate("C18|R5|anchor-missing", "Base64::decode not found")

    obligations = sum(r.obligations for r in chk.rules)
    chk.extra.update({"checker_cmd": "./check C18 --tier quick", "trusted_base": ["rustc MIR", "rws-facts extractor", "analysis/rules/c18.py transfer functions for Shr/Shl/BitAnd/BitOr on 8-bit vectors (exact)", "std semantics of slice::get, Option::unwrap, RangeInclusive<char>, Vec::append/push"], "exhaustive": True})
    chk.assumptions += ["the 3-byte / 4-character chunking loops of Base64::encode / decode hand each group to the kernels unchanged (index arithmetic not decided; a slip there fails the existing multi-group tests)",
                        "decode rejects non-alphabet characters through convert_base64_char_to_number's Err (R3); the `char as u8` truncation in decode is not decided here"]
    chk.undecided = ["the grouping loops; behaviour on text whose length is not a multiple of 4"]
    return chk.finish()
