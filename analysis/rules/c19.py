"""C19 — JSON serialisation round-trips and is valid JSON (one agreement clause: the readers' value-kind dispatch accepts every
first character the writer can emit; sibling dispatchers agree).  Value-level round trip is not decided."""
from ..callgraph import callee_name
from ..cfg import cfg_of, term_succs
from ..dataflow import du_of, place_key
from ..framework import Check
from ..guards import strip_casts

DISPATCHERS = ("json::object::JSON::parse_as_properties", "json::array::RawUnprocessedJSONArray::split_into_vector_of_strings")
# first characters the writer can emit per value kind (Display of integers / finite floats: digits or '-')
EMITTED = {"string": ['"'], "array": ["["], "object": ["{"], "null": ["n"], "true": ["t"], "false": ["f"], "number": ["-", "<digit>"]}


def flag_kind(du, l):
    """('eq', c) / ('numeric',) when bool local l is uniquely defined as `ch == 'c'` or `ch.is_numeric()`; also returns the char local"""
    d = du.unique_def(l)
    if d is None:
        return None
    if d[0] == "assign" and d[3]["k"] == "binop" and d[3]["op"] == "Eq":
        a, b = d[3]["ops"]
        va, vb = du.val_operand(a), du.val_operand(b)
        for x, y, xo in ((va, vb, a), (vb, va, b)):
            if y[0] == "const" and isinstance(y[1], dict) and "char" in y[1] and xo.get("k") in ("copy", "move"):
                return ("eq", y[1]["char"], du.canon(place_key(xo))[0], d[1])
    if d[0] == "call":
        c = callee_name(d[3]) or ""
        if c.endswith("impl char>::is_numeric") or c.endswith("impl char>::is_ascii_digit") or c.endswith("impl char>::is_digit"):
            a = d[3]["args"][0]
            if a.get("k") in ("copy", "move"):
                return ("numeric", None, du.canon(place_key(a))[0], d[1])
    return None


class KindEval:
    """path-sensitive exploration with kind flags fixed by the first-character class; returns the values the rejection flag can take"""

    def __init__(self, fn, atoms, tracked, target_switch, flags=None, ch=None, inner_blocks=frozenset(), char_locals=frozenset()):
        self.fn, self.atoms, self.tracked, self.target = fn, atoms, tracked, target_switch
        self.cfg = cfg_of(fn)
        self.du = du_of(fn)
        self.flags = flags or {}
        self.ch = ch
        self.inner = inner_blocks
        self.char_locals = char_locals
        self.tracked = set(tracked) | set(self.flags)

    def class_value(self, l):
        kind, c, chl, defb = self.flags[l]
        if kind == "eq":
            return c == self.ch
        return self.ch == "<digit>"

    def ev_operand(self, o, env, depth=0):
        if o.get("k") == "const":
            return o.get("v") if isinstance(o.get("v"), bool) else None
        if o.get("k") in ("copy", "move") and not o["p"]:
            return self.ev_local(o["l"], env, depth)
        return None

    def ev_rvalue(self, rv, env):
        if rv["k"] == "use":
            return self.ev_operand(rv["ops"][0], env)
        if rv["k"] == "unop" and rv["op"] == "Not":
            x = self.ev_operand(rv["ops"][0], env)
            return None if x is None else (not x)
        if rv["k"] == "binop" and rv["op"] in ("BitAnd", "BitOr"):
            a, b = self.ev_operand(rv["ops"][0], env), self.ev_operand(rv["ops"][1], env)
            if rv["op"] == "BitAnd":
                if a is False or b is False:
                    return False
                return True if (a is True and b is True) else None
            if a is True or b is True:
                return True
            return False if (a is False and b is False) else None
        if rv["k"] == "binop" and rv["op"] in ("Eq", "Ne"):
            # comparison of the dispatch character with a character constant, written inline
            a, b = rv["ops"]
            for x, y in ((a, b), (b, a)):
                if x.get("k") in ("copy", "move") and self.du.canon(place_key(x))[0] in self.char_locals and not self.du.canon(place_key(x))[1]:
                    vy = self.du.val_operand(y)
                    if vy[0] == "const" and isinstance(vy[1], dict) and "char" in vy[1]:
                        if not env.get("fresh", True):
                            return None
                        r = (vy[1]["char"] == self.ch)
                        return r if rv["op"] == "Eq" else (not r)
        return None

    def ev_local(self, l, env, depth=0):
        if depth > 12:
            return None
        if l in self.tracked:
            return env.get(l)
        if l in self.atoms:
            return self.atoms[l]
        d = self.du.unique_def(l)
        if d is None or d[0] != "assign":
            return None
        rv = d[3]
        if rv["k"] == "use":
            return self.ev_operand(rv["ops"][0], env, depth + 1)
        if rv["k"] == "unop" and rv["op"] == "Not":
            x = self.ev_operand(rv["ops"][0], env, depth + 1)
            return None if x is None else (not x)
        if rv["k"] == "binop" and rv["op"] in ("BitAnd", "BitOr"):
            a, b = self.ev_operand(rv["ops"][0], env, depth + 1), self.ev_operand(rv["ops"][1], env, depth + 1)
            if rv["op"] == "BitAnd":
                if a is False or b is False:
                    return False
                return True if (a is True and b is True) else None
            if a is True or b is True:
                return True
            return False if (a is False and b is False) else None
        return None

    def run(self):
        vals = set()
        start = (self.cfg.entry, (("fresh", True),))
        seen = {start}
        stack = [start]
        steps = 0
        while stack:
            steps += 1
            if steps > 60000:
                vals.add(None)
                break
            b, envt = stack.pop()
            env = {(int(k) if k.lstrip("-").isdigit() else k): v for k, v in envt}
            blk = self.cfg.blocks[b]
            for s in blk["stmts"]:
                if s["k"] == "assign" and not s["place"]["p"] and s["place"]["l"] in self.char_locals:
                    # the dispatch character is (re)read: inside an inner loop it is no longer the first character of the value
                    env["fresh"] = b not in self.inner
                if s["k"] == "assign" and not s["place"]["p"] and s["place"]["l"] in self.flags:
                    env[s["place"]["l"]] = self.class_value(s["place"]["l"]) if env.get("fresh", True) else None
                    continue
                if s["k"] == "assign" and not s["place"]["p"] and s["place"]["l"] in self.tracked:
                    env[s["place"]["l"]] = self.ev_rvalue(s["rv"], env)
            t = blk["term"]
            succs = term_succs(t)
            if t["k"] == "call" and not t["dest"]["p"] and t["dest"]["l"] in self.char_locals:
                env["fresh"] = b not in self.inner
            if t["k"] == "call" and not t["dest"]["p"] and t["dest"]["l"] in self.flags:
                env[t["dest"]["l"]] = self.class_value(t["dest"]["l"]) if env.get("fresh", True) else None
            elif t["k"] == "call" and not t["dest"]["p"] and t["dest"]["l"] in self.tracked:
                env[t["dest"]["l"]] = None
            if t["k"] == "switch" and t.get("discr_ty") == "bool":
                x = self.ev_operand(t["discr"], env)
                if b == self.target:
                    vals.add(x)
                if x is not None:
                    for val, tb in t["targets"]:
                        succs = [tb] if bool(val) == x else [t["otherwise"]]
            for s_ in succs:
                if s_ not in self.cfg.blocks:
                    continue
                st = (s_, tuple(sorted((str(k), v) for k, v in env.items())))
                if st not in seen:
                    seen.add(st)
                    stack.append(st)
        return vals


def find_rejection(fn):
    """(R local, switch block) : a multi-def bool local assigned `false` on >= 3 short-circuit exits, whose true edge leads straight to an Err return"""
    cfg = cfg_of(fn)
    du = du_of(fn)
    out = []
    for sb in cfg.live_blocks():
        st = cfg.blocks[sb]["term"]
        if st["k"] != "switch" or st.get("discr_ty") != "bool":
            continue
        o = st["discr"]
        if o.get("k") not in ("copy", "move") or o["p"]:
            continue
        l = du.canon(place_key(o))[0]
        defs = du.defs.get(l, [])
        fblocks = [d[1] for d in defs if d[0] == "assign" and d[3]["k"] == "use" and d[3]["ops"][0].get("k") == "const" and d[3]["ops"][0].get("v") is False]
        # an `a && b && c ...` chain lowers to switches that all jump to one `flag = false` block: count its predecessors
        nfalse = sum(len(cfg.pred.get(fb, [])) for fb in fblocks)
        if nfalse < 3 or len(defs) < 2:
            continue
        # true edge -> a block region that assigns _0 = Err and returns without further branching on data
        true_t = st["otherwise"]
        b, ok = true_t, False
        for _ in range(40):
            blk = cfg.blocks[b]
            if any(s["k"] == "assign" and s["place"]["l"] == 0 and s["rv"]["k"] == "aggregate" and s["rv"].get("variant") == "Err" for s in blk["stmts"]):
                ok = True
                break
            if len(cfg.succ[b]) != 1:
                break
            b = cfg.succ[b][0]
        if ok:
            out.append((l, sb, nfalse))
    return out


def run(ctx):
    F, G, R = ctx.F, ctx.G, ctx.R
    chk = Check("C19", ctx.tier, "For every first character the JSON writer can emit (\" [ { n t f - digit) the 'unknown value kind' rejection of both readers is infeasible (path-sensitive evaluation with the kind flags fixed by the character class); sibling dispatchers accept the same classes.")
    chk.technique = "finite-domain abstract interpretation of the value-kind dispatch over first-character classes (kind flags extracted from MIR, rejection flag evaluated path-sensitively)"
    chk.analysed = ctx.analysed_summary()
    chk.extra["exhaustive"] = True
    r1 = chk.rule("R1-reader-covers-writer", "in each dispatcher, for each first-character class the writer emits, the rejection flag of the kind dispatch evaluates to definitely false", floor=16)
    accept = {}
    for name in DISPATCHERS:
        fn = F.fns.get(name)
        if fn is None:
            r1.violate("C19|R1|anchor-missing|%s" % name, "%s not found" % name)
            continue
        du = du_of(fn)
        cfg = cfg_of(fn)
        rej = find_rejection(fn)
        if not rej:
            r1.violate("C19|R1|%s|no-rejection-flag" % name, "%s: the 'unknown kind' rejection (a conjunction of negated kind flags leading to Err) was not found (anchor missing; fail closed)" % name, fn.file, fn.span["line"], name)
            continue
        # the rejection with the most conjuncts is the kind dispatch
        rl, rsb, nf = sorted(rej, key=lambda x: -x[2])[0]
        # kind flags: unique-def bool locals `ch == 'c'` / `ch.is_numeric()`
        flags = {}
        for l in range(len(fn.locals)):
            if fn.local_ty(l) != "bool":
                continue
            fk = flag_kind(du, l)
            if fk:
                flags[l] = fk
        from .. import loops as L
        lps = L.loops_of(fn)
        inner_blocks = set()
        for lp in lps:
            if rsb not in lp.body:
                inner_blocks |= lp.body
        # the dispatch character: the char local that most kind flags defined outside the inner loops compare
        from collections import Counter
        cnt = Counter(v[2] for v in flags.values() if v[3] not in inner_blocks)
        if not cnt:
            r1.violate("C19|R1|%s|no-kind-flags" % name, "%s: no kind flags found" % name, fn.file, fn.span["line"], name)
            continue
        dispatch_char = cnt.most_common(1)[0][0]
        flags = {l: v for l, v in flags.items() if v[2] == dispatch_char}
        char_locals = {dispatch_char}
        tracked = {rl}
        for l in range(len(fn.locals)):
            # user-named multi-def bool locals (`is_number = a || b`, `_is_root_opening_curly_brace`, ...) are tracked path-sensitively;
            # compiler drop flags (unnamed, many defs) are not
            if fn.local_ty(l) == "bool" and 1 < len(du.defs.get(l, [])) <= 3 and l != rl and fn.local_name(l) and all(d[0] == "assign" for d in du.defs[l]):
                tracked.add(l)
        accepted = []
        for kind, chars in EMITTED.items():
            for ch in chars:
                vals = KindEval(fn, {}, tracked, rsb, flags=flags, ch=ch, inner_blocks=frozenset(inner_blocks), char_locals=frozenset(char_locals)).run()
                ok = vals <= {False} and bool(vals)
                if ok:
                    accepted.append(ch)
                r1.instance({"reader": name, "value_kind": kind, "first_char": ch, "rejection_flag_values": sorted(str(v) for v in vals)}, ok)
                if not ok:
                    r1.violate("C19|R1|%s|%s" % (name, ch), "%s: a value starting with %r (which the writer emits for kind '%s') can reach the 'unknown value kind' rejection: the kind tests accept it but the rejection test does not exclude it (or no kind test recognises it)" % (name, ch, kind),
                               fn.file, cfg.blocks[rsb]["term"]["span"]["line"], name)
        accept[name] = accepted
    r2 = chk.rule("R2-siblings-agree", "the object scanner and the array splitter accept the same first-character classes", floor=1)
    if len(accept) == 2:
        a, b = list(accept.values())
        ok = sorted(a) == sorted(b)
        r2.instance({"object_scanner": sorted(accept[DISPATCHERS[0]]), "array_splitter": sorted(accept[DISPATCHERS[1]])}, ok)
        if not ok:
            r2.violate("C19|R2|disagree", "the two value-kind dispatchers accept different first characters: %s vs %s" % (sorted(a), sorted(b)))
    # R3: the assumption behind EMITTED - numbers are written through Display
    r3 = chk.rule("R3-writer-uses-display", "the JSON writers format values through Display / to_string only (Debug or exponent formatting of numbers produces text such as '-1e-5' whose second '-' / 'e' forms the readers do not accept)", floor=3)
    import re as _re
    writers = [n for n, f in F.fns.items() if f.crate == "rws" and f.kind != "Promoted" and _re.search(r"^json::|as json::", n) and _re.search(r"to_json|to_string|::fmt$|float_number_with_precision", n.split("::")[-1] if not n.startswith("<") else n)]
    wseen = G.reachable(writers)
    nw = 0
    for n in sorted(wseen):
        fn = F.fns.get(n)
        if fn is None or fn.crate != "rws":
            continue
        for bid, t in fn.calls():
            c = callee_name(t) or ""
            if c.startswith("core::fmt::rt::Argument::<'_>::new_"):
                nw += 1
                kind = c.rsplit("::new_", 1)[1]
                ok = kind == "display"
                r3.instance({"fn": n, "format_trait": kind, "line": t["span"]["line"]}, ok)
                if not ok and not (fn.def_.endswith("as std::fmt::Debug>::fmt")):
                    r3.violate("C19|R3|%s|%s" % (n, kind), "%s formats a value with {:%s} instead of Display: the text is no longer what the readers' number grammar accepts" % (n, "?" if kind == "debug" else kind), t["span"]["file"], t["span"]["line"], n)
    if nw == 0:
        r3.violate("C19|R3|anchor-missing", "no formatting call found in the JSON writers (anchor missing)")
    # R4: the readers end a string at the next quotation mark and do not undo escapes, so the writers must emit string values verbatim
    r4 = chk.rule("R4-writer-emits-strings-verbatim", "no JSON writer produces an escape sequence (a constant containing a backslash, str::replace / escape_* on a value): the readers do not unescape, so escaped text would not read back", floor=3)
    from ..inline import is_private_helper
    for n in sorted(wseen):
        fn = F.fns.get(n)
        if fn is None or fn.crate != "rws" or fn.kind == "Promoted":
            continue
        du_ = du_of(fn)
        bad = []
        for b in fn.blocks:
            if b.get("cleanup"):
                continue
            ops = [o for st in b["stmts"] if st["k"] == "assign" for o in st["rv"].get("ops", [])]
            t = b["term"]
            if t["k"] == "call":
                ops += t["args"]
                c = callee_name(t) or ""
                if _re.search(r"impl str>::(replace|replacen|escape_default|escape_debug|escape_unicode)$|char>::escape_", c):
                    bad.append((c.split("::")[-1], t["span"]["line"]))
            for o in ops:
                if o.get("k") == "const" and isinstance(o.get("v"), str) and "\\" in o["v"]:
                    bad.append(("constant %r" % o["v"], (t.get("span") or {}).get("line", fn.span["line"])))
        r4.instance({"fn": n, "escape_producing_constructs": [x[0] for x in bad]}, not bad)
        if bad:
            r4.violate("C19|R4|%s" % n, "%s produces escaped text (%s): the readers take a string up to the next quotation mark and never unescape, so such a value does not read back" % (n, ", ".join(sorted({x[0] for x in bad}))), fn.file, bad[0][1], n)
    chk.assumptions += ["the writer emits integers and finite floats through Display (first character a digit or '-'), strings in double quotes, true / false / null literally",
                        "kind flags computed from the dispatch character before any inner loop are fixed by the first-character class; flags computed after an inner loop may see another character and are treated as unknown"]
    chk.undecided = ["digits of floats / exponents, string content and escaping, nesting depth, equality of values after the round trip"]
    return chk.finish()
