"""C19 — JSON serialisation round-trips and is valid JSON (one agreement clause: the readers' value-kind dispatch accepts every
first character the writer can emit; sibling dispatchers agree).  Value-level round trip is not decided."""
import re
from ..callgraph import callee_name
from ..cfg import cfg_of, term_succs
from ..dataflow import du_of, place_key
from ..framework import Check
from ..guards import strip_casts

DISPATCHERS = ("json::object::JSON::parse_as_properties", "json::array::RawUnprocessedJSONArray::split_into_vector_of_strings")
# first characters the writer can emit per value kind (Display of integers / finite floats: digits or '-')
EMITTED = {"string": ['"'], "array": ["["], "object": ["{"], "null": ["n"], "true": ["t"], "false": ["f"], "number": ["-", "<digit>"]}


def flag_kind(du, l):
    """('eq', c) / ('numeric',) when bool local l is uniquely defined as `ch == 'c'` or `ch.is_numeric()`; also returns the char local"""
    d = du.unique_def(l)
    if d is None:
        return None
    if d[0] == "assign" and d[3]["k"] == "binop" and d[3]["op"] == "Eq":
        a, b = d[3]["ops"]
        va, vb = du.val_operand(a), du.val_operand(b)
        for x, y, xo in ((va, vb, a), (vb, va, b)):
            if y[0] == "const" and isinstance(y[1], dict) and "char" in y[1] and xo.get("k") in ("copy", "move"):
                return ("eq", y[1]["char"], du.canon(place_key(xo))[0], d[1], du.canon(place_key(xo)))
    if d[0] == "call":
        c = callee_name(d[3]) or ""
        m = _re_pred.search(c)
        if m and m.group(1) in CHAR_PREDS and d[3]["args"]:
            a = d[3]["args"][0]
            if a.get("k") in ("copy", "move"):
                return (CHAR_PREDS[m.group(1)], None, du.canon(place_key(a))[0], d[1], du.canon(place_key(a)))
    return None


import re as _re_mod
_re_pred = _re_mod.compile(r"impl char>::(\w+)$")
# std predicates of `char` the dispatchers use, by the class of characters they hold for
CHAR_PREDS = {"is_numeric": "numeric", "is_ascii_digit": "numeric", "is_digit": "numeric",
              "is_whitespace": "ws", "is_ascii_whitespace": "ws", "is_control": "control", "is_ascii_control": "control",
              "is_alphabetic": "alpha", "is_ascii_alphabetic": "alpha", "is_ascii_lowercase": "alpha", "is_lowercase": "alpha",
              "is_alphanumeric": "alnum", "is_ascii_alphanumeric": "alnum", "is_ascii_punctuation": "punct"}


def pred_value(kind, ch):
    """value of a std char predicate on a first character the writer emits (\" [ { n t f - or a decimal digit)"""
    digit = ch == "<digit>"
    if kind == "numeric":
        return digit
    if kind in ("ws", "control"):
        return False
    if kind == "alpha":
        return ch in ("n", "t", "f")
    if kind == "alnum":
        return digit or ch in ("n", "t", "f")
    if kind == "punct":
        return ch in ('"', "[", "{", "-")
    return None


class KindEval:
    """path-sensitive exploration with kind flags fixed by the first-character class; returns the values the rejection flag can take"""

    def __init__(self, fn, atoms, tracked, target_switch, flags=None, ch=None, inner_blocks=frozenset(), char_locals=frozenset()):
        self.fn, self.atoms, self.tracked, self.target = fn, atoms, tracked, target_switch
        self.cfg = cfg_of(fn)
        self.du = du_of(fn)
        self.flags = flags or {}
        self.ch = ch
        self.inner = inner_blocks
        self.char_locals = char_locals
        self.tracked = set(tracked) | set(self.flags)

    def class_value(self, l):
        kind, c = self.flags[l][0], self.flags[l][1]
        if kind == "eq":
            return c == self.ch
        return pred_value(kind, self.ch)

    def is_dispatch_operand(self, x):
        ck = self.du.canon(place_key(x))
        return ck[0] in self.char_locals and not ck[1]

    def ev_operand(self, o, env, depth=0):
        if o.get("k") == "const":
            return o.get("v") if isinstance(o.get("v"), bool) else None
        if o.get("k") in ("copy", "move") and not o["p"]:
            return self.ev_local(o["l"], env, depth)
        return None

    def ev_rvalue(self, rv, env):
        if rv["k"] == "use":
            return self.ev_operand(rv["ops"][0], env)
        if rv["k"] == "unop" and rv["op"] == "Not":
            x = self.ev_operand(rv["ops"][0], env)
            return None if x is None else (not x)
        if rv["k"] == "binop" and rv["op"] in ("BitAnd", "BitOr"):
            a, b = self.ev_operand(rv["ops"][0], env), self.ev_operand(rv["ops"][1], env)
            if rv["op"] == "BitAnd":
                if a is False or b is False:
                    return False
                return True if (a is True and b is True) else None
            if a is True or b is True:
                return True
            return False if (a is False and b is False) else None
        if rv["k"] == "binop" and rv["op"] in ("Eq", "Ne"):
            # comparison of the dispatch character with a character constant, written inline
            a, b = rv["ops"]
            for x, y in ((a, b), (b, a)):
                if x.get("k") in ("copy", "move") and self.is_dispatch_operand(x):
                    vy = self.du.val_operand(y)
                    if vy[0] == "const" and isinstance(vy[1], dict) and "char" in vy[1]:
                        if not env.get("fresh", True):
                            return None
                        r = (vy[1]["char"] == self.ch)
                        return r if rv["op"] == "Eq" else (not r)
        return None

    def ev_local(self, l, env, depth=0):
        if depth > 12:
            return None
        if l in self.tracked:
            return env.get(l)
        if l in self.atoms:
            return self.atoms[l]
        d = self.du.unique_def(l)
        if d is None or d[0] != "assign":
            return None
        rv = d[3]
        if rv["k"] == "use":
            return self.ev_operand(rv["ops"][0], env, depth + 1)
        if rv["k"] == "unop" and rv["op"] == "Not":
            x = self.ev_operand(rv["ops"][0], env, depth + 1)
            return None if x is None else (not x)
        if rv["k"] == "binop" and rv["op"] in ("BitAnd", "BitOr"):
            a, b = self.ev_operand(rv["ops"][0], env, depth + 1), self.ev_operand(rv["ops"][1], env, depth + 1)
            if rv["op"] == "BitAnd":
                if a is False or b is False:
                    return False
                return True if (a is True and b is True) else None
            if a is True or b is True:
                return True
            return False if (a is False and b is False) else None
        return None

    def run(self):
        vals = set()
        start = (self.cfg.entry, (("fresh", True),))
        seen = {start}
        stack = [start]
        steps = 0
        while stack:
            steps += 1
            if steps > 60000:
                vals.add(None)
                break
            b, envt = stack.pop()
            env = {(int(k) if k.lstrip("-").isdigit() else k): v for k, v in envt}
            blk = self.cfg.blocks[b]
            for s in blk["stmts"]:
                if s["k"] == "assign" and not s["place"]["p"] and s["place"]["l"] in self.char_locals:
                    # the dispatch character is (re)read: inside an inner loop it is no longer the first character of the value
                    env["fresh"] = b not in self.inner
                if s["k"] == "assign" and not s["place"]["p"] and s["place"]["l"] in self.flags:
                    env[s["place"]["l"]] = self.class_value(s["place"]["l"]) if env.get("fresh", True) else None
                    continue
                if s["k"] == "assign" and not s["place"]["p"] and s["place"]["l"] in self.tracked:
                    env[s["place"]["l"]] = self.ev_rvalue(s["rv"], env)
            t = blk["term"]
            succs = term_succs(t)
            if t["k"] == "call" and not t["dest"]["p"] and t["dest"]["l"] in self.char_locals:
                env["fresh"] = b not in self.inner
            if t["k"] == "call" and not t["dest"]["p"] and t["dest"]["l"] in self.flags:
                env[t["dest"]["l"]] = self.class_value(t["dest"]["l"]) if env.get("fresh", True) else None
            elif t["k"] == "call" and not t["dest"]["p"] and t["dest"]["l"] in self.tracked:
                env[t["dest"]["l"]] = None
            if t["k"] == "switch" and t.get("discr_ty") == "bool":
                x = self.ev_operand(t["discr"], env)
                if b == self.target:
                    vals.add(x)
                if x is not None:
                    for val, tb in t["targets"]:
                        succs = [tb] if bool(val) == x else [t["otherwise"]]
            for s_ in succs:
                if s_ not in self.cfg.blocks:
                    continue
                st = (s_, tuple(sorted((str(k), v) for k, v in env.items())))
                if st not in seen:
                    seen.add(st)
                    stack.append(st)
        return vals

_SINGLE = {c for cs in EMITTED.values() for c in cs if len(c) == 1}


def _is_char_read(F, G, t, cache):
    """the call takes more input: a std Read / BufRead method, `next` of a character iterator, or a crate function that reaches one"""
    c = t.get("callee") or ""
    n = callee_name(t) or ""
    if c.startswith("std::io::Read::") or c.startswith("std::io::BufRead::"):
        return True
    if c in ("std::iter::Iterator::next", "core::iter::Iterator::next", "std::iter::Peekable::<I>::peek") or n.endswith("as std::iter::Iterator>::next"):
        recv = (t.get("arg_tys") or [""])[0]
        if any(x in recv for x in ("Chars", "CharIndices", "Bytes", "Peekable")):
            return True
    g = F.fns.get(n)
    if g is not None and g.crate == "rws":
        if n not in cache:
            seen = G.reachable([n])
            cache[n] = any(_is_std_read_name(F, m) for m in seen)
        return cache[n]
    return False


def _is_std_read_name(F, m):
    return " as std::io::Read>::" in m or " as std::io::BufRead>::" in m or m.startswith("std::io::Read::") or m.startswith("std::io::BufRead::")


def find_dispatch(fn):
    """(canonical access path of the dispatch character, its char locals, kind flags on it): the character that is compared with the most
    first characters of the writer, by `==` or as the scrutinee of a `match`"""
    du, cfg = du_of(fn), cfg_of(fn)
    flags, cmp = {}, {}
    for l in range(len(fn.locals)):
        if fn.local_ty(l) != "bool":
            continue
        fk = flag_kind(du, l)
        if fk:
            flags[l] = fk
            if fk[0] == "eq" and fk[1] in _SINGLE:
                cmp.setdefault(fk[4], set()).add(fk[1])
    for b in cfg.live_blocks():
        t = cfg.blocks[b]["term"]
        if t["k"] == "switch" and t.get("discr_ty") == "char" and t["discr"].get("k") in ("copy", "move"):
            ck = du.canon(place_key(t["discr"]))
            for v, _ in t["targets"]:
                if chr(v) in _SINGLE:
                    cmp.setdefault(ck, set()).add(chr(v))
    if not cmp:
        return None
    dkey = max(cmp, key=lambda k: (len(cmp[k]), -k[0]))
    if len(cmp[dkey]) < 4:
        return None
    char_locals = {l for l in range(len(fn.locals)) if fn.local_ty(l) == "char" and du.canon((l, ())) == dkey}
    if not dkey[1]:
        char_locals.add(dkey[0])
    return dkey, char_locals, {l: v for l, v in flags.items() if v[4] == dkey}


class DispatchEval(KindEval):
    """the dispatch written as a `match` on the first character (or any other shape without one rejection flag): walk from the place the
    character is read, with every test of the character decided by its class, up to the next read of input; a directly constructed Err
    that is reachable on the way, behind a test of the character, rejects a value on its first character"""

    def __init__(self, F, G, fn, flags, tracked, ch, dkey, char_locals, read_cache):
        KindEval.__init__(self, fn, {}, tracked, None, flags=flags, ch=ch, char_locals=frozenset(char_locals))
        self.F, self.G, self.dkey, self.read_cache = F, G, dkey, read_cache
        # root definitions of the character (not the copies of one char local into another)
        self.roots = set()
        for l in char_locals:
            for d in self.du.defs.get(l, []):
                if d[0] == "assign" and d[3]["k"] == "use" and d[3]["ops"][0].get("k") in ("copy", "move") and not d[3]["ops"][0]["p"] and d[3]["ops"][0]["l"] in char_locals:
                    continue
                self.roots.add((d[1], d[2]))
        # bool locals whose value depends on the character
        dep = set(self.flags)
        changed = True
        while changed:
            changed = False
            for l in range(len(fn.locals)):
                if l in dep or fn.local_ty(l) != "bool":
                    continue
                for d in self.du.defs.get(l, []):
                    if d[0] != "assign":
                        continue
                    ops = [o for o in d[3].get("ops", []) if o.get("k") in ("copy", "move")]
                    if any((not o["p"] and o["l"] in dep) or self.is_dispatch_operand(o) for o in ops):
                        dep.add(l)
                        changed = True
                        break
        self.dep = dep
        # a lookup of the character in a constant table: `TABLE.iter().find(|(first, ..)| *first == ch)` - found exactly when the
        # character is one of the table's keys
        self.tabres = {}
        try:
            from .c14 import items_mentioned
            char_tables = []
            for item in sorted(items_mentioned(F, fn)):
                v = (F.consts.get(item) or {}).get("v")
                rows = v.get("fields") if isinstance(v, dict) else None
                if isinstance(rows, dict) and rows:
                    keys = set()
                    for r in rows.values():
                        fs = (r or {}).get("fields") if isinstance(r, dict) else None
                        cs = [x["char"] for x in (fs or {}).values() if isinstance(x, dict) and "char" in x] if isinstance(fs, dict) else ([r["char"]] if isinstance(r, dict) and "char" in r else [])
                        if len(cs) == 1:
                            keys.add(cs[0])
                        else:
                            keys = None
                            break
                    if keys:
                        char_tables.append(keys)
            if len(char_tables) == 1:
                for bid, t in fn.calls():
                    cn = callee_name(t) or ""
                    if not cn.endswith(("::find", "::any", "::position")) or t.get("dest") is None or t["dest"]["p"]:
                        continue
                    cls = [x for x in t.get("fn_items", []) if x in F.fns and F.fns[x].kind == "Closure"]
                    if len(cls) != 1:
                        continue
                    cf = F.fns[cls[0]]
                    eq_only = any(st["k"] == "assign" and st["rv"]["k"] == "binop" and st["rv"].get("op") == "Eq" for b_ in cf.blocks for st in b_["stmts"]) and \
                        not any(st["k"] == "assign" and st["rv"]["k"] == "binop" and st["rv"].get("op") in ("Ne", "Lt", "Le", "Gt", "Ge") for b_ in cf.blocks for st in b_["stmts"]) and \
                        not any(True for _ in cf.calls())
                    captures_char = False
                    for b_ in fn.blocks:
                        for st in b_["stmts"]:
                            if st["k"] == "assign" and st["rv"].get("closure") == cf.def_:
                                for o in st["rv"].get("ops", []):
                                    if o.get("k") in ("copy", "move"):
                                        vv = self.du.val_operand(o)
                                        if vv[0] == "ref" and not vv[1][1] and vv[1][0] in char_locals:
                                            captures_char = True
                                        if vv[0] in ("ref", "place") and self.du.canon((vv[1][0], tuple(e for e in vv[1][1] if e != "*"))) == dkey:
                                            captures_char = True
                                        if vv[0] == "place" and not vv[1][1] and vv[1][0] in char_locals:
                                            captures_char = True
                    if eq_only and captures_char:
                        self.tabres[bid] = (char_tables[0], cn.rsplit("::", 1)[-1])
        except Exception as _e:
            import os as _os
            if _os.environ.get('RWS_DEBUG'):
                raise
            self.tabres = {}

    def is_dispatch_operand(self, x):
        return self.du.canon(place_key(x)) == self.dkey or (not x["p"] and x["l"] in self.char_locals)

    def char_targets(self, t):
        tg = {chr(v): tb for v, tb in t["targets"]}
        if self.ch == "<digit>":
            out = {tb for c, tb in tg.items() if c in "0123456789"}
            if sum(1 for c in tg if c in "0123456789") < 10:
                out.add(t["otherwise"])
            return sorted(out)
        return [tg.get(self.ch, t["otherwise"])]

    def run(self):
        """(rejections, reads reached, complete): rejections = blocks that construct an Err behind a test of the character"""
        rej, reads, complete = set(), 0, True
        stack, seen = [], set()
        from .. import loops as L
        lps = L.loops_of(self.fn)
        depth = {r: sum(1 for lp in lps if r[0] in lp.body) for r in self.roots}
        for rb, ri in self.roots:
            # the first character of a value is read in the outermost loop; reads nested deeper continue a token
            if depth[(rb, ri)] == min(depth.values()):
                stack.append((rb, ri, (("tested", False),)))
        steps = 0
        while stack:
            steps += 1
            if steps > 120000:
                complete = False
                break
            b, start, envt = stack.pop()
            env = {(int(k) if k.lstrip("-").isdigit() else k): v for k, v in envt}
            env["fresh"] = True
            blk = self.cfg.blocks[b]
            stop = False
            first = 0 if start is None else (len(blk["stmts"]) if start == "term" else start + 1)
            for i, s in enumerate(blk["stmts"]):
                if i < first or s["k"] != "assign":
                    continue
                pl = s["place"]
                if not pl["p"] and (b, i) in self.roots:
                    reads += 1
                    stop = True
                    break
                if not pl["p"] and pl["l"] in self.flags:
                    env[pl["l"]] = self.class_value(pl["l"])
                    continue
                if not pl["p"] and pl["l"] in self.tracked:
                    env[pl["l"]] = self.ev_rvalue(s["rv"], env)
                    continue
                if not pl["p"] and s["rv"]["k"] == "aggregate" and s["rv"].get("variant") == "Err" and env.get("tested"):
                    rej.add(b)
            if stop:
                continue
            t = blk["term"]
            succs = term_succs(t)
            if t["k"] == "call" and start != "term":
                if (b, "term") in self.roots or _is_char_read(self.F, self.G, t, self.read_cache):
                    reads += 1
                    continue
                d = t.get("dest")
                if d is not None and not d["p"] and d["l"] in self.flags:
                    env[d["l"]] = self.class_value(d["l"])
                elif d is not None and not d["p"] and d["l"] in self.tracked:
                    env[d["l"]] = None
            if t["k"] == "call":
                succs = [x for x in [t.get("target")] if isinstance(x, int)]
            if t["k"] == "switch" and t.get("discr_ty") == "bool":
                x = self.ev_operand(t["discr"], env)
                o = t["discr"]
                if o.get("k") in ("copy", "move") and not o["p"] and (o["l"] in self.dep or self.du.canon(place_key(o))[0] in self.dep):
                    env["tested"] = True
                if x is not None:
                    for val, tb in t["targets"]:
                        succs = [tb] if bool(val) == x else [t["otherwise"]]
            elif t["k"] == "switch" and t.get("discr_ty") == "char" and t["discr"].get("k") in ("copy", "move") and self.is_dispatch_operand(t["discr"]):
                env["tested"] = True
                succs = self.char_targets(t)
            elif t["k"] == "switch" and self.tabres:
                dv = self.du.val_operand(t["discr"])
                pv = self.du.val_place(self.du.canon(dv[1])) if dv[0] == "discr" else ("none",)
                if pv[0] == "call" and pv[3] in self.tabres and self.ch != "<digit>":
                    keys, how = self.tabres[pv[3]]
                    hit = 1 if self.ch in keys else 0
                    env["tested"] = True
                    succs = [tb for val, tb in t["targets"] if val == hit] or [t["otherwise"]]
            env.pop("fresh", None)
            for s_ in succs:
                if s_ not in self.cfg.blocks or self.cfg.blocks[s_].get("cleanup"):
                    continue
                st = (s_, None, tuple(sorted((str(k), v) for k, v in env.items())))
                if st not in seen:
                    seen.add(st)
                    stack.append(st)
        return rej, reads, complete


def find_rejection(fn):
    """(R local, switch block) : a multi-def bool local assigned `false` on >= 3 short-circuit exits, whose true edge leads straight to an Err return"""
    cfg = cfg_of(fn)
    du = du_of(fn)
    out = []
    for sb in cfg.live_blocks():
        st = cfg.blocks[sb]["term"]
        if st["k"] != "switch" or st.get("discr_ty") != "bool":
            continue
        o = st["discr"]
        if o.get("k") not in ("copy", "move") or o["p"]:
            continue
        l = du.canon(place_key(o))[0]
        defs = du.defs.get(l, [])
        fblocks = [d[1] for d in defs if d[0] == "assign" and d[3]["k"] == "use" and d[3]["ops"][0].get("k") == "const" and d[3]["ops"][0].get("v") is False]
        # an `a && b && c ...` chain lowers to switches that all jump to one `flag = false` block: count its predecessors
        nfalse = sum(len(cfg.pred.get(fb, [])) for fb in fblocks)
        if nfalse < 3 or len(defs) < 2:
            continue
        # true edge -> a block region that assigns _0 = Err and returns without further branching on data
        true_t = st["otherwise"]
        b, ok = true_t, False
        for _ in range(40):
            blk = cfg.blocks[b]
            if any(s["k"] == "assign" and s["place"]["l"] == 0 and s["rv"]["k"] == "aggregate" and s["rv"].get("variant") == "Err" for s in blk["stmts"]):
                ok = True
                break
            if len(cfg.succ[b]) != 1:
                break
            b = cfg.succ[b][0]
        if ok:
            out.append((l, sb, nfalse))
    return out


def run(ctx):
    F, G, R = ctx.F, ctx.G, ctx.R
    chk = Check("C19", ctx.tier, "For every first character the JSON writer can emit (\" [ { n t f - digit) the 'unknown value kind' rejection of both readers is infeasible (path-sensitive evaluation with the kind flags fixed by the character class); sibling dispatchers accept the same classes.")
    chk.technique = "finite-domain abstract interpretation of the value-kind dispatch over first-character classes (kind flags extracted from MIR, rejection flag evaluated path-sensitively)"
    chk.analysed = ctx.analysed_summary()
    chk.extra["exhaustive"] = True
    r1 = chk.rule("R1-reader-covers-writer", "in each dispatcher, for each first-character class the writer emits, the rejection flag of the kind dispatch evaluates to definitely false", floor=16)
    accept = {}
    read_cache = {}
    for name in DISPATCHERS:
        fn = F.fns.get(name)
        if fn is None:
            r1.violate("C19|R1|anchor-missing|%s" % name, "%s not found" % name)
            continue
        du = du_of(fn)
        cfg = cfg_of(fn)
        rej = find_rejection(fn)
        if not rej:
            # no single rejection flag (the dispatch is a `match` on the character, or sits in helpers): walk from the read of the character
            fi = ctx.inl(fn)
            disp = find_dispatch(fi)
            if disp is None:
                r1.violate("C19|R1|%s|no-rejection-flag" % name, "%s: neither the 'unknown kind' rejection (a conjunction of negated kind flags leading to Err) nor a character that is compared with the writer's first characters was found (anchor missing; fail closed)" % name, fn.file, fn.span["line"], name)
                continue
            dkey, chl, dflags = disp
            dui = du_of(fi)
            tracked = {l for l in range(len(fi.locals)) if fi.local_ty(l) == "bool" and 1 < len(dui.defs.get(l, [])) <= 3 and fi.local_name(l) and all(d[0] == "assign" for d in dui.defs[l])}
            accepted = []
            for kind, chars in EMITTED.items():
                for ch in chars:
                    rj, reads, complete = DispatchEval(F, G, fi, dflags, tracked, ch, dkey, chl, read_cache).run()
                    ok = not rj and reads > 0 and complete
                    if ok:
                        accepted.append(ch)
                    lines = sorted({cfg_of(fi).blocks[b]["term"]["span"]["line"] for b in rj})
                    r1.instance({"reader": name, "value_kind": kind, "first_char": ch, "mode": "walk from the read of the character to the next read", "err_constructed_behind_a_test_of_the_character_at_lines": lines, "next_reads_reached": reads}, ok)
                    if not ok:
                        r1.violate("C19|R1|%s|%s" % (name, ch), "%s: a value starting with %r (which the writer emits for kind '%s') %s" % (name, ch, kind,
                                   "reaches an Err built on the strength of that character alone, before any further input is read (lines %s)" % lines if rj else "could not be followed to the next read of input (exploration incomplete; fail closed)"),
                                   fi.file, lines[0] if lines else fn.span["line"], name)
            accept[name] = accepted
            continue
        # the rejection with the most conjuncts is the kind dispatch
        rl, rsb, nf = sorted(rej, key=lambda x: -x[2])[0]
        # kind flags: unique-def bool locals `ch == 'c'` / `ch.is_numeric()`
        flags = {}
        for l in range(len(fn.locals)):
            if fn.local_ty(l) != "bool":
                continue
            fk = flag_kind(du, l)
            if fk:
                flags[l] = fk
        from .. import loops as L
        lps = L.loops_of(fn)
        inner_blocks = set()
        for lp in lps:
            if rsb not in lp.body:
                inner_blocks |= lp.body
        # the dispatch character: the char local that most kind flags defined outside the inner loops compare
        from collections import Counter
        cnt = Counter(v[2] for v in flags.values() if v[3] not in inner_blocks)
        if not cnt:
            r1.violate("C19|R1|%s|no-kind-flags" % name, "%s: no kind flags found" % name, fn.file, fn.span["line"], name)
            continue
        dispatch_char = cnt.most_common(1)[0][0]
        flags = {l: v for l, v in flags.items() if v[2] == dispatch_char}
        char_locals = {dispatch_char}
        tracked = {rl}
        for l in range(len(fn.locals)):
            # user-named multi-def bool locals (`is_number = a || b`, `_is_root_opening_curly_brace`, ...) are tracked path-sensitively;
            # compiler drop flags (unnamed, many defs) are not
            if fn.local_ty(l) == "bool" and 1 < len(du.defs.get(l, [])) <= 3 and l != rl and fn.local_name(l) and all(d[0] == "assign" for d in du.defs[l]):
                tracked.add(l)
        accepted = []
        for kind, chars in EMITTED.items():
            for ch in chars:
                vals = KindEval(fn, {}, tracked, rsb, flags=flags, ch=ch, inner_blocks=frozenset(inner_blocks), char_locals=frozenset(char_locals)).run()
                ok = vals <= {False} and bool(vals)
                if ok:
                    accepted.append(ch)
                r1.instance({"reader": name, "value_kind": kind, "first_char": ch, "rejection_flag_values": sorted(str(v) for v in vals)}, ok)
                if not ok:
                    r1.violate("C19|R1|%s|%s" % (name, ch), "%s: a value starting with %r (which the writer emits for kind '%s') can reach the 'unknown value kind' rejection: the kind tests accept it but the rejection test does not exclude it (or no kind test recognises it)" % (name, ch, kind),
                               fn.file, cfg.blocks[rsb]["term"]["span"]["line"], name)
        accept[name] = accepted
    r2 = chk.rule("R2-siblings-agree", "the object scanner and the array splitter accept the same first-character classes", floor=1)
    if len(accept) == 2:
        a, b = list(accept.values())
        ok = sorted(a) == sorted(b)
        r2.instance({"object_scanner": sorted(accept[DISPATCHERS[0]]), "array_splitter": sorted(accept[DISPATCHERS[1]])}, ok)
        if not ok:
            r2.violate("C19|R2|disagree", "the two value-kind dispatchers accept different first characters: %s vs %s" % (sorted(a), sorted(b)))
    # R3: the assumption behind EMITTED - numbers are written through Display
    r3 = chk.rule("R3-writer-uses-display", "the JSON writers format values through Display / to_string only (Debug or exponent formatting of numbers produces text such as '-1e-5' whose second '-' / 'e' forms the readers do not accept)", floor=3)
    import re as _re
    writers = [n for n, f in F.fns.items() if f.crate == "rws" and f.kind != "Promoted" and _re.search(r"^json::|as json::", n) and _re.search(r"to_json|to_string|::fmt$|float_number_with_precision", n.split("::")[-1] if not n.startswith("<") else n)]
    wseen = G.reachable(writers)
    nw = 0
    for n in sorted(wseen):
        fn = F.fns.get(n)
        if fn is None or fn.crate != "rws":
            continue
        for bid, t in fn.calls():
            c = callee_name(t) or ""
            if c.startswith("core::fmt::rt::Argument::<'_>::new_"):
                nw += 1
                kind = c.rsplit("::new_", 1)[1]
                ok = kind == "display"
                r3.instance({"fn": n, "format_trait": kind, "line": t["span"]["line"]}, ok)
                if not ok and not (fn.def_.endswith("as std::fmt::Debug>::fmt")):
                    r3.violate("C19|R3|%s|%s" % (n, kind), "%s formats a value with {:%s} instead of Display: the text is no longer what the readers' number grammar accepts" % (n, "?" if kind == "debug" else kind), t["span"]["file"], t["span"]["line"], n)
    if nw == 0:
        r3.violate("C19|R3|anchor-missing", "no formatting call found in the JSON writers (anchor missing)")
    # R4: the readers end a string at the next quotation mark and do not undo escapes, so the writers must emit string values verbatim
    r4 = chk.rule("R4-writer-emits-strings-verbatim", "no JSON writer produces an escape sequence (a constant containing a backslash, str::replace / escape_* on a value): the readers do not unescape, so escaped text would not read back", floor=3)
    from ..inline import is_private_helper
    for n in sorted(wseen):
        fn = F.fns.get(n)
        if fn is None or fn.crate != "rws" or fn.kind == "Promoted":
            continue
        du_ = du_of(fn)
        bad = []
        for b in fn.blocks:
            if b.get("cleanup"):
                continue
            ops = [o for st in b["stmts"] if st["k"] == "assign" for o in st["rv"].get("ops", [])]
            t = b["term"]
            if t["k"] == "call":
                ops += t["args"]
                c = callee_name(t) or ""
                if _re.search(r"impl str>::(replace|replacen|escape_default|escape_debug|escape_unicode)$|char>::escape_", c):
                    bad.append((c.split("::")[-1], t["span"]["line"]))
            for o in ops:
                if o.get("k") == "const" and isinstance(o.get("v"), str) and "\\" in o["v"]:
                    bad.append(("constant %r" % o["v"], (t.get("span") or {}).get("line", fn.span["line"])))
        r4.instance({"fn": n, "escape_producing_constructs": [x[0] for x in bad]}, not bad)
        if bad:
            r4.violate("C19|R4|%s" % n, "%s produces escaped text (%s): the readers take a string up to the next quotation mark and never unescape, so such a value does not read back" % (n, ", ".join(sorted({x[0] for x in bad}))), fn.file, bad[0][1], n)
    chk.assumptions += ["the writer emits integers and finite floats through Display (first character a digit or '-'), strings in double quotes, true / false / null literally",
                        "kind flags computed from the dispatch character before any inner loop are fixed by the first-character class; flags computed after an inner loop may see another character and are treated as unknown"]
    chk.undecided = ["digits of floats / exponents, string content and escaping, nesting depth, equality of values after the round trip"]
    # ---- R6 a typed number reader parses at a width that holds every value of its element type
    r6 = chk.rule("R6-reader-width-holds-the-element-type", "every `parse::<X>()` on the way from a typed integer list reader to its result has a range that contains the reader's element type T (`parse::<i128>` then `T::try_from` loses the upper half of u128)", floor=8)
    from ..ints import ty_range
    from ..inline import is_private_helper as _iph
    for rn, rf in sorted(F.fns.items()):
        m_ = re.search(r"Result<std::vec::Vec<([iu](8|16|32|64|128|size))>", rf.ret or "")
        if rf.crate != "rws" or rf.kind not in ("Fn", "AssocFn") or not m_ or "::json::" not in ("::" + rn) or _iph(F, rn):
            continue
        T = m_.group(1)
        fam, stack_, seen_ = [rf], [rn], {rn}
        while stack_:
            x_ = stack_.pop()
            for e_ in G.out.get(x_, []):
                g_ = F.fns.get(e_.dst)
                if g_ is not None and g_.crate == "rws" and e_.dst not in seen_ and (g_.kind == "Closure" or _iph(F, e_.dst)):
                    seen_.add(e_.dst)
                    stack_.append(e_.dst)
                    fam.append(g_)
        widths = []
        for g_ in fam:
            for _, t_ in g_.calls():
                if (callee_name(t_) or "").endswith("impl str>::parse") and t_.get("gargs"):
                    widths.append((t_["gargs"][0], t_["span"]["line"], g_.def_))
        tr = ty_range(T)
        for X, line_, where_ in widths:
            if X == "T" or not re.fullmatch(r"[iu](8|16|32|64|128|size)", X or ""):
                continue        # parsed at the element type itself (generic helper instantiated per reader) / not an integer parse
            xr = ty_range(X)
            ok = xr is not None and tr is not None and xr[0] <= tr[0] and tr[1] <= xr[1]
            r6.instance({"reader": rn, "element_type": T, "parsed_as": X, "in": where_}, ok)
            if not ok:
                r6.violate("C19|R6|%s|%s" % (rn, X), "%s returns Vec<%s> but its elements are parsed as %s (in %s): values of %s outside %s are rejected or wrapped although the writer produces them" % (rn, T, X, where_, T, X), rf.file, line_, rn)
    return chk.finish()
