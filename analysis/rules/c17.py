"""C17 — form and query decoding returns the submitted fields (table agreement of the dependency's escape chains + thin wrappers)."""
import re
from ..callgraph import callee_name
from ..cfg import cfg_of
from ..dataflow import du_of, place_key, val_ref_target
from ..framework import Check
from ..taint import local_deps

ENC = "url_search_params::encode_uri_component"
DEC = "url_search_params::decode_uri_component"
PARSE = "url_search_params::parse_url_search_params"
BUILD = "url_search_params::build_url_search_params"
REWRITERS = re.compile(r"std::str::<impl str>::(replace|replacen|to_lowercase|to_uppercase|to_ascii_lowercase|to_ascii_uppercase)|core::str::<impl str>::(trim_matches|trim_start_matches|trim_end_matches|strip_prefix|strip_suffix|trim_start|trim_end|trim|split_at|get)|std::string::String::(remove|retain|truncate|drain|replace_range|insert|insert_str|pop)")


def replace_chain(fn):
    """ordered [(from, to, line)] of the str::replace calls of a function (source order)"""
    du = du_of(fn)
    cfg = cfg_of(fn)
    out = []
    for bid in cfg.rpo():
        t = cfg.blocks[bid]["term"]
        if t["k"] == "call" and callee_name(t) == "std::str::<impl str>::replace" and len(t["args"]) == 3:
            a, b = du.val_operand(t["args"][1]), du.val_operand(t["args"][2])
            out.append((a[1] if a[0] == "const" else None, b[1] if b[0] == "const" else None, t["span"]["line"]))
    return out


def run(ctx):
    F, G, R = ctx.F, ctx.G, ctx.R
    chk = Check("C17", ctx.tier, "The dependency's encode and decode replace chains are inverse tables, the percent escape is handled first when encoding and last when decoding, the builder's separators are escaped, the three entry points reach these functions, and the rws wrappers / echo controllers do not rewrite the text.")
    chk.technique = "ordered constant-table extraction from the MIR of the dependency (replace chains), table agreement and order rules, call-graph wiring, who-may-transform rule on the wrappers"
    chk.analysed = ctx.analysed_summary()
    enc, dec = F.fns.get(ENC), F.fns.get(DEC)
    r0 = chk.rule("anchors", "encode/decode/parse/build functions of url-search-params are in the fact base", floor=4)
    for n in (ENC, DEC, PARSE, BUILD):
        ok = n in F.fns
        r0.instance({"fn": n}, ok)
        if not ok:
            r0.violate("C17|anchors|%s" % n, "%s not found in the fact base" % n)
    if not enc or not dec:
        return chk.finish()
    E = replace_chain(enc)
    D = replace_chain(dec)
    chk.extra["encode_chain"] = [(a, b) for a, b, _ in E]
    chk.extra["decode_chain"] = [(a, b) for a, b, _ in D]

    r1 = chk.rule("R1-tables-are-inverse", "every (literal -> %XX) step of the encoder has the inverse step in the decoder and XX is the hexadecimal code of the literal", floor=20)
    dmap = {a: b for a, b, _ in D}
    for lit, esc, line in E:
        ok = lit is not None and esc is not None and len(lit) == 1 and esc == "%%%02X" % ord(lit) and dmap.get(esc) == lit
        r1.instance({"literal": lit, "escape": esc, "decoder_maps_back_to": dmap.get(esc)}, ok)
        if not ok:
            r1.violate("C17|R1|%s" % esc, "encoder step %r -> %r has no exact inverse in the decoder (decoder maps %r to %r) or a wrong hex code" % (lit, esc, esc, dmap.get(esc)), enc.file, line, ENC)
    for esc, lit, line in D:
        ok = lit is not None and esc is not None and len(lit) == 1 and esc.upper() == "%%%02X" % ord(lit)
        if not ok:
            r1.instance({"decoder_step": esc, "to": lit}, ok)
            r1.violate("C17|R1|decoder|%s" % esc, "decoder step %r -> %r: the escape is not the hex code of the literal" % (esc, lit), dec.file, line, DEC)

    r2 = chk.rule("R2-percent-first-and-last", "'%' is the first literal the encoder escapes and '%25' is the last escape the decoder resolves (otherwise text produced by an earlier step is interpreted again)", floor=2)
    ok = bool(E) and E[0][0] == "%"
    r2.instance({"encoder_first_step": E[0][:2] if E else None}, ok)
    if not ok:
        r2.violate("C17|R2|encode-order", "the encoder escapes '%%' at step %s of %d, not first: the '%%' of escapes it has just produced is escaped again" % ([i for i, e in enumerate(E) if e[0] == "%"], len(E)), enc.file, enc.span["line"], ENC)
    pos = [i for i, d in enumerate(D) if d[0] == "%25"]
    ok = bool(pos) and pos[0] == len(D) - 1
    r2.instance({"decoder_position_of_%25": (pos[0] + 1) if pos else None, "decoder_steps": len(D)}, ok)
    if not ok:
        r2.violate("C17|R2|decode-order", "the decoder resolves '%%25' at step %s of %d, not last: '%%252B' (an encoded '%%2B') becomes '%%2B' and is then decoded again to '+'" % ((pos[0] + 1) if pos else None, len(D)),
                   dec.file, (D[pos[0]][2] if pos else dec.span["line"]), DEC)

    r3 = chk.rule("R3-separators-escaped", "the separators the builder joins with ('=' and '&') are the ones the parser splits on and are escaped by the encoder", floor=2)
    bfn, pfn = F.fns.get(BUILD), F.fns.get(PARSE)
    if bfn and pfn:
        bdu, pdu = du_of(bfn), du_of(pfn)
        joins = set()
        for body in [bfn] + [pf for pn, pf in F.fns.items() if pn.startswith(BUILD + "::{promoted#")]:
            d_ = du_of(body)
            for b in body.blocks:
                t = b["term"]
                if t["k"] == "call":
                    for a in t["args"]:
                        v = d_.val_operand(a)
                        if v[0] == "const" and v[1] in ("=", "&"):
                            joins.add(v[1])
                        if v[0] == "call" and v[2] and v[2][0][0] == "const" and v[2][0][1] in ("=", "&"):
                            joins.add(v[2][0][1])
                for s in b["stmts"]:
                    if s["k"] == "assign":
                        for o in s["rv"].get("ops", []):
                            v = d_.val_operand(o)
                            if v[0] == "const" and v[1] in ("=", "&"):
                                joins.add(v[1])
                            if v[0] == "call" and v[2] and v[2][0][0] == "const" and v[2][0][1] in ("=", "&"):
                                joins.add(v[2][0][1])
        splits = set()
        for bid, t in pfn.calls():
            if (callee_name(t) or "").endswith("impl str>::split") and len(t["args"]) == 2:
                v = pdu.val_operand(t["args"][1])
                if v[0] == "const":
                    splits.add(v[1])
        escaped = {e[0] for e in E}
        for sep in ("=", "&"):
            ok = sep in joins and sep in splits and sep in escaped
            r3.instance({"separator": sep, "joined": sep in joins, "split": sep in splits, "escaped": sep in escaped}, ok)
            if not ok:
                r3.violate("C17|R3|%s" % sep, "separator %r: joined by the builder=%s, split by the parser=%s, escaped by the encoder=%s" % (sep, sep in joins, sep in splits, sep in escaped), bfn.file, bfn.span["line"], BUILD)

    r4 = chk.rule("R4-entry-points-wired", "URL::parse_query, FormUrlEncoded::parse and Request::get_uri_query reach the dependency's parser and decoder; URL::build_query reaches the encoder", floor=4)
    for entry, targets in (("url::URL::parse_query", [PARSE, DEC]), ("body::form_urlencoded::FormUrlEncoded::parse", [PARSE, DEC]), ("request::Request::get_uri_query", [PARSE, DEC]), ("url::URL::build_query", [BUILD, ENC])):
        seen = G.reachable([entry]) if entry in F.fns else {}
        ok = all(t in seen for t in targets)
        r4.instance({"entry": entry, "reaches": targets}, ok)
        if not ok:
            r4.violate("C17|R4|%s" % entry, "%s does not reach %s" % (entry, [t for t in targets if t not in seen]))

    # R5 thin wrappers, no rewriting of keys / values around the decode
    r5 = chk.rule("R5-wrappers-do-not-rewrite", "the URL::* wrappers pass their argument unchanged to the dependency; FormUrlEncoded::parse only filters ASCII control characters before parsing; the echo controllers apply no string rewriting to decoded names / values", floor=7)
    thin = {"url::URL::percent_encode": ENC, "url::URL::percent_decode": DEC, "url::URL::build_query": BUILD, "url::URL::parse_query": PARSE}
    for w, target in thin.items():
        fn = F.fns.get(w)
        if fn is None:
            r5.violate("C17|R5|anchor-missing|%s" % w, "%s not found" % w)
            continue
        du = du_of(fn)
        callees = [callee_name(t) for _, t in fn.calls()]
        direct = [t for _, t in fn.calls() if callee_name(t) == target]
        def is_param(a):
            if a.get("k") not in ("copy", "move"):
                return False
            v = du.val_operand(a)
            return v[0] in ("place", "ref") and 1 <= v[1][0] <= fn.nargs and all(p == "*" for p in v[1][1])
        arg_ok = bool(direct) and all(is_param(a) for a in direct[0]["args"])
        # ... nor in a private helper or a closure the wrapper hands its data to (`form_spaces(parse(..))` with the rewrite in a closure)
        from ..inline import is_private_helper as _iph
        fam, stack_ = [], [w]
        seen_ = {w}
        while stack_:
            x_ = stack_.pop()
            for e_ in G.out.get(x_, []):
                g_ = F.fns.get(e_.dst)
                if g_ is not None and g_.crate == "rws" and e_.dst not in seen_ and (g_.kind == "Closure" or _iph(F, e_.dst)):
                    seen_.add(e_.dst)
                    stack_.append(e_.dst)
                    fam.append(g_)
        fam_callees = [callee_name(t_) for g_ in fam for _, t_ in g_.calls()]
        others = [c for c in callees + fam_callees if c != target and REWRITERS.fullmatch(c or "")]
        ok = len(direct) == 1 and arg_ok and not others
        r5.instance({"wrapper": w, "calls": callees, "argument_passed_unchanged": arg_ok}, ok)
        if not ok:
            r5.violate("C17|R5|%s" % w, "%s is no longer a thin wrapper over %s (calls %s; argument unchanged: %s): text is rewritten before / after the dependency sees it, so what the encoder produced is not what the decoder gets" % (w, target, callees, arg_ok), fn.file, fn.span["line"], w)
    # the query of a request target is found by the URL parser (which knows about '#', the first '?', ..), not by the wrapper
    SPLITTERS = re.compile(r"core::str::<impl str>::(split_once|rsplit_once|split|rsplit|splitn|rsplitn|find|rfind|strip_prefix|strip_suffix|split_at|get)|.*::index")
    for qn in ("request::Request::get_uri_query", "request::Request::get_query"):
        qf = F.fns.get(qn)
        if qf is None:
            r5.violate("C17|R5|anchor-missing|%s" % qn, "%s not found" % qn)
            continue
        qf = ctx.inl(qf)
        calls = [callee_name(t) or "" for _, t in qf.calls()]
        own = [c for c in calls if SPLITTERS.fullmatch(c) or (REWRITERS.fullmatch(c) and not c.endswith("::to_string"))]
        via_parser = any(c in ("url::URL::parse", "url_build_parse::parse_url", "request::Request::get_uri_query", "url::URL::parse_query") for c in calls)
        ok = via_parser and not own
        r5.instance({"wrapper": qn, "delegates_to_url_parser": via_parser, "own_string_surgery": own}, ok)
        if not ok:
            r5.violate("C17|R5|%s" % qn, "%s %s: the query handed to the decoder is no longer the one the URL parser delimits (first '?', up to '#')" % (qn, ("cuts the target itself with " + ", ".join(sorted(set(own)))) if own else "does not go through the URL parser"), qf.file, qf.span["line"], qn)
    fp = F.fns.get("body::form_urlencoded::FormUrlEncoded::parse")
    if fp is not None:
        bad = []
        for bid, t in fp.calls():
            c = callee_name(t) or ""
            if REWRITERS.fullmatch(c):
                if c.endswith("::replace"):
                    # allowed only with a closure pattern that calls nothing but char::is_ascii_control
                    cl = [x for x in t.get("fn_items", []) if x in F.fns and F.fns[x].kind == "Closure"]
                    if cl and all({callee_name(tt) for _, tt in F.fns[x].calls()} <= {"std::char::methods::<impl char>::is_ascii_control"} for x in cl):
                        continue
                if c.endswith("::trim"):
                    continue
                bad.append(c)
        ok = not bad
        r5.instance({"fn": fp.def_, "rewriting_calls_beyond_control_char_filter": bad}, ok)
        if not ok:
            r5.violate("C17|R5|%s" % fp.def_, "%s rewrites the body with %s before parsing it: only the ASCII-control filter and trim are part of the contract" % (fp.def_, bad), fp.file, fp.span["line"], fp.def_)
    # ... nor does any function of the crate that the decoding wrappers call (a post-processing step such as `plus_as_space(map)`)
    for wn in ("body::form_urlencoded::FormUrlEncoded::parse", "request::Request::get_uri_query", "request::Request::get_query"):
        wf = F.fns.get(wn)
        if wf is None:
            continue
        allowed_helpers = {"url::URL::parse", "url::URL::parse_query", "request::Request::get_uri_query", "request::Request::get_query", "request::Request::get_uri_path"}
        for e in G.out.get(wn, []):
            hf = F.fns.get(e.dst)
            if hf is None or hf.crate != "rws" or e.dst in allowed_helpers or e.dst in thin or hf.kind == "Promoted" or e.dst.startswith("ext::string_ext::") or e.dst.startswith("symbol::"):
                continue
            sub = [n_ for n_ in G.reachable([e.dst]) if n_ in F.fns and F.fns[n_].crate == "rws"]
            bad = sorted({callee_name(tt) for n_ in sub for _, tt in F.fns[n_].calls() if REWRITERS.fullmatch(callee_name(tt) or "") and not (callee_name(tt) or "").endswith(("::trim", "::to_string"))})
            ok = not bad
            r5.instance({"wrapper": wn, "helper": e.dst, "rewriting_calls": bad}, ok)
            if not ok:
                r5.violate("C17|R5|%s|%s" % (wn, e.dst), "%s hands what it decodes to %s, which rewrites text with %s: the fields returned are no longer the fields submitted (a `+` the encoder protected as %%2B, for instance)" % (wn, e.dst, bad), hf.file, hf.span["line"], wn)
    # echo controllers: functions that iterate a decoded map
    sources = ("request::Request::get_uri_query", "request::Request::get_query", "body::form_urlencoded::FormUrlEncoded::parse", "url::URL::parse_query")
    for fn in F.rws_fns():
        if fn.kind == "Promoted" or fn.def_ in sources or fn.def_ in thin:
            continue
        src_locals = {t["dest"]["l"] for _, t in fn.calls() if callee_name(t) in sources}
        if not src_locals:
            continue
        ld = local_deps(fn)
        bad = []
        for bid, t in fn.calls():
            c = callee_name(t) or ""
            if REWRITERS.fullmatch(c) and t["args"] and t["args"][0].get("k") in ("copy", "move") and ld.closure(t["args"][0]["l"]) & src_locals:
                bad.append((c, t["span"]["line"]))
        # helpers called with decoded data that rewrite it
        for bid, t in fn.calls():
            c = callee_name(t)
            if c in F.fns and F.fns[c].crate == "rws" and c not in sources and any(a.get("k") in ("copy", "move") and ld.closure(a["l"]) & src_locals for a in t["args"]):
                hf = F.fns[c]
                for _, tt in hf.calls():
                    cc = callee_name(tt) or ""
                    if REWRITERS.fullmatch(cc) and not cc.endswith("::trim"):
                        bad.append(("%s -> %s" % (c, cc), t["span"]["line"]))
        ok = not bad
        r5.instance({"consumer": fn.def_, "rewrites_decoded_text_with": [b[0] for b in bad]}, ok)
        if not ok:
            r5.violate("C17|R5|%s" % fn.def_, "%s rewrites decoded field names / values with %s: the fields echoed are no longer the fields submitted" % (fn.def_, [b[0] for b in bad]), fn.file, bad[0][1], fn.def_)
    # ---- R6: the echo controllers answer with the decoded fields
    r6 = chk.rule("R6-echo-body-is-the-decoded-fields", "in every controller `process` that decodes a query / form body (get_query, get_uri_query, FormUrlEncoded::parse), the body handed to the response (first argument of Range::get_content_range on the success path) is computed from the decoded map: the endpoint echoes what was submitted", floor=2)
    for fn0 in F.rws_fns():
        if fn0.kind == "Promoted" or fn0.def_ in sources or fn0.def_ in thin or not re.search(r"Controller( as controller::Controller>)?::process(_request)?$", fn0.def_) or "::form::" not in fn0.def_:
            continue        # the property names the form echo endpoints; other controllers that read the query are not its subject
        fn = ctx.inl(fn0)
        srcs = {t["dest"]["l"] for _, t in fn.calls() if callee_name(t) in sources}
        if not srcs:
            continue
        ld = local_deps(fn)
        bodies = [(bid, t["args"][0]["l"]) for bid, t in fn.calls() if (callee_name(t) or "") == "range::Range::get_content_range" and t["args"] and t["args"][0].get("k") in ("copy", "move")]
        for b_ in fn.blocks:
            if b_.get("cleanup"):
                continue
            for st in b_["stmts"]:
                if st["k"] == "assign" and st["rv"]["k"] == "aggregate" and (st["rv"].get("adt") or "").endswith("range::ContentRange"):
                    d_ = dict(zip(st["rv"]["fields"], st["rv"]["ops"]))
                    if d_.get("body", {}).get("k") in ("copy", "move"):
                        bodies.append((b_["id"], d_["body"]["l"]))
        dep = [(bid, l_) for bid, l_ in bodies if ld.closure(l_) & srcs]
        ok = bool(dep)
        r6.instance({"controller": fn0.def_, "response_bodies": len(bodies), "bodies_computed_from_the_decoded_fields": len(dep)}, ok)
        if not ok:
            r6.violate("C17|R6|%s" % fn0.def_, "%s decodes the submitted fields but no response body is computed from them: the echo endpoint answers without the fields" % fn0.def_, fn0.file, fn0.span["line"], fn0.def_)
    # ---- R7: the echo endpoints can be reached with the method their form uses
    r7 = chk.rule("R7-echo-endpoint-admits-its-method", "the matcher of a controller that echoes the query admits GET; the matcher of one that echoes a form body admits POST (finite-domain evaluation over the method, as in C09.R1)", floor=2)
    from .c09 import can_match
    for fn0 in F.rws_fns():
        m = re.search(r"^(<)?(.*Controller)( as controller::Controller>)?::process(_request)?$", fn0.def_)
        if fn0.kind == "Promoted" or not m or "::form::" not in fn0.def_:
            continue        # the property names the form echo endpoints
        used = {callee_name(t) for _, t in ctx.inl(fn0).calls() if callee_name(t) in sources}
        if not used:
            continue
        want = "POST" if "body::form_urlencoded::FormUrlEncoded::parse" in used else "GET"
        mname = fn0.def_.replace("::process_request", "::is_matching_request").replace("::process", "::is_matching")
        mf = F.fns.get(mname)
        if mf is None:
            continue
        ok = can_match(mf, want)
        r7.instance({"controller": fn0.def_, "matcher": mname, "method": want, "can_match": ok}, ok)
        if not ok:
            r7.violate("C17|R7|%s|%s" % (mname, want), "%s can never match %s: the echo endpoint it guards does not answer the form that is submitted to it" % (mname, want), mf.file, mf.span["line"], mname)
    chk.assumptions += ["str::replace applies its steps sequentially on the whole text (std contract)", "url-build-parse's query handling delegates to url_search_params::parse_url_search_params (checked by R4 reachability)"]
    chk.undecided = ["round-trip equality for concrete maps beyond the table clause (e.g. keys containing '=' are split at every '='; '?' is decoded but never encoded)"]
    return chk.finish()
