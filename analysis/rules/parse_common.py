"""Helpers shared by C14 / C15 / C19: which tests dominate a block, list extraction, struct-field exhaustiveness."""
from ..callgraph import callee_name
from ..cfg import cfg_of
from ..dataflow import du_of, place_key


def bool_sources(du, l, seen=None, depth=0):
    """constant definitions reaching bool local l through copies: list of (block, True|False|None)"""
    if seen is None:
        seen = set()
    if l in seen or depth > 8:
        return []
    seen.add(l)
    out = []
    for d in du.defs.get(l, []):
        if d[0] != "assign":
            out.append((d[1], None)); continue
        rv = d[3]
        if rv["k"] == "use":
            o = rv["ops"][0]
            if o.get("k") == "const" and isinstance(o.get("v"), bool):
                out.append((d[1], o["v"]))
            elif o.get("k") in ("copy", "move") and not o["p"]:
                out += bool_sources(du, o["l"], seen, depth + 1)
            else:
                out.append((d[1], None))
        else:
            out.append((d[1], None))
    return out


def tests_dominating(fn, block, _depth=0):
    """[(callee, truth, value_expr, line)] for every boolean switch edge that dominates `block`:
    the call that produced the tested boolean (through Not) and the truth value the edge establishes for it"""
    cfg = cfg_of(fn)
    du = du_of(fn)
    out = []
    covered = set()
    for sb in cfg.live_blocks():
        st = cfg.blocks[sb]["term"]
        if st["k"] != "switch" or st.get("discr_ty") != "bool":
            continue
        v = du.val_operand(st["discr"])
        v, neg = strip_not(du, v)
        if v[0] == "place" and not v[1][1] and _depth < 2:
            # the flag of an `a || b` / `a && b` chain: on the edge where it has the value that only ONE kind of assignment
            # produces, everything that dominates all of those assignments is known (`if x.is_none() || y.is_none() { return }`)
            src = bool_sources(du, v[1][0])
            if src and all(val_ is not None for _, val_ in src):
                for val, tb in st["targets"]:
                    if tb == st["otherwise"]:
                        continue
                    for edge, flag_val in (((sb, tb), bool(val) != neg), ((sb, st["otherwise"]), (not bool(val)) != neg)):
                        if not cfg.edge_dominates(edge, block):
                            continue
                        other = (sb, st["otherwise"]) if edge == (sb, tb) else (sb, tb)
                        if cfg.edge_dominates(other, block):
                            continue
                        defs = [b_ for b_, val_ in src if val_ == flag_val]
                        if not defs:
                            continue
                        common = None
                        for b_ in defs:
                            ts = {(c_, tr_, repr(v_)): (c_, tr_, v_, ln_) for c_, tr_, v_, ln_ in tests_dominating(fn, b_, _depth + 1)}
                            common = ts if common is None else {k_: x_ for k_, x_ in common.items() if k_ in ts}
                        out.extend((common or {}).values())
            continue
        if v[0] != "call":
            continue
        for val, tb in st["targets"]:
            if tb == st["otherwise"]:
                continue
            e_false = (sb, tb) if val == 0 else (sb, st["otherwise"])
            e_true = (sb, st["otherwise"]) if val == 0 else (sb, tb)
            if cfg.edge_dominates(e_true, block) and not cfg.edge_dominates(e_false, block):
                out.append((v[1], (True != neg), v, st["span"]["line"]))
                covered.add(e_true)
            elif cfg.edge_dominates(e_false, block) and not cfg.edge_dominates(e_true, block):
                out.append((v[1], (False != neg), v, st["span"]["line"]))
                covered.add(e_false)
    # `match x { Some(..) => .., None => return .. }`, `let Some(..) = x else { return .. }`, `x?`: the same knowledge as
    # `if x.is_none() { return .. }`, established by a switch on the discriminant. Reported as synthetic is_some/is_none/is_ok/is_err
    # tests of the call that produced x (only for edges not already reported above).
    from ..guards import guards_of
    g = guards_of(fn)
    seen_fact = set()
    for e, f in g.facts():
        if f[0] != "variant" or e in covered:
            continue
        if not cfg.edge_dominates(e, block):
            continue
        pv = du.val_place(du.canon(f[1]))
        if pv[0] == "call" and (pv[1] or "").endswith("::next"):
            continue          # the None arm of an iterator's next() is the end of a loop, not a condition on the data
        # (pv is a place when the tested value is the result of an inlined helper: several return sites assign it)
        key = (e, repr(f[1]))
        if key in seen_fact:
            continue
        seen_fact.add(key)
        line = cfg.blocks[e[0]]["term"]["span"]["line"]
        succ = bool(f[3])
        for nm, tr in (("<match>::is_some", succ), ("<match>::is_none", not succ), ("<match>::is_ok", succ), ("<match>::is_err", not succ)):
            out.append((nm, tr, pv, line))
    return out


def strip_not(du, v, depth=0):
    """see through `!x`, `<&bool as Not>::not(&x)` and references to unique-def bool temporaries; returns (value, negated)"""
    neg = False
    for _ in range(8):
        if v[0] == "unop" and v[1] == "Not":
            v = v[2]; neg = not neg
            continue
        if v[0] == "call" and (v[1] or "").endswith("as std::ops::Not>::not") and v[2]:
            v = v[2][0]; neg = not neg
            continue
        if v[0] in ("ref", "place") and not v[1][1]:
            vv = du.val_place((v[1][0], ()))
            if vv != v and vv[0] != "place":
                v = vv
                continue
        break
    return v, neg


def ok_return_blocks(fn, variant="Ok"):
    """blocks assigning `_0 = Ok(..)` (or Some)"""
    out = []
    for b in fn.blocks:
        if b["cleanup"]:
            continue
        for s in b["stmts"]:
            if s["k"] == "assign" and s["place"]["l"] == 0 and not s["place"]["p"] and s["rv"]["k"] == "aggregate" and s["rv"].get("variant") == variant:
                out.append(b["id"])
    return out


def mentions_call(v, name_part, depth=0):
    """value expression v contains a call whose callee name contains name_part"""
    if depth > 14:
        return False
    if v[0] == "call":
        if name_part in (v[1] or ""):
            return True
        return any(mentions_call(a, name_part, depth + 1) for a in v[2])
    if v[0] in ("unop", "cast"):
        return mentions_call(v[2], name_part, depth + 1)
    if v[0] == "binop":
        return mentions_call(v[2], name_part, depth + 1) or mentions_call(v[3], name_part, depth + 1)
    return False


def deep_mentions(du, v, name_part, depth=0):
    """like mentions_call but follows unique-def locals behind refs/places"""
    if depth > 14:
        return False
    if v[0] in ("ref", "place"):
        vv = du.val_place((v[1][0], ()))
        if vv != v and vv[0] != "place":
            return deep_mentions(du, vv, name_part, depth + 1)
        return False
    if v[0] == "call":
        if name_part in (v[1] or ""):
            return True
        return any(deep_mentions(du, a, name_part, depth + 1) for a in v[2])
    if v[0] in ("unop", "cast"):
        return deep_mentions(du, v[2], name_part, depth + 1)
    if v[0] == "binop":
        return deep_mentions(du, v[2], name_part, depth + 1) or deep_mentions(du, v[3], name_part, depth + 1)
    return False


def const_field_list(F, fn, item_prefix):
    """fields of the constant struct `item_prefix` (e.g. request::METHOD) that the function converts to strings / references"""
    du = du_of(fn)
    seen = []
    for b in fn.blocks:
        if b["cleanup"]:
            continue
        t = b["term"]
        if t["k"] == "call":
            for a in t["args"]:
                v = du.val_operand(a)
                if v[0] == "const" and (v[2] or "").startswith(item_prefix + "."):
                    seen.append((v[2][len(item_prefix) + 1:], v[1]))
        for s in b["stmts"]:
            if s["k"] == "assign":
                for o in s["rv"].get("ops", []):
                    v = du.val_operand(o)
                    if v[0] == "const" and (v[2] or "").startswith(item_prefix + ".") and isinstance(v[1], (str, dict)):
                        pass
    return seen


def vec_literal_len(fn):
    """sizes of the array aggregates boxed into vectors by vec![..] in fn"""
    out = []
    for b in fn.blocks:
        for s in b["stmts"]:
            if s["k"] == "assign" and s["rv"]["k"] == "aggregate" and s["rv"].get("agg") == "array":
                out.append((len(s["rv"]["ops"]), s["rv"]["ops"]))
    return out


def deep_strings(du, v, out=None, depth=0):
    """constant strings and callee names occurring in a value expression, following unique-def locals behind references"""
    if out is None:
        out = set()
    if depth > 14:
        return out
    if v[0] == "const":
        if isinstance(v[1], str):
            out.add(v[1])
        return out
    if v[0] in ("ref", "place"):
        vv = du.val_place((v[1][0], ()))
        if vv != v and vv[0] != "place":
            deep_strings(du, vv, out, depth + 1)
        for p in v[1][1]:
            if isinstance(p, tuple) and p[0] == "f" and p[2]:
                out.add("." + str(p[2]))
        return out
    if v[0] == "call":
        out.add(v[1] or "")
        for a in v[2]:
            deep_strings(du, a, out, depth + 1)
        return out
    if v[0] in ("unop", "cast"):
        return deep_strings(du, v[2], out, depth + 1)
    if v[0] == "binop":
        deep_strings(du, v[2], out, depth + 1)
        return deep_strings(du, v[3], out, depth + 1)
    if v[0] == "aggregate":
        for a in v[3]:
            deep_strings(du, a, out, depth + 1)
    return out


FULL_ADAPTORS = ("::iter", "::iter_mut", "::into_iter", "std::iter::Iterator::map", "std::iter::Iterator::cloned", "std::iter::Iterator::copied",
                 "std::iter::Iterator::by_ref", "std::iter::Iterator::inspect", "as std::clone::Clone>::clone")
FULL_CONSUMERS = ("std::iter::Iterator::collect", "std::iter::Iterator::for_each", "std::iter::Iterator::fold", "::into_iter")


def fully_iterated(fn, du, elem_ty):
    """values (vectors / slices of `elem_ty`) every element of which is visited, in order: the operand of a `for` loop, or the base of
    an iterator chain made of one-to-one adaptors (`iter().map(..)`) that ends in collect / for_each / fold.
    Returns [(block of the consuming call, base value)]"""
    from ..callgraph import callee_name
    out = []
    for bid, t in fn.calls():
        c = callee_name(t) or ""
        decl = t.get("callee") or ""
        if not t["args"] or not (c.endswith(FULL_CONSUMERS) or decl in FULL_CONSUMERS):
            continue
        tys = " ".join((t.get("arg_tys") or []) + (t.get("gargs") or []))
        if elem_ty not in tys:
            continue
        v = du.val_operand(t["args"][0])
        ok = True
        for _ in range(8):
            if v[0] == "call" and v[1] and v[2] and (v[1].endswith(FULL_ADAPTORS) or v[1] in FULL_ADAPTORS):
                v = v[2][0]
                continue
            if v[0] == "call":
                ok = False        # filter / skip / take / rev / chain ...: not every element, or not in order
            break
        if ok:
            out.append((bid, v))
    return out


def swallowed_errors(ctx, fn0):
    """[(callee, line)]: in a function that returns Result, a call of a crate function that returns Result whose Err - established by
    is_err / match / `?` - can reach an `Ok(..)` return of the function on a feasible path that does not unwrap it first: the
    sub-reader's error is swallowed instead of reported"""
    from ..cfg import cfg_of
    from ..dataflow import du_of
    from ..guards import guards_of
    from ..callgraph import callee_name
    from ..loops import feasible_reach
    F = ctx.F
    if not (fn0.ret or "").startswith("std::result::Result<"):
        return []
    fn = ctx.inl(fn0)
    cfg, du, g = cfg_of(fn), du_of(fn), guards_of(fn)
    ok_rets = [b for b in cfg.live_blocks() if any(s["k"] == "assign" and s["place"]["l"] == 0 and not s["place"]["p"] and s["rv"]["k"] == "aggregate" and s["rv"].get("variant") == "Ok" for s in cfg.blocks[b]["stmts"])]
    out = []
    for bid, t in fn.calls():
        if bid >= len(fn0.blocks) or t["dest"] is None or t["dest"]["p"]:
            continue
        c = callee_name(t) or ""
        g2 = F.fns.get(c)
        if g2 is None or g2.crate != "rws" or not (g2.ret or "").startswith("std::result::Result<"):
            continue
        root = (t["dest"]["l"], ())
        err_edges = [e for e, f in g.facts() if f[0] == "variant" and f[1] == root and f[3] is False]
        if not err_edges:
            continue
        # an unwrap / expect of the same result behind the Err edge panics: not a way to an Ok return (C20's business)
        dead = set()
        for b2, t2 in fn.calls():
            c2 = callee_name(t2) or ""
            if c2.endswith(("Result::<T, E>::unwrap", "Result::<T, E>::expect")) and t2["args"] and t2["args"][0].get("k") in ("copy", "move"):
                if du.canon((t2["args"][0]["l"], ()))[0] == root[0] or t2["args"][0]["l"] == root[0]:
                    dead.add(b2)
        reach = set()
        for e in err_edges:
            r = feasible_reach(cfg, edge=e, avoid=dead)
            if r is None:
                r = cfg.reachable_from(e[1], removed_nodes=dead)
            reach |= r
        if any(b in reach for b in ok_rets):
            out.append((c, t["span"]["line"], bid))
    return out
