"""C02 — static resources: right file, exact bytes, media type (4 structural clauses; bytes and lookup precedence not decided)."""
import re
from ..callgraph import callee_name
from ..cfg import cfg_of
from ..dataflow import du_of, place_key, val_ref_target
from ..framework import Check
from .parse_common import strip_not
from .c05 import const_str, serialiser_clauses


def _catch_all_last(F, r1, fn, order):
    for i, c in enumerate(order):
        mname = [n for n in F.fns if re.search(r"%s( as controller::Controller>)?::is_matching(_request)?$" % re.escape(c), n) and (("as controller::Controller" in n) == ("Application" in fn.def_ or "execute" in fn.def_))]
        for mn in mname:
            mfn = F.fns[mn]
            always = _always_true(mfn)
            ok = (not always) or i == len(order) - 1
            if always:
                r1.instance({"dispatcher": fn.def_, "catch_all": c, "position": i + 1, "of": len(order)}, ok)
            if not ok:
                r1.violate("C02|R1|%s|%s|catch-all-not-last" % (fn.def_, c), "%s tests the catch-all controller %s at position %d of %d: every later controller is unreachable" % (fn.def_, c, i + 1, len(order)), fn.file, fn.span["line"], fn.def_)


def _ctrl_of(name):
    m = re.match(r"<(.+) as controller::Controller>::(\w+)$", name)
    if m:
        return m.group(1).split("::")[-1], m.group(2)
    parts = name.rsplit("::", 2)
    return parts[-2], parts[-1]


def _table_dispatchers(ctx, already):
    """functions that walk a constant table whose rows hold a controller's matcher and handler as function pointers"""
    F = ctx.F
    from ..inline import is_private_helper
    tables = {}
    for cn, c in F.consts.items():
        v = c.get("v")
        rows = (v or {}).get("fields") if isinstance(v, dict) else None
        if not isinstance(rows, dict) or len(rows) < 5:
            continue
        out = []
        for k in sorted(rows, key=lambda x: int(x) if str(x).isdigit() else 0):
            f = (rows[k] or {}).get("fields") if isinstance(rows[k], dict) else None
            if not isinstance(f, dict):
                out = None
                break
            ms = [(fk, fv["fn"]) for fk, fv in f.items() if isinstance(fv, dict) and re.search(r"::is_matching(_request)?$", fv.get("fn") or "")]
            ps = [(fk, fv["fn"]) for fk, fv in f.items() if isinstance(fv, dict) and re.search(r"::process(_request)?$", fv.get("fn") or "")]
            if len(ms) != 1 or len(ps) != 1:
                out = None
                break
            out.append({"i": len(out) + 1, "matcher_field": ms[0][0], "process_field": ps[0][0], "matcher": ms[0][1], "process": ps[0][1],
                        "matcher_controller": _ctrl_of(ms[0][1])[0], "process_controller": _ctrl_of(ps[0][1])[0]})
        if out and len({r["matcher_field"] for r in out}) == 1 and len({r["process_field"] for r in out}) == 1:
            tables[cn] = out
    found = []
    if not tables:
        return found
    for fn0 in F.rws_fns():
        if fn0.kind in ("Promoted", "Closure") or is_private_helper(F, fn0.def_) or fn0.def_ in already:
            continue
        fn = ctx.inl(fn0)
        bodies = [fn] + [g for n, g in F.fns.items() if n.startswith(fn0.def_ + "::{")]
        used = set()
        for g in bodies:
            for b in g.blocks:
                for st in b["stmts"]:
                    if st["k"] == "assign":
                        for o in st["rv"].get("ops", []):
                            if o.get("k") == "const" and o.get("item") in tables:
                                used.add(o["item"])
        for tn in sorted(used):
            rows = tables[tn]
            mf, pf = rows[0]["matcher_field"], rows[0]["process_field"]
            problems, undecided = [], None
            # the walk: some body calls through the matcher field and hands the answer on unchanged; the handler is called through the
            # handler field
            def indirect_fields(g):
                du = du_of(g)
                res = []
                for bid, t in g.calls():
                    if t.get("indirect") is None:
                        continue
                    v = du.val_operand(t["indirect"])
                    names = [e[2] for e in (v[1][1] if v[0] in ("place", "ref") else ()) if isinstance(e, tuple) and e[0] == "f" and len(e) > 2]
                    res.append((bid, t, names[-1] if names else None))
                return res
            m_calls = [(g, bid, t) for g in bodies for bid, t, nm in indirect_fields(g) if nm == mf]
            p_calls = [(g, bid, t) for g in bodies for bid, t, nm in indirect_fields(g) if nm == pf]
            if not m_calls or not p_calls:
                undecided = "no call through the %s / %s field was found" % (mf, pf)
            else:
                for g, bid, t in m_calls:
                    if g.kind == "Closure":
                        du = du_of(g)
                        ds = du.defs.get(0, [])
                        direct = any(d[0] == "call" and d[1] == bid for d in ds) or any(
                            d[0] == "assign" and d[3]["k"] == "use" and d[3]["ops"][0].get("k") in ("copy", "move") and d[3]["ops"][0]["l"] == t["dest"]["l"] for d in ds)
                        if len(ds) == 1 and not direct:
                            v0 = du.val_place((0, ()))
                            if v0[0] == "unop" and v0[1] == "Not":
                                problems.append("the search predicate answers the NEGATION of the row's matcher")
                            else:
                                undecided = "the search predicate does not return the matcher's answer directly"
                        elif len(ds) != 1:
                            undecided = "the search predicate has several results"
            found.append({"fn": fn, "table": tn, "rows": rows, "order": [r["matcher_controller"] for r in rows],
                          "driver_problems": problems, "driver_undecided": undecided})
    return found


def _mime_table_decisions(ctx, mfn):
    """(decisions, default) when detect_mime_type searches a constant table whose rows pair a suffix rule (one suffix, or a list of
    extensions) with a media type, and falls back to a constant"""
    F = ctx.F
    from .c14 import items_mentioned
    fi = ctx.inl(mfn)
    line = mfn.span["line"]

    def strings(v):
        if isinstance(v, str):
            return [v]
        if isinstance(v, dict) and isinstance(v.get("fields"), dict):
            out = []
            for k in sorted(v["fields"], key=lambda x: int(x) if str(x).isdigit() else 0):
                out += strings(v["fields"][k])
            return out
        return []
    for item in sorted(items_mentioned(F, fi)):
        c = F.consts.get(item) or {}
        rows = (c.get("v") or {}).get("fields") if isinstance(c.get("v"), dict) else None
        if not isinstance(rows, dict) or len(rows) < 10:
            continue
        decisions = []
        for k in sorted(rows, key=lambda x: int(x) if str(x).isdigit() else 0):
            f = (rows[k] or {}).get("fields") if isinstance(rows[k], dict) else None
            if not isinstance(f, dict) or len(f) != 2:
                decisions = None
                break
            tys = [v for v in f.values() if isinstance(v, str) and "/" in v and not v.startswith(".")]
            rules = [v for v in f.values() if not (isinstance(v, str) and "/" in v and not v.startswith("."))]
            if len(tys) != 1 or len(rules) != 1:
                decisions = None
                break
            sufs = strings(rules[0])
            variant = rules[0].get("variant", "") if isinstance(rules[0], dict) else ""
            if not sufs:
                decisions = None
                break
            kind = "ends_with" if (isinstance(rules[0], str) or "end" in variant.lower() or "suffix" in variant.lower()) else "extension-list"
            decisions.append((kind, sufs, tys[0], (c.get("span") or {}).get("line", line)))
        if not decisions:
            continue
        # the fall-back: `.unwrap_or(CONST.to_string())` / `unwrap_or_else(|| CONST.to_string())` of the search
        du = du_of(fi)
        default = None
        for _, t in fi.calls():
            if (callee_name(t) or "").endswith(("::unwrap_or", "::map_or")) and len(t["args"]) >= 2:
                d = const_str(du.val_operand(t["args"][1]))
                if d:
                    default = d
        return decisions, default
    return None


def mime_decisions(F, fn):
    """ordered list of (kind, [suffixes], media_type, line) along the false-edge chain of detect_mime_type, and the default"""
    cfg = cfg_of(fn)
    du = du_of(fn)
    # map block -> constant string returned when control reaches it before any other decision
    def returned_const(start):
        seen = set()
        b = start
        for _ in range(12):
            if b in seen:
                return None
            seen.add(b)
            blk = cfg.blocks[b]
            for s in blk["stmts"]:
                pass
            t = blk["term"]
            if t["k"] == "call" and t["dest"]["l"] == 0 and not t["dest"]["p"]:
                v = du.val_call(t, 0, b)
                return const_str(v)
            succ = cfg.succ[b]
            if len(succ) != 1:
                return None
            b = succ[0]
        return None
    const_arrays = []
    for body in [fn] + [pf for pn, pf in F.fns.items() if pn.startswith(fn.def_ + "::{promoted#")]:
        bdu = du_of(body)
        for b in body.blocks:
            for s in b["stmts"]:
                if s["k"] == "assign" and s["rv"]["k"] == "aggregate" and s["rv"].get("agg") == "array":
                    vals = [bdu.val_operand(o) for o in s["rv"]["ops"]]
                    if vals and all(x[0] == "const" and isinstance(x[1], str) and x[1].startswith(".") for x in vals):
                        const_arrays.append((s["span"]["line"], [x[1] for x in vals]))
    decisions = []
    other_tests = []
    mime_decisions.other_tests = other_tests
    for sb in cfg.rpo():
        st = cfg.blocks[sb]["term"]
        if st["k"] != "switch" or st.get("discr_ty") != "bool":
            continue
        v0 = du.val_operand(st["discr"])
        v, neg = strip_not(du, v0)
        true_t = false_t = None
        for val, tb in st["targets"]:
            if val == 0:
                false_t, true_t = tb, st["otherwise"]
        if neg:
            true_t, false_t = false_t, true_t
        if v[0] == "call" and (v[1] or "").endswith("impl str>::ends_with") and len(v[2]) == 2 and v[2][1][0] == "const":
            ty = returned_const(true_t)
            decisions.append(("ends_with", [v[2][1][1]], ty, st["span"]["line"]))
        elif v[0] == "call" and v[1] and re.search(r"impl str>::(starts_with|contains|find|eq_ignore_ascii_case)$|PartialEq.*::(eq|ne)$", v[1]) and len(v[2]) == 2 and v[2][1][0] == "const" and isinstance(v[2][1][1], str):
            other_tests.append((v[1].split("::")[-1], v[2][1][1], returned_const(true_t), st["span"]["line"]))
        elif v[0] == "place" and not v[1][1]:
            # a multi-def bool local `is_x_suffix`: false, or contains(list, suffix) - collect the list constants
            l = v[1][0]
            lists = []
            for d0 in du.defs.get(l, []):
                d = d0
                if d[0] == "assign" and d[3]["k"] == "use" and d[3]["ops"][0].get("k") in ("copy", "move") and not d[3]["ops"][0]["p"]:
                    d = du.unique_def(d[3]["ops"][0]["l"]) or d0
                if d[0] == "call" and (callee_name(d[3]) or "").endswith("::contains"):
                    cline = d[3]["span"]["line"]
                    # the list literal feeding this contains: the closest array of '.ext' constants written above it
                    # (in the function body or in one of its promoted constants)
                    for arr_line, vals in const_arrays:
                        if arr_line <= cline:
                            lists.append((arr_line, vals))
            if lists:
                lists.sort()
                ty = returned_const(true_t)
                decisions.append(("extension_in", lists[-1][1], ty, st["span"]["line"]))
    # default: the last assignment to _0 on the path where every decision is false
    default = None
    for b in cfg.rpo()[::-1]:
        t = cfg.blocks[b]["term"]
        if t["k"] == "call" and t["dest"]["l"] == 0 and not t["dest"]["p"]:
            # the block reached when the last decision is false
            default = const_str(du.val_call(t, 0, b))
            if default is not None and not any(default == d[2] for d in decisions[-1:]):
                break
    return decisions, default


def run(ctx):
    F, G, R = ctx.F, ctx.G, ctx.R
    chk = Check("C02", ctx.tier, "Dispatch pairs each process with its own matcher in the same order in both dispatchers, catch-all last; Content-Type/Content-Length come from the emitted content range; the media-type table is pure, constant-valued, shadow-free with the octet-stream default; no directory listing is reachable.")
    chk.technique = "edge dominance in the dispatchers, sibling order agreement, constant-table extraction of the suffix chain, call-graph reachability"
    chk.analysed = ctx.analysed_summary()
    roots = R.connection_roots()
    seen = G.reachable(roots)

    # ---- R1 dispatch
    r1 = chk.rule("R1-dispatch-well-formed", "each X::process call is dominated by the true edge of X's own matcher; the catch-all matcher is tested last; both dispatchers test the controllers in the same order", floor=20)
    dispatchers = []
    from ..inline import is_private_helper
    for fn0 in F.rws_fns():
        if fn0.kind in ("Promoted", "Closure") or is_private_helper(F, fn0.def_):
            continue        # a private step (`route`, `offer::<C>`) is part of the public function that calls it (A11)
        fn = ctx.inl(fn0)
        ms = [callee_name(t) for _, t in fn.calls() if re.search(r"::is_matching(_request)?$", callee_name(t) or "") and " as " in (callee_name(t) or "") or re.search(r"Controller::is_matching_request$", callee_name(t) or "")]
        if len(set(ms)) >= 5:
            dispatchers.append(fn)
    # a dispatcher may also be driven by a constant table of (matcher, handler) function pointers searched top to bottom
    table_dispatchers = _table_dispatchers(ctx, [d.def_ for d in dispatchers])
    if len(dispatchers) + len(table_dispatchers) < 2:
        r1.violate("C02|R1|anchor-missing", "expected two dispatchers (production Application::execute and the legacy handle_request), found %r" % [d.def_ for d in dispatchers])
    orders = {}
    for td in table_dispatchers:
        fn = td["fn"]
        orders[fn.def_] = td["order"]
        for row in td["rows"]:
            ok = row["matcher_controller"] == row["process_controller"]
            r1.instance({"dispatcher": fn.def_, "table": td["table"], "controller": row["matcher_controller"], "row_pairs_matcher_with_own_process": ok}, ok)
            if not ok:
                r1.violate("C02|R1|%s|%s|pairing" % (fn.def_, row["process_controller"]), "row %d of %s pairs the matcher of %s with the handler of %s" % (row["i"], td["table"], row["matcher_controller"], row["process_controller"]), fn.file, fn.span["line"], fn.def_)
        for why in td["driver_problems"]:
            r1.violate("C02|R1|%s|table-driver" % fn.def_, "%s searches %s but %s" % (fn.def_, td["table"], why), fn.file, fn.span["line"], fn.def_)
        if td["driver_undecided"]:
            r1.note("%s: the code that walks %s is not of a form this rule follows (%s): the pairing of the rows is checked, the walk is not" % (fn.def_, td["table"], td["driver_undecided"]))
        _catch_all_last(F, r1, fn, td["order"])
    if table_dispatchers:
        r1.floor = min(r1.floor, 10)
    for fn in dispatchers:
        cfg = cfg_of(fn)
        du = du_of(fn)
        def ctrl_of(name):
            m = re.match(r"<(.+) as controller::Controller>::(\w+)$", name)
            if m:
                return m.group(1).split("::")[-1], m.group(2)
            parts = name.rsplit("::", 2)
            return parts[-2], parts[-1]
        match_edges = {}
        order = []
        for sb in cfg.rpo():
            st = cfg.blocks[sb]["term"]
            if st["k"] != "switch":
                continue
            v, neg = strip_not(du, du.val_operand(st["discr"]))
            if v[0] == "call" and re.search(r"::is_matching(_request)?$", v[1] or ""):
                c, _ = ctrl_of(v[1])
                for val, tb in st["targets"]:
                    if val == 0:
                        true_e = (sb, st["otherwise"]) if not neg else (sb, tb)
                        match_edges.setdefault(c, []).append(true_e)
                if c not in order:
                    order.append(c)
        orders[fn.def_] = order
        for bid, t in fn.calls():
            c_name = callee_name(t) or ""
            if re.search(r"::process(_request)?$", c_name) and "Controller" in c_name:
                c, _ = ctrl_of(c_name)
                ok = c in match_edges and cfg.edges_dominate(match_edges[c], bid)
                r1.instance({"dispatcher": fn.def_, "controller": c, "process_dominated_by_own_matcher": ok}, ok)
                if not ok:
                    r1.violate("C02|R1|%s|%s|pairing" % (fn.def_, c), "%s calls %s::process without the true edge of %s's own matcher dominating the call" % (fn.def_, c, c), t["span"]["file"], t["span"]["line"], fn.def_)
        # every matcher's true edge reaches its own process: a controller that matches and is then not asked leaves the default (501) response
        proc_blocks = {}
        for bid, t in fn.calls():
            c_name = callee_name(t) or ""
            if re.search(r"::process(_request)?$", c_name) and "Controller" in c_name:
                proc_blocks.setdefault(ctrl_of(c_name)[0], set()).add(bid)
        rets = set(cfg.return_blocks())
        for c in order:
            for (sb, tb) in match_edges.get(c, []):
                reach = cfg.reachable_from(tb, removed_nodes=proc_blocks.get(c, set())) if tb not in proc_blocks.get(c, set()) else set()
                ok = not (reach & rets)
                r1.instance({"dispatcher": fn.def_, "controller": c, "matched_request_reaches_its_process": ok}, ok)
                if not ok:
                    r1.violate("C02|R1|%s|%s|matched-but-not-processed" % (fn.def_, c), "%s can return after %s's matcher answered true without calling %s::process: the request gets the default response" % (fn.def_, c, c), fn.file, cfg.blocks[sb]["term"]["span"]["line"], fn.def_)
        _catch_all_last(F, r1, fn, order)
    # ---- R7: the controllers tested BEFORE the static-resource controller answer for fixed paths only; the chain ends in a catch-all
    r5 = chk.rule("R7-fixed-path-controllers", "a controller that is tested before the static-resource controller matches only where an equality of the request path with a constant has succeeded (A13): it cannot answer for a file of the served directory; the last controller of the chain matches everything (a request nobody serves is answered 404 by it)", floor=6)
    from ..implies import true_implies_key_equality
    from ..taint import local_deps
    for fn in dispatchers + [td["fn"] for td in table_dispatchers]:
        order = orders.get(fn.def_, [])
        prod = ("Application" in fn.def_ or "execute" in fn.def_)
        def matcher_of(c):
            for n in F.fns:
                if re.search(r"%s( as controller::Controller>)?::is_matching(_request)?$" % re.escape(c), n) and (("as controller::Controller" in n) == prod):
                    return F.fns[n]
            return None
        static_i = next((i for i, c in enumerate(order) if "StaticResource" in c), None)
        if static_i is None:
            r5.violate("C02|R7|%s|anchor-missing" % fn.def_, "%s does not test the static-resource controller" % fn.def_, fn.file, fn.span["line"], fn.def_)
            continue
        for c in order[:static_i]:
            mfn = matcher_of(c)
            if mfn is None:
                continue
            mi = ctx.inl(mfn)
            mdu = du_of(mi)
            ld = local_deps(mi)
            def is_key(v):
                # one side a string constant, the other computed from the request (parameter 1)
                consts = [a for a in v[2] if a[0] == "const" and isinstance(a[1], str)]
                others = [a for a in v[2] if not (a[0] == "const")]
                if len(consts) != 1 or len(others) != 1:
                    return False
                # the request side is the target: the request_uri field, or the path / uri a Request method computes from it
                def target_like(o, depth=0):
                    if depth > 8:
                        return False
                    if o[0] in ("ref", "place"):
                        fields = [e[2] for e in o[1][1] if isinstance(e, tuple) and e[0] == "f" and len(e) > 2]
                        if o[1][0] == 1:
                            return "request_uri" in fields
                        w = mdu.val_place((o[1][0], tuple(o[1][1])))
                        if w == o or w[0] == "place":
                            w = mdu.val_place((o[1][0], ()))
                        return w != o and w[0] != "place" and target_like(w, depth + 1)
                    if o[0] == "call" and o[2]:
                        nm = o[1] or ""
                        if re.search(r"request::Request::get_(uri|path|uri_path)", nm) and any(x[0] in ("ref", "place") and x[1][0] == 1 for x in o[2]):
                            return True
                        return target_like(o[2][0], depth + 1)
                    return False
                return target_like(others[0])
            verdict = true_implies_key_equality(mi, is_key)
            if verdict is None:
                r5.note("%s: the matcher is written with a construct the judgement does not follow (combinator / opaque call): not decided" % c)
                r5.floor = min(r5.floor, 4)
                continue
            ok = verdict
            r5.instance({"dispatcher": fn.def_, "controller": c, "matches_only_its_constant_path": ok}, ok)
            if not ok:
                r5.violate("C02|R7|%s|%s|not-a-fixed-path" % (fn.def_, c), "%s is tested before the static-resource controller and can match without an equality of the request path with a constant having succeeded: it answers for files of the served directory (and for paths that must be 404 / refused)" % c, mfn.file, mfn.span["line"], mfn.def_)
        if order:
            last = matcher_of(order[-1])
            ok = last is not None and _always_true(last)
            r5.instance({"dispatcher": fn.def_, "last_controller": order[-1], "matches_everything": ok}, ok)
            if not ok:
                r5.violate("C02|R7|%s|no-catch-all" % fn.def_, "the last controller of %s (%s) does not match every request: a request that no controller serves is not answered 404" % (fn.def_, order[-1]), fn.file, fn.span["line"], fn.def_)
    # ---- R8: the containment check refuses only paths that climb out (the C02 side of C01.R5)
    r8 = chk.rule("R8-containment-check-is-exact", "the containment predicate's depth is exactly the real depth (name +1, '.' and '' 0, '..' -1) and '..' is answered 'outside' only at depth 0: a target such as /sub/../file that stays inside the served directory is looked up, not refused", floor=5)
    from .. import segments
    from .c01 import find_predicates
    _preds = find_predicates(F)
    if not _preds:
        r8.floor = 0        # C01.R4 reports the missing predicate; nothing to judge here
    for pfn, _seps in _preds:
        pres = segments.precision_verdicts(pfn)
        if pres is None:
            r8.floor = 0
            r8.note("%s is not a segment walk with a depth: not decided by this rule" % pfn.def_)
            continue
        if len(pres) < 5:
            r8.floor = 0
            r8.note("%s: some paths through the loop body are not followed by the evaluation (helper / adaptor); only the followed ones are judged" % pfn.def_)
        seen_k = set()
        for cls, ok, why, line in pres:
            r8.instance({"predicate": pfn.def_, "segment_class": cls, "path_outcome": why}, ok)
            if not ok and cls not in seen_k:
                seen_k.add(cls)
                r8.violate("C02|R8|%s|%s" % (pfn.def_, cls), "%s, segment %r: %s" % (pfn.def_, cls, why), pfn.file, line, pfn.def_)
    if len(orders) == 2:
        a, b = list(orders.values())
        # the controllers both dispatchers know are tried in the same relative order (one of them may know a controller the
        # other does not: a feature registered with the production dispatcher only)
        common = [c_ for c_ in a if c_ in b]
        ok = common == [c_ for c_ in b if c_ in a] and len(common) >= 5
        r1.instance({"order_production_vs_legacy_equal_on_common_controllers": ok, "order": a, "only_in_one": sorted(set(a) ^ set(b))}, ok)
        if not ok:
            r1.violate("C02|R1|order-disagreement", "the two dispatchers test controllers in different orders: %s vs %s" % (a, b))

    # ---- R2 framing dataflow (shared with C05)
    serialiser_clauses(ctx, chk, "C02", seen)

    # ---- R3 MIME table
    r3 = chk.rule("R3-media-type-table", "detect_mime_type is pure, every decision returns a constant, the default is application/octet-stream, no earlier suffix shadows a later one with a different type, and the types agree with the reviewed extension table", floor=70)
    mfn = F.fns.get("mime_type::MimeType::detect_mime_type")
    if mfn is None:
        r3.violate("C02|R3|anchor-missing", "MimeType::detect_mime_type not found")
    else:
        sub = G.reachable([mfn.def_])
        impure = [n for n in sub if re.match(r"std::(fs|env|time|net|process|thread)::", n)]
        r3.instance({"pure": not impure, "external_callees": len([n for n in sub if n not in F.fns])}, ok=not impure)
        for n in impure:
            r3.violate("C02|R3|impure|%s" % n, "detect_mime_type reaches %s: the media type would no longer depend on the extension only" % n, mfn.file, mfn.span["line"], mfn.def_)
        decisions, default = mime_decisions(F, mfn)
        if not decisions:
            # the chain written as an ordered constant table of (rule, media type) rows searched top to bottom
            tdec = _mime_table_decisions(ctx, mfn)
            if tdec is not None:
                decisions, default = tdec
        ok = default == "application/octet-stream"
        r3.instance({"default": default}, ok)
        if not ok:
            r3.violate("C02|R3|default", "detect_mime_type's fall-through value is %r, not application/octet-stream" % default, mfn.file, mfn.span["line"], mfn.def_)
        expected = ctx.table("mime_expected")["types"]
        flat = []
        for kind, sufs, ty, line in decisions:
            for s_ in sufs:
                flat.append((kind, s_, ty, line))
        for i, (kind, suf, ty, line) in enumerate(flat):
            ok = ty is not None
            why = ""
            if ok:
                for k2, s2, t2, l2 in flat[:i]:
                    # an earlier ends_with test on s2 fires for every name the later test is meant for
                    if k2 == "ends_with" and suf.endswith(s2) and t2 != ty:
                        ok, why = False, "shadowed by the earlier suffix %r -> %s" % (s2, t2)
                if ok and not suf.startswith("."):
                    ok, why = False, "the suffix does not start with '.': the test matches the end of any file name, not an extension"
                want = expected.get(suf.lower())
                if ok and want is not None and ty not in want:
                    ok, why = False, "reviewed table expects %s" % want
                if ok and want is None:
                    r3.note("extension %r -> %s is not in the reviewed table (accepted unreviewed)" % (suf, ty))
            else:
                why = "does not return a constant"
            r3.instance({"suffix": suf, "type": ty, "test": kind}, ok)
            if not ok:
                r3.violate("C02|R3|%s" % suf, "media type decision for %r (%s): %s" % (suf, ty, why), mfn.file, line, mfn.def_)

        # every extension of the reviewed table is still decided (a suffix constant changed to something else drops its type silently)
        decided = {suf.lower() for _k, suf, _t, _l in flat}
        reviewed_decided = ctx.table("mime_expected").get("decided_at_review")
        missing_ = sorted(e_ for e_ in set(reviewed_decided or []) - decided if default not in (expected.get(e_) or []))
        if len(missing_) > 3:
            # many decisions out of sight at once: the chain has been rewritten in a form this extraction does not read; no verdict
            r3.note("%d reviewed extensions have no decision this extraction can see (%s ...): coverage of the reviewed table is not decided" % (len(missing_), missing_[:4]))
            missing_ = []
        if reviewed_decided:
            for ext in missing_:
                r3.instance({"suffix": ext, "decided": False}, False)
                r3.violate("C02|R3|%s|no-longer-decided" % ext, "detect_mime_type no longer has a decision for %r (reviewed table: %s): files with that extension are served as %s" % (ext, expected.get(ext), default), mfn.file, mfn.span["line"], mfn.def_)
        # every decision is a SUFFIX test: a starts_with / contains / == on the name decides by something else than the extension
        # (a test whose outcome is the default type anyway changes no answer and is left alone)
        for how, const_, ty, line in getattr(mime_decisions, "other_tests", []):
            if ty is not None and ty == default:
                continue
            r3.instance({"suffix": const_, "test": how, "type": ty}, False)
            r3.violate("C02|R3|%s|not-a-suffix-test" % const_, "detect_mime_type decides on %r with %s instead of ends_with: the media type (%s) no longer follows the extension" % (const_, how, ty), mfn.file, line, mfn.def_)

    # ---- R3e the extension is what follows the LAST dot
    r3e = chk.rule("R3e-extension-after-the-last-dot", "the helper that hands detect_mime_type the extension of a name finds the dot from the right (Path::extension, rsplit_once, rfind, rsplit): a first-dot split gives 'min.js' for 'jquery.min.js' and the file falls through to the default type", floor=0)
    if mfn is not None:
        mi_ = ctx.inl(mfn)
        helpers_ = [F.fns[callee_name(t)] for _, t in mi_.calls() if callee_name(t) in F.fns and F.fns[callee_name(t)].crate == "rws"
                    and "extension" in callee_name(t).rsplit("::", 1)[-1]]
        for hf in {h.def_: h for h in helpers_}.values():
            hi = ctx.inl(hf)
            hdu = du_of(hi)
            first_dot = []
            for _, t in hi.calls():
                m_ = re.search(r"impl str>::(split_once|find|splitn|split|split_terminator|match_indices)$", callee_name(t) or "")
                if not m_ or len(t["args"]) < 2:
                    continue
                pat = hdu.val_operand(t["args"][-1])
                is_dot = pat[0] == "const" and (pat[1] == "." or (isinstance(pat[1], dict) and pat[1].get("char") == "."))
                if not is_dot:
                    continue
                # `name.split('.').last()` / `.next_back()` still takes the last piece
                takes_last = any(re.search(r"::(last|next_back|rev)$", callee_name(t2) or "") for _, t2 in hi.calls())
                if m_.group(1) in ("split", "split_terminator", "match_indices") and takes_last:
                    continue
                first_dot.append((m_.group(1), t["span"]["line"]))
            ok = not first_dot
            r3e.instance({"helper": hf.def_, "first_dot_operations": [x[0] for x in first_dot]}, ok)
            if not ok:
                r3e.violate("C02|R3e|%s" % hf.def_, "%s cuts the name at the FIRST dot (%s): for a name with two dots the extension is wrong and the media type falls back to the default" % (hf.def_, first_dot[0][0]), hf.file, first_dot[0][1], hf.def_)

    # ---- R4 no directory listing
    r4 = chk.rule("R4-no-directory-listing", "fs::read_dir / ReadDir is unreachable from the connection roots", floor=0)
    n = 0
    for fnn in sorted(seen):
        fn = F.fns.get(fnn)
        if fn is None:
            continue
        for bid, t in fn.calls():
            n += 1
            c = callee_name(t) or ""
            if c.startswith("std::fs::read_dir") or "std::fs::ReadDir" in c or "std::fs::DirEntry" in c:
                r4.violate("C02|R4|%s|%s" % (fnn, c), "%s lists a directory (%s) on the request path: %s" % (fnn, c, G.fmt_path(seen, fnn)), t["span"]["file"], t["span"]["line"], fnn)
    r4.instances = r4.obligations = n
    r4.discharged = n - len(r4.violations)
    # positive control: the matcher recognises read_dir where it exists (file-ext has none; keep a synthetic check on the pattern)
    r4.samples.append({"call_sites_examined": n, "pattern_self_test": bool(re.match(r"std::fs::read_dir", "std::fs::read_dir"))})
    chk.assumptions += ["the reviewed extension table (tables/mime_expected.json) lists, per extension, the media types accepted as 'registered' (IANA / WHATWG / MDN common types)"]
    chk.undecided = ["byte identity of the body with the file", "the lookup precedence file | dir/index.html | path.html on concrete trees (runtime file-system state)", "trailing-slash / empty-file behaviour (value-level)"]
    return chk.finish()


def _always_true(fn):
    """every assignment to the return place is the constant true"""
    vals = []
    for b in fn.blocks:
        if b["cleanup"]:
            continue
        for s in b["stmts"]:
            if s["k"] == "assign" and s["place"]["l"] == 0 and not s["place"]["p"]:
                rv = s["rv"]
                if rv["k"] == "use" and rv["ops"][0].get("k") == "const":
                    vals.append(rv["ops"][0].get("v"))
                else:
                    vals.append(None)
        t = b["term"]
        if t["k"] == "call" and t["dest"]["l"] == 0:
            vals.append(None)
    return bool(vals) and all(v is True for v in vals)
