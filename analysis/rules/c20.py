"""C20 — library parsers report errors instead of panicking (same engine as C04, rooted at the parsing entry points)."""
import re
from ..framework import Check
from .c04 import panic_rule, recursion_rule
from .. import loops


def parser_roots(ctx):
    F = ctx.F
    tbl = ctx.table("parser_roots")
    roots, missing = [], []
    per = []
    for r in tbl["roots"]:
        pat = re.compile(r["pattern"])
        m = sorted(n for n, f in F.fns.items() if f.kind != "Promoted" and pat.fullmatch(n))
        per.append((r, m))
        if len(m) < r["min"]:
            missing.append((r, m))
        roots += m
    return sorted(set(roots)), missing, per


def run(ctx):
    F, G = ctx.F, ctx.G
    chk = Check("C20", ctx.tier, "No panic site, recursion or non-terminating loop form is reachable from the library's parsing entry points.")
    chk.technique = "MIR panic-site inventory + dominance-based guard recognition from the parser entry points; SCC recursion check; loop-form classification"
    chk.analysed = ctx.analysed_summary()
    roots, missing, per = parser_roots(ctx)
    r0 = chk.rule("anchors", "every parsing entry point named by the property exists (frozen table tables/parser_roots.json)", floor=25)
    for r, m in per:
        for x in m:
            r0.instance({"format": r["format"], "root": x})
    for r, m in missing:
        r0.violate("C20|anchors|%s" % r["pattern"][:60], "parser entry point pattern %r matches %d function(s), expected at least %d (anchor missing; fail closed)" % (r["pattern"], len(m), r["min"]))
    rp, seen, inv = panic_rule(ctx, chk, "C20", "P-no-reachable-panic", roots, floor=60)
    chk.analysed["reachable_functions"] = len([n for n in seen if n in F.fns])
    recursion_rule(ctx, chk, "C20", "S-no-recursion", seen)
    loops.loop_rule(ctx, chk, "C20", "T-loops-terminate", seen)
    chk.assumptions += [
        "same assumptions as C04.P (call graph over-approximates; std leaves described by rustdoc '# Panics' + exempt table; allowlist reasons)",
        "loop forms: exit on the None arm of a finite std iterator, or every header->header path performs a cursor read whose EOF/zero count leaves the loop, or a bounded counter"]
    chk.undecided = ["that an Ok value is the *right* value (round-trips) is C14-C19's concern"]
    return chk.finish()
