"""C10 — every response carries the hardening and no-cache headers, each exactly once (structural, sufficient)."""
import re
from ..callgraph import callee_name
from ..cfg import cfg_of
from ..dataflow import du_of, place_key, val_ref_target
from ..framework import Check
from .. import loops as L
from ..taint import local_deps
from .c05 import header_aggregates, const_str

REQUIRED = {
    "X-Content-Type-Options": lambda v: v == "nosniff",
    "X-Frame-Options": lambda v: v == "SAMEORIGIN",
    "Cache-Control": lambda v: isinstance(v, str) and "no-store" in v,
    "Accept-Ranges": lambda v: v == "bytes",
    "Accept-CH": lambda v: v is None or (isinstance(v, str) and len(v) > 0),   # computed list: checked non-empty separately
    "Vary": lambda v: True,                                                       # must name Origin: checked by dataflow
}
REMOVERS = re.compile(r"std::vec::Vec::<T, A>::(clear|retain|retain_mut|truncate|pop|remove|swap_remove|drain|dedup|dedup_by|dedup_by_key|split_off|set_len)|std::mem::(take|replace|swap)")


def const_return(F, name, depth=0):
    """the string constant a function returns (`CONST.to_string()`), if that is all it does"""
    fn = F.fns.get(name)
    if fn is None or depth > 3:
        return None
    du = du_of(fn)
    v = du.val_place((0, ()))
    return const_str(v)


def returned_header(F, name):
    """(name_const, value_const_or_None, value_val) of the Header a helper function builds and returns"""
    fn = F.fns.get(name)
    if fn is None:
        return None
    aggs = header_aggregates(fn)
    if not aggs:
        # the Header value is put together one private call down (`hint_list_header(NAME)`): look with the helpers inlined (A11)
        from ..inline import inlined
        fn = inlined(F, fn)
        aggs = header_aggregates(fn)
    if len(aggs) != 1:
        return None
    bid, s, nv, vv = aggs[0]
    return const_str(nv), const_str(vv), vv, fn


def _table_rows(fn, du, name_val, value_val, bid):
    """Header { name: TABLE[i].a.to_string(), value: TABLE[i].b.to_string() } with TABLE a constant array and i the item of a loop over
    0..TABLE.len(): the (name, value) pair of every row; None otherwise"""
    from ..numeric import numeric_of, ZERO
    from ..guards import guards_of

    def cell(v):
        for _ in range(4):
            if v[0] == "call" and v[2]:
                v = v[2][0]
        if v[0] not in ("ref", "place"):
            return None
        l, proj = v[1]
        pr = [e for e in proj if e != "*"]
        if len(pr) != 2 or pr[0][0] != "i" or pr[1][0] != "f":
            return None
        d = du.unique_def(l)
        if d is None or d[0] != "assign" or d[3]["k"] != "use" or d[3]["ops"][0].get("k") != "const":
            return None
        cv = d[3]["ops"][0].get("v")
        if not (isinstance(cv, dict) and isinstance(cv.get("fields"), dict)):
            return None
        rows = [cv["fields"][k] for k in sorted(cv["fields"], key=lambda x: int(x))] if all(k.isdigit() for k in cv["fields"]) else None
        if not rows:
            return None
        return l, pr[0][1], str(pr[1][1]), rows
    a, b = cell(name_val), cell(value_val)
    if a is None or b is None or a[0] != b[0] or a[1] != b[1]:
        return None
    idx = du.val_place((a[1], ()))
    num = numeric_of(fn, du, guards_of(fn))
    rb = num._range_item_bounds(idx, bid) if idx[0] == "place" and idx[1][1] else None
    if rb is None or rb[0] != (ZERO, 0) or rb[1] != (ZERO, len(a[3])):
        return None
    out = []
    for row in a[3]:
        f = row.get("fields", {}) if isinstance(row, dict) else {}
        if a[2] not in f or b[2] not in f:
            return None
        out.append((f[a[2]], f[b[2]]))
    return out


def on_all_paths(cfg, block):
    rets = cfg.return_blocks()
    if not rets:
        return False
    reach = cfg.reachable_from(cfg.entry, removed_nodes=[block])
    return not any(r in reach for r in rets) and block in cfg.live_blocks()


def in_cycle(cfg, block):
    return any(block in c and (len(c) > 1 or block in cfg.succ[block]) for c in cfg.sccs())


def _table_constructor_calls(ctx, fn, map_val):
    """[('call', constructor, (), block)] when map_val is `CONST_TABLE.iter().map(|f| f())` and CONST_TABLE holds function pointers only"""
    F = ctx.F
    from .c14 import items_mentioned
    mblock = map_val[3]
    t = next((b["term"] for b in fn.blocks if b["id"] == mblock), None)
    if t is None:
        return []
    closures = [x for x in t.get("fn_items", []) if x in F.fns and F.fns[x].kind == "Closure"]
    if len(closures) != 1:
        return []
    cf = F.fns[closures[0]]
    calls = list(cf.calls())
    if len(calls) != 1 or calls[0][1].get("indirect") is None:
        return []
    ds = du_of(cf).defs.get(0, [])
    if not (len(ds) == 1 and ds[0][0] == "call" and ds[0][1] == calls[0][0]):
        return []
    tables = []
    for item in sorted(items_mentioned(F, fn)):
        v = (F.consts.get(item) or {}).get("v")
        rows = v.get("fields") if isinstance(v, dict) else None
        if isinstance(rows, dict) and rows and all(isinstance(x, dict) and isinstance(x.get("fn"), str) for x in rows.values()):
            tables.append([rows[k]["fn"] for k in sorted(rows, key=lambda x: int(x) if str(x).isdigit() else 0)])
    # the table this map runs over: the one whose element type is the closure's parameter type; with one candidate there is no choice
    ety = (t.get("arg_tys") or [""])[0]
    cands = [tb for tb in tables if all(x in F.fns for x in tb)]
    if len(cands) > 1:
        cands = [tb for tb in cands if all((F.fns[x].local_ty(0) or "") in ety for x in tb)]
    if len(cands) != 1:
        return []
    return [("call", x, (), mblock) for x in cands[0]]


def run(ctx):
    F, G, R = ctx.F, ctx.G, ctx.R
    chk = Check("C10", ctx.tier, "The default-header builder pushes each hardening header exactly once on every path; every reachable Response is built from its result; nothing removes or duplicates them; the serialiser emits the whole list.")
    chk.technique = "must-pass-through / exactly-once checks on the builder's CFG, who-may-construct and who-may-mutate rules over the call graph, dataflow of the Vary value"
    chk.analysed = ctx.analysed_summary()
    roots = R.connection_roots()
    seen = G.reachable(roots)
    local = sorted(n for n in seen if n in F.fns and F.fns[n].crate == "rws" and F.fns[n].kind != "Promoted")

    # ---- the builder: the function that pushes the X-Content-Type-Options header
    builder = None
    pushes_of = {}
    from ..inline import is_private_helper
    table_ok = {}
    for n in local:
        if is_private_helper(F, n):
            continue
        fn = ctx.inl(F.fns[n])        # a private per-header constructor (fixed_header(i), vary_header()) is part of the builder
        du = du_of(fn)
        plist = []
        events = []
        for bid, t in fn.calls():
            cn_ = callee_name(t) or ""
            tys = " ".join(t.get("arg_tys") or [])
            if cn_ == "std::vec::Vec::<T, A>::push" and "header::Header" in (t.get("arg_tys") or ["", ""])[1]:
                events.append((bid, t, du.val_operand(t["args"][1])))
            elif (cn_.endswith("as std::iter::Extend<T>>::extend") or cn_.endswith("::extend_from_slice") or (t.get("callee") or "") == "std::iter::Extend::extend") \
                    and "header::Header" in tys and len(t["args"]) == 2:
                # `list.extend([h1, h2, ..])`: one push per element of the array literal
                arr = du.val_operand(t["args"][1])
                while arr[0] == "cast":
                    arr = arr[2]
                if arr[0] == "ref":
                    arr = du.val_place(arr[1])
                if arr[0] == "aggregate" and arr[1] == "array":
                    for el in arr[3]:
                        events.append((bid, t, el))
                elif arr[0] == "call" and (arr[1] or "").endswith("::map"):
                    # `list.extend(TABLE.iter().map(|make| make()))` over a constant table of constructors: one push per row
                    for ev_ in _table_constructor_calls(ctx, fn, arr):
                        events.append((bid, t, ev_))
        for bid, t, v in events:
            hn = hv = None
            vv = None
            if v[0] == "aggregate" and v[2] == "header::Header":
                d = dict(zip(v[4], v[3]))
                hn, hv, vv = const_str(d["name"]), const_str(d["value"]), d["value"]
                rows = _table_rows(fn, du, d["name"], d["value"], bid) if hn is None else None
                if rows:
                    # a constant table of (name, value) rows pushed by a loop over all of its indices: one push per row
                    for rn, rvv in rows:
                        plist.append((bid, rn, rvv, ("const", rvv, None, None), t))
                        table_ok[(n, bid, rn)] = True
                    continue
            elif v[0] == "call" and v[1] in F.fns:
                rh = returned_header(F, v[1])
                if rh:
                    hn, hv, vv = rh[0], rh[1], ("helper", v[1], rh[2], rh[3])
            plist.append((bid, hn, hv, vv, t))
        pushes_of[n] = plist
        if any(hn == "X-Content-Type-Options" for _, hn, _, _, _ in plist):
            builder = n
    r1 = chk.rule("R1-builder-pushes-each-once", "the default-header builder pushes each of the six required headers exactly once, on every path, with the required value", floor=6)
    if builder is None:
        r1.violate("C10|R1|anchor-missing|builder", "no function pushes an X-Content-Type-Options header: the default-header builder is gone")
        return chk.finish()
    bfn = ctx.inl(F.fns[builder])
    cfg = cfg_of(bfn)
    du = du_of(bfn)
    for name, pred in REQUIRED.items():
        sites = [(bid, hv, vv, t) for bid, hn, hv, vv, t in pushes_of[builder] if hn == name]
        ok = len(sites) == 1
        detail = {"header": name, "push_sites": len(sites)}
        if ok:
            bid, hv, vv, t = sites[0]
            every = on_all_paths(cfg, bid)
            once = not in_cycle(cfg, bid)
            if table_ok.get((builder, bid, name)):
                # pushed by the loop over the whole constant table: once per row; "on every path" = the loop is entered on every path
                # and the push is on every cycle
                lp = [l_ for l_ in L.loops_of(bfn) if bid in l_.body]
                once = len(lp) == 1 and L._on_every_cycle(cfg, lp[0], bid)
                every = bool(lp) and on_all_paths(cfg, lp[0].header)
            val_ok = pred(hv)
            detail.update({"value": hv, "on_every_path": every, "not_in_loop": once, "value_ok": val_ok, "line": t["span"]["line"]})
            ok = every and once and val_ok
            if name == "Accept-CH" and hv is None:
                # value is the join of a non-empty constant list in the helper
                nonempty = _nonempty_join(F, vv)
                detail["nonempty_list"] = nonempty
                ok = ok and nonempty
            if name == "Vary":
                vok, why = _vary_names_origin(F, bfn, bid, vv, ctx)
                detail["names_Origin"] = vok
                detail["why"] = why
                ok = ok and vok
        r1.instance(detail, ok)
        if not ok:
            r1.violate("C10|R1|%s|%s" % (builder, name), "%s: required header %s is not pushed exactly once on every path with the required value (%s)" % (builder, name, detail), bfn.file, bfn.span["line"], builder)
    # the builder's own list is what it returns, and the other pushes must not repeat a required name
    for bid, hn, hv, vv, t in pushes_of[builder]:
        pass
    # ---- duplicates: no other reachable code constructs a header with a required name
    builder_helpers = {vv_[1] for _, _, _, vv_, _ in pushes_of[builder] if isinstance(vv_, tuple) and vv_ and vv_[0] == "helper"}
    r1d = chk.rule("R1d-no-second-source", "no function outside the builder (CORS functions, controllers, serialisers) constructs a header with one of the six required names", floor=1)
    for n in local:
        if n == builder:
            continue
        fn = F.fns[n]
        helpers = {v[1] for _, _, _, v, _ in [(0, 0, 0, ("x", None), 0)] if False}
        for bid, s, nv, vv in header_aggregates(fn):
            hn = const_str(nv)
            # helper functions that only build one required header for the builder are part of the builder
            is_helper = any(e.src == builder for e in G.inn.get(n, []) if e.kind == "call") and len(G.inn.get(n, [])) >= 1 and all(e.src == builder or e.src not in seen for e in G.inn.get(n, []) if e.kind == "call")
            # ... or a row of the builder's table of constructors that nobody else calls
            is_helper = is_helper or (n in builder_helpers and all(e.src == builder or e.src not in seen for e in G.inn.get(n, []) if e.kind == "call"))
            ok = hn not in REQUIRED or is_helper
            r1d.instance({"fn": n, "header": hn if hn is not None else "<computed>", "line": s["span"]["line"]}, ok)
            if not ok:
                r1d.violate("C10|R1d|%s|%s" % (n, hn), "%s constructs a second %s header: the response would carry it twice" % (n, hn), s["span"]["file"], s["span"]["line"], n)

    # ---- R2 who may construct a Response
    r2 = chk.rule("R2-responses-start-from-the-builder", "every reachable Response is created by the constructor with header argument Some(<result of the default-header builder>); no other reachable code builds a Response value", floor=1)
    ctor = "response::Response::get_response"
    allowed_agg = {ctor}
    for n in local:
        fn = F.fns[n]
        du_ = du_of(fn)
        ld = local_deps(fn)
        builder_dests = {t["dest"]["l"] for _, t in fn.calls() if callee_name(t) == builder}
        for bid, t in fn.calls():
            if callee_name(t) != ctor:
                continue
            a = t["args"][1]
            ok = False
            why = "header argument is not Some(..)"
            v = du_.val_operand(a)
            if v[0] == "aggregate" and v[2] == "std::option::Option" and v[3]:
                inner = t["args"][1]
                # the Option's payload local depends on a call to the builder
                if a.get("k") in ("copy", "move"):
                    ok = bool(ld.closure(a["l"]) & builder_dests)
                    why = "payload does not come from %s" % builder
            r2.instance({"fn": n, "line": t["span"]["line"], "headers_from_builder": ok}, ok)
            if not ok:
                r2.violate("C10|R2|%s|get_response" % n, "%s creates a Response without the default headers (%s)" % (n, why), t["span"]["file"], t["span"]["line"], n)
        for b in fn.blocks:
            if b["cleanup"]:
                continue
            for s in b["stmts"]:
                if s["k"] == "assign" and s["rv"]["k"] == "aggregate" and s["rv"].get("adt") == "response::Response" and n not in allowed_agg:
                    r2.instance({"fn": n, "line": s["span"]["line"], "aggregate_outside_constructor": True}, ok=False)
                    r2.violate("C10|R2|%s|aggregate" % n, "%s builds a Response value directly, bypassing the constructor that installs the default headers" % n, s["span"]["file"], s["span"]["line"], n)

    # ---- R3 nobody removes them
    r3 = chk.rule("R3-headers-only-grow", "no reachable code assigns Response.headers or calls a removing method (clear, retain, truncate, pop, remove, drain, mem::take ...) on it", floor=1)
    nchecked = 0
    for n in local:
        fn = F.fns[n]
        du_ = du_of(fn)
        for bid, t in fn.calls():
            c = callee_name(t) or ""
            if not REMOVERS.fullmatch(c):
                continue
            tgt = val_ref_target(du_, du_.val_operand(t["args"][0])) if t["args"] else None
            if tgt is None:
                continue
            fields = [p[2] for p in tgt[1] if isinstance(p, tuple) and p[0] == "f"]
            nchecked += 1
            if "headers" in fields and "Response" in fn.local_ty(tgt[0]):
                r3.violate("C10|R3|%s|%s" % (n, c.split("::")[-1]), "%s calls %s on a Response's header list: default headers can be removed" % (n, c), t["span"]["file"], t["span"]["line"], n)
        for b in fn.blocks:
            if b["cleanup"]:
                continue
            for s in b["stmts"]:
                if s["k"] == "assign":
                    pk = place_key(s["place"])
                    if pk[1] and pk[1][-1][0] == "f" and pk[1][-1][2] == "headers" and "response::Response" in fn.local_ty(pk[0]) and n != ctor:
                        nchecked += 1
                        r3.violate("C10|R3|%s|assign" % n, "%s overwrites Response.headers" % n, s["span"]["file"], s["span"]["line"], n)
    r3.instances = r3.obligations = max(nchecked, 1)
    r3.discharged = r3.obligations - len(r3.violations)
    r3.samples.append({"mutating_calls_and_assignments_examined": nchecked})

    # ---- R4 the serialiser iterates the whole vector
    r4 = chk.rule("R4-serialiser-emits-every-header", "the server's serialiser iterates response.headers itself (no adaptor) in a for-loop whose body appends name and value", floor=1)
    for n in local:
        fn = F.fns[n]
        if fn.ret != "std::vec::Vec<u8>" or not any(callee_name(t) == "response::Response::generate_body" for _, t in fn.calls()):
            continue
        fn = ctx.inl(fn)        # the header loop may be a private helper taking `&response.headers`
        du_ = du_of(fn)
        found = False
        from .parse_common import fully_iterated
        for bid, v in fully_iterated(fn, du_, "header::Header"):
                # a `for` loop over the list, or `headers.iter().map(line).collect()`: every element, in order
                tgt = val_ref_target(du_, v) if v[0] == "call" else (v[1] if v[0] in ("place", "ref") else None)
                fields = [p[2] for p in tgt[1] if isinstance(p, tuple) and p[0] == "f"] if tgt is not None else []
                if fields == ["headers"]:
                    found = True
        r4.instance({"serialiser": n, "iterates_response_headers_directly": found}, found)
        if not found:
            r4.violate("C10|R4|%s" % n, "%s does not iterate response.headers directly: some headers may be skipped" % n, fn.file, fn.span["line"], n)
    chk.assumptions += ["'exactly once' is decided per construction site: a header name is produced by exactly one site that lies on every path of the builder and outside loops",
                        "C05.R6 decides that each iterated header becomes one 'name: value' line"]
    chk.undecided = ["the exact textual value of Accept-CH (only non-emptiness is decided)"]
    return chk.finish()


def _selected_rows_nonempty(F, fn):
    """fn (helpers inlined) joins the names of the rows of a constant table that a selector picks: True when at least one row has the
    selected flag set (`join_selected(|row| row.advertised)` over `const TABLE: [Row; N]`), None when it is not of that form"""
    from ..inline import inlined
    from .c14 import items_mentioned
    fi = inlined(F, fn)
    tables = []
    for item in sorted(items_mentioned(F, fi)):
        v = (F.consts.get(item) or {}).get("v")
        rows = v.get("fields") if isinstance(v, dict) else None
        if isinstance(rows, dict) and rows and all(isinstance(r, dict) and isinstance(r.get("fields"), dict) for r in rows.values()):
            tables.append([r["fields"] for r in rows.values()])
    if len(tables) != 1:
        return None
    # the selector: a closure of the function that returns one boolean field of its argument
    flags = set()
    for cn, cf in F.fns.items():
        if cf.kind == "Closure" and cn.startswith(fn.def_ + "::{closure"):
            v0 = du_of(cf).val_place((0, ()))
            names = [e[2] for e in (v0[1][1] if v0[0] in ("place", "ref") else ()) if isinstance(e, tuple) and e[0] == "f" and len(e) > 2]
            if names:
                flags.add(names[-1])
    if len(flags) != 1:
        return None
    flag = next(iter(flags))
    return any(r.get(flag) is True for r in tables[0])


def _nonempty_join(F, vv):
    if not (isinstance(vv, tuple) and vv and vv[0] == "helper"):
        return False
    # the helper's value is to_string(call get_client_hint_list()); that function joins a constant array of >= 1 items
    v = vv[2]
    hfn_ = vv[3] if len(vv) > 3 and vv[3] is not None else F.fns[vv[1]]
    hdu = du_of(hfn_)
    for _ in range(8):
        if v[0] in ("ref", "place"):
            nv = hdu.val_place((v[1][0], ()))
            if nv == v or nv[0] == "place":
                return False
            v = nv
            continue
        if v[0] == "call" and v[1] in F.fns:
            fn = F.fns[v[1]]
            for b in fn.blocks:
                for s in b["stmts"]:
                    if s["k"] == "assign" and s["rv"]["k"] == "aggregate" and s["rv"].get("agg") == "array" and len(s["rv"]["ops"]) >= 1:
                        return True
            sel = _selected_rows_nonempty(F, fn)
            return bool(sel)
        if v[0] == "call" and v[2]:
            v = v[2][0]
            continue
        break
    return False


def _vary_names_origin(F, bfn, push_block, vv, ctx=None):
    """the Vary value is a join of a vector into which a value returned by a function returning the constant "Origin" flows unconditionally"""
    if isinstance(vv, tuple) and vv and vv[0] == "helper" and ctx is not None and vv[1] in F.fns:
        # the header is built by a constructor of its own (a row of the builder's table): the value is judged inside it
        hf = ctx.inl(F.fns[vv[1]])
        aggs = [(b_, s_) for b_ in hf.blocks for s_ in b_["stmts"] if s_["k"] == "assign" and s_["rv"]["k"] == "aggregate" and s_["rv"].get("adt") == "header::Header"]
        if len(aggs) == 1:
            d_ = dict(zip(aggs[0][1]["rv"]["fields"], aggs[0][1]["rv"]["ops"]))
            return _vary_names_origin(F, hf, aggs[0][0]["id"], du_of(hf).val_operand(d_["value"]), ctx)
        return False, "the Vary constructor builds %d headers" % len(aggs)
    cfg = cfg_of(bfn)
    du = du_of(bfn)
    ld = local_deps(bfn)
    # the vector local: first argument of the join
    v = vv
    vec_local = None
    for _ in range(6):
        if isinstance(v, tuple) and v and v[0] == "call" and v[2]:
            if "join" in (v[1] or ""):
                a = v[2][0]
                while a[0] == "cast":
                    a = a[2]           # `[a, b].join(", ")`: the array is unsized to a slice first
                tgt = val_ref_target(du, a)
                if tgt is not None:
                    vec_local = tgt[0]
                break
            v = v[2][0]
        else:
            break
    if vec_local is None:
        return False, "Vary value is not a join of a vector"
    # the vector collected from a constant table of value producers: `TABLE.iter().map(|f| f()).collect()`
    if ctx is not None:
        vd = du.val_place((vec_local, ()))
        if vd[0] == "call" and (vd[1] or "").endswith("::collect") and vd[2] and vd[2][0][0] == "call" and (vd[2][0][1] or "").endswith("::map"):
            names = [x[1] for x in _table_constructor_calls(ctx, bfn, vd[2][0])]
            if any(const_return(F, x) == "Origin" for x in names):
                return True, "the Vary list is collected from a constant table of producers, one of which returns the constant Origin"
            return False, "no row of the table the Vary list is collected from returns the constant Origin"
    origin_dests = {}
    for bid, t in bfn.calls():
        c = callee_name(t)
        if c in F.fns and const_return(F, c) == "Origin":
            origin_dests[t["dest"]["l"]] = bid
    if not origin_dests:
        return False, "no call to a function returning the constant \"Origin\""
    # flows of an Origin-dependent value into the vector: assignments to it, or push(&mut vec, x)
    flows = []
    for b in cfg.live_blocks():
        blk = cfg.blocks[b]
        for s in blk["stmts"]:
            if s["k"] == "assign" and s["place"]["l"] == vec_local and not s["place"]["p"]:
                srcs = set()
                for o in s["rv"].get("ops", []):
                    if o.get("k") in ("copy", "move"):
                        srcs |= ld.closure(o["l"])
                if srcs & set(origin_dests):
                    flows.append(b)
        t = blk["term"]
        if t["k"] == "call":
            c = callee_name(t) or ""
            if t["dest"]["l"] == vec_local and not t["dest"]["p"]:
                srcs = set()
                for a in t["args"]:
                    if a.get("k") in ("copy", "move"):
                        srcs |= ld.closure(a["l"])
                if srcs & set(origin_dests):
                    flows.append(b)
            if c == "std::vec::Vec::<T, A>::push" and t["args"]:
                tgt = val_ref_target(du, du.val_operand(t["args"][0]))
                if tgt is not None and tgt[0] == vec_local and len(t["args"]) > 1 and t["args"][1].get("k") in ("copy", "move"):
                    if ld.closure(t["args"][1]["l"]) & set(origin_dests):
                        flows.append(b)
    for fb in flows:
        if cfg.node_dominates(fb, push_block):
            return True, "Origin flows into the Vary list at bb%d, which dominates the push" % fb
    return False, "the Origin token reaches the Vary list only conditionally (flows at %s)" % flows
