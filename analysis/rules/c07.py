"""C07 — the worker pool runs every task exactly once, N at a time, without deadlock (necessary structural conditions)."""
import re
from ..callgraph import callee_name, BOX_DYN_CALL
from ..cfg import cfg_of, term_succs
from ..dataflow import du_of, place_key
from ..framework import Check
from ..guards import guards_of, optres_root
from .. import loops as L

LOCK_CALLS = ("std::sync::Mutex::<T>::lock", "std::sync::Mutex::<T>::try_lock", "std::sync::RwLock::<T>::read", "std::sync::RwLock::<T>::write",
              "std::sync::RwLock::<T>::try_read", "std::sync::RwLock::<T>::try_write")
GUARD_TY = re.compile(r"(MutexGuard|RwLockReadGuard|RwLockWriteGuard)")


def job_blocks(ctx, fn):
    """blocks of `fn` (possibly a body with helpers inlined) whose call invokes a boxed dyn callable (directly or through catch_unwind)"""
    from ..callgraph import INVOKERS
    out = []
    for b in fn.blocks:
        if b.get("cleanup"):
            continue
        t = b["term"]
        if t["k"] != "call":
            continue
        c = callee_name(t) or ""
        if c in BOX_DYN_CALL:
            out.append((b["id"], "dyn-call"))
        elif c not in ctx.F.fns and any(k in c for k in INVOKERS) and any("dyn std::ops::Fn" in x for x in t.get("gargs", []) + t.get("arg_tys", [])):
            out.append((b["id"], "dyn-call-caught" if c.startswith("std::panic::catch_unwind") else "dyn-call"))
    return out


def live_guards_at(fn, target_blocks):
    """forward may-analysis: locals that may hold a live lock guard at the terminator of each target block"""
    cfg = cfg_of(fn)
    def is_guard_local(l):
        return bool(GUARD_TY.search(fn.local_ty(l)))
    state_in = {b: set() for b in cfg.live_blocks()}
    work = [cfg.entry]
    out_at = {}
    seen_once = set()
    while work:
        b = work.pop()
        st = set(state_in[b])
        blk = cfg.blocks[b]
        for s in blk["stmts"]:
            if s["k"] == "assign":
                rv = s["rv"]
                dst = s["place"]
                # a guard moves with the value that holds it - the whole local, or the payload taken out of `Ok(guard)` by a `match`
                # (`let queue = match receiver.lock() { Ok(guard) => guard, .. }` keeps it alive under a new name)
                moved = [o for o in rv.get("ops", []) if o.get("k") == "move" and o["l"] in st]
                for o in moved:
                    st.discard(o["l"])
                    if not dst["p"]:
                        st.add(dst["l"])
                if not moved and not dst["p"] and dst["l"] in st and rv["k"] != "ref":
                    st.discard(dst["l"])   # overwritten
            elif s["k"] == "dead":
                st.discard(s["l"])
        t = blk["term"]
        out_at[b] = set(st)     # state at the terminator (before its effect)
        if t["k"] == "call":
            for a in t["args"]:
                if a.get("k") == "move" and not a["p"] and a["l"] in st:
                    st.discard(a["l"])
            name = callee_name(t)
            d = t["dest"]
            if not d["p"] and is_guard_local(d["l"]) and (name in LOCK_CALLS or any(a.get("k") == "move" and is_guard_local(a["l"]) for a in t["args"] if not a.get("p"))):
                st.add(d["l"])
        elif t["k"] == "drop":
            p = t["place"]
            if not p["p"]:
                st.discard(p["l"])
        for s in term_succs(t):
            if s not in state_in:
                continue
            new = state_in[s] | st
            if new != state_in[s] or s not in seen_once:
                state_in[s] = new
                seen_once.add(s)
                work.append(s)
    return {b: out_at.get(b, set()) for b in target_blocks}


def run(ctx):
    F, G, R = ctx.F, ctx.G, ctx.R
    chk = Check("C07", ctx.tier, "Seven necessary structural conditions of the pool's exactly-once / N-at-a-time / no-deadlock behaviour; interleavings themselves are not explored.")
    chk.technique = "typestate-style forward dataflow of lock guards on MIR, loop/must-pass-through checks on the CFG, type inspection of the channel payload"
    chk.analysed = ctx.analysed_summary()
    r0 = chk.rule("anchors", "worker closure (argument of thread::Builder::spawn), submit function (boxes its generic parameter), accept loop", floor=3)
    for e in R.errors:
        r0.violate("C07|anchors|" + e.split(":")[1].strip()[:50], e)
    for x in R.worker_closures + R.submit_fns + R.accept_loops:
        r0.instance({"anchor": x})

    for wc in R.worker_closures:
        fn = ctx.inl(F.fns[wc])      # the worker's loop may live in private helpers (Worker::work, next_job, run_job)
        cfg = cfg_of(fn)
        du = du_of(fn)
        jobs = job_blocks(ctx, fn)
        # R1: no lock guard live when the job is invoked
        r1 = chk.rule("R1-lock-released-before-task", "no MutexGuard (or Result holding one) is live at the call that runs the received task", floor=1)
        if not jobs:
            r1.violate("C07|R1|%s|no-job-call" % wc, "worker closure %s never invokes a boxed task (anchor missing)" % wc)
        live = live_guards_at(fn, [b for b, _ in jobs])
        for b, kind in jobs:
            held = sorted(live[b])
            line = cfg.blocks[b]["term"]["span"]["line"]
            r1.instance({"worker": wc, "job_call_line": line, "guards_live": ["_%d: %s" % (l, fn.local_ty(l)[:60]) for l in held]}, ok=not held)
            if held:
                r1.violate("C07|R1|%s|guard-live-at-job" % wc,
                           "the receiver lock guard (%s) is still held when the task is invoked at line %d: tasks would run one at a time" % (
                               ", ".join(fn.local_name(l) or "_%d" % l for l in held), line), fn.file, line, wc)
        # positive control for R1: the analysis must see the guard alive at the recv call
        recv_blocks = [bid for bid, t in fn.calls() if (callee_name(t) or "").startswith("std::sync::mpsc::Receiver::<T>::recv")]
        lv = live_guards_at(fn, recv_blocks)
        r1c = chk.rule("R1-positive-control", "the guard analysis sees a live guard at the recv() call (otherwise it is blind)", floor=1)
        for b in recv_blocks:
            r1c.instance({"recv_block": b, "guards_live": len(lv[b])}, ok=bool(lv[b]))
            if not lv[b]:
                r1c.violate("C07|R1c|%s" % wc, "no lock guard is live at Receiver::recv in %s: either the queue is not locked or the analysis lost the guard" % wc, fn.file, fn.span["line"], wc)

        # R3: the worker loop has no exit
        r3 = chk.rule("R3-worker-loop-has-no-exit", "the worker closure has no reachable return / break out of its loop", floor=1)
        rets = cfg.return_blocks()
        r3.instance({"worker": wc, "reachable_returns": len(rets)}, ok=not rets)
        for rb in rets:
            line = cfg.blocks[rb]["term"]["span"]["line"]
            r3.violate("C07|R3|%s|return" % wc, "worker closure %s can return (line %d): the worker thread would end after a task or an error" % (wc, line), fn.file, line, wc)

        # R4: every received task is invoked before the next iteration
        r4 = chk.rule("R4-received-task-is-run", "on the recv-Ok edge every path back to the loop header passes through the task invocation", floor=1)
        g = guards_of(fn)
        lps = L.loops_of(fn)
        for rb in recv_blocks:
            dest = place_key(cfg.blocks[rb]["term"]["dest"])
            root, inv = optres_root(du, dest)
            ok_edges = [e for e, f in g.facts() if f[0] == "variant" and f[1] == root and f[3] is (False if inv else True)]
            if not ok_edges:
                # the result handed on with its Ok side untouched before it is tested: `queue.recv().map_err(..)` returned by a helper
                # (inlined, A11) and matched by the loop
                def from_recv(v, depth=0):
                    if depth > 12:
                        return False
                    if v[0] == "call":
                        if v[3] == rb:
                            return True
                        if (v[1] or "").endswith(("Result::<T, E>::map_err", "Result::<T, E>::or_else")) and v[2]:
                            return from_recv(v[2][0], depth + 1)
                        return False
                    if v[0] in ("place", "ref") and not [e_ for e_ in v[1][1] if e_ != "*"]:
                        w = du.val_place((v[1][0], ()))
                        if w != v:
                            return from_recv(w, depth + 1)
                        # several definitions (the inlined helper's returns): the early Err of a `?` aside, each one hands on the recv result
                        ds_ = [d_ for d_ in du.defs.get(v[1][0], []) if not (d_[0] == "call" and (callee_name(d_[3]) or "").endswith("::from_residual"))]
                        if not ds_ or len(ds_) == len(du.defs.get(v[1][0], [])) and len(ds_) > 1:
                            return False
                        return all(from_recv(du.val_call(d_[3], 0, d_[1]) if d_[0] == "call" else du.val_rvalue(d_[3], 0, d_[1]), depth + 1) for d_ in ds_)
                    return False
                ok_edges = [e for e, f in g.facts() if f[0] == "variant" and f[3] is True and e[0] in cfg.reachable_from(rb)
                            and from_recv(du.val_place(du.canon(f[1])))]
            if not ok_edges:
                r4.violate("C07|R4|%s|no-ok-edge" % wc, "the result of recv() is never tested in %s" % wc, fn.file, fn.span["line"], wc)
            for e in ok_edges:
                for lp in lps:
                    if e[0] not in lp.body:
                        continue
                    # from e's target, can the header be reached while avoiding all job blocks?
                    avoid = [b for b, _ in jobs]
                    # feasible paths only: a helper that returns Some(task) / None merges both returns at its call site, the
                    # caller's `match` separates them again
                    reach = L.feasible_reach(cfg, e, avoid=avoid, stop=(lp.header,))
                    if reach is None:
                        reach = cfg.reachable_from(e[1], removed_nodes=avoid)
                    ok = lp.header not in reach and not any(x in reach for x in cfg.return_blocks())
                    r4.instance({"recv_ok_edge": list(e), "loop_header": lp.header}, ok)
                    if not ok:
                        r4.violate("C07|R4|%s|task-dropped" % wc, "a task received at line %d can be dropped: a path from the Ok edge back to the loop header avoids the invocation" % cfg.blocks[rb]["term"]["span"]["line"], fn.file, cfg.blocks[rb]["term"]["span"]["line"], wc)

    # R2: the constructor spawns exactly `size` workers, each named
    r2 = chk.rule("R2-spawns-size-workers", "the worker-creating call sits in a loop over Range{start: 0, end: <size parameter>} and runs once per iteration", floor=1)
    r2b = chk.rule("R2b-workers-named", "worker threads are created through thread::Builder::name(..) (Log::request_response unwraps thread::current().name())", floor=1)
    spawner_fns = sorted({f for f, _ in R.spawn_sites})
    ctors = []
    for sp in spawner_fns:
        sfn = F.fns[sp]
        # named?
        named = any(callee_name(t) == "std::thread::Builder::name" for _, t in sfn.calls())
        r2b.instance({"spawner": sp, "calls_Builder::name": named}, ok=named)
        if not named:
            r2b.violate("C07|R2b|%s" % sp, "%s spawns worker threads without Builder::name: thread::current().name() is None on them and Log::request_response panics" % sp, sfn.file, sfn.span["line"], sp)
        for e in G.inn.get(sp, []):
            if e.kind != "call":
                continue
            cfn = F.fns[e.src]
            cfg = cfg_of(cfn)
            du = du_of(cfn)
            inloop = [lp for lp in L.loops_of(cfn) if e.block in lp.body]
            if not inloop and cfn.kind == "Closure" and cfn.parent in F.fns:
                # idiom: (0..size).map(|id| Worker::new(id, ..)).collect()
                pfn = F.fns[cfn.parent]
                pdu = du_of(pfn)
                maps = [t for _, t in pfn.calls() if (callee_name(t) or "") in ("std::iter::Iterator::map", "std::iter::Iterator::for_each") and cfn.def_ in t.get("fn_items", [])]
                # the mapped iterator is consumed completely: collect(), for_each(), or Vec::extend(iterator)
                collected = any((callee_name(t) or "") == "std::iter::Iterator::collect" for _, t in pfn.calls()) or any((callee_name(t) or "") == "std::iter::Iterator::for_each" for t in maps) \
                    or any(((callee_name(t) or "").endswith("as std::iter::Extend<T>>::extend") or (t.get("callee") or "") == "std::iter::Extend::extend") and "std::iter::Map<" in " ".join(t.get("arg_tys", [])) for _, t in pfn.calls())
                rng = None
                for b in pfn.blocks:
                    for s_ in b["stmts"]:
                        if s_["k"] == "assign" and s_["rv"]["k"] == "aggregate" and s_["rv"].get("adt") == "std::ops::Range":
                            rng = s_["rv"]
                ok_rng = False
                desc = None
                if rng is not None:
                    a, b_ = pdu.val_operand(rng["ops"][0]), pdu.val_operand(rng["ops"][1])
                    end_is_param = b_[0] == "place" and not b_[1][1] and 1 <= b_[1][0] <= pfn.nargs
                    written = any(pk[0] == (b_[1][0] if b_[0] == "place" else -1) for _, _, pk, _ in pdu.writes)
                    ok_rng = a[0] == "const" and a[1] == 0 and end_is_param and not written
                    desc = {"start": a[1] if a[0] == "const" else str(a)[:40], "end": ("param _%d" % b_[1][0]) if end_is_param else str(b_)[:60]}
                # the map's receiver is that range
                recv_is_range = any(t["args"] and "std::ops::Range<usize>" in (t.get("arg_tys") or [""])[0] for t in maps)
                once = len([1 for _, t in cfn.calls() if callee_name(t) == sp]) == 1 and not L.loops_of(cfn)
                if ok_rng:
                    ctors.append((pfn, b_[1][0]))
                ok = bool(maps) and collected and ok_rng and recv_is_range and once
                r2.instance({"constructor": pfn.def_, "idiom": "range.map(closure).collect()", "range": desc, "one_worker_per_element": once}, ok)
                if not ok:
                    r2.violate("C07|R2|%s|range" % pfn.def_, "%s does not create exactly one worker per element of 0..size (map/collect idiom: maps=%d collected=%s range=%s)" % (pfn.def_, len(maps), collected, desc), pfn.file, e.line, pfn.def_)
                continue
            if not inloop:
                r2.instance({"constructor": e.src, "in_loop": False}, ok=False)
                r2.violate("C07|R2|%s|not-in-loop" % e.src, "%s creates a worker outside any loop: the pool would not have `size` workers" % e.src, cfn.file, e.line, e.src)
                continue
            lp = inloop[0]
            L.classify(cfn, lp)
            once = L._on_every_cycle(cfg, lp, e.block)
            # the iterator is a Range built from (const 0, parameter)
            rng = None
            for b in cfn.blocks:
                for s in b["stmts"]:
                    if s["k"] == "assign" and s["rv"]["k"] == "aggregate" and s["rv"].get("adt") == "std::ops::Range":
                        rng = s["rv"]
            ok_rng = False
            desc = None
            if rng is not None:
                a, b_ = du.val_operand(rng["ops"][0]), du.val_operand(rng["ops"][1])
                end_is_param = b_[0] == "place" and not b_[1][1] and 1 <= b_[1][0] <= cfn.nargs
                # the parameter must not be written before the loop
                written = any(pk[0] == (b_[1][0] if b_[0] == "place" else -1) for _, _, pk, _ in du.writes)
                ok_rng = a[0] == "const" and a[1] == 0 and end_is_param and not written
                desc = {"start": a[1] if a[0] == "const" else str(a)[:40], "end": ("param _%d" % b_[1][0]) if end_is_param else str(b_)[:60]}
            if ok_rng:
                ctors.append((cfn, b_[1][0]))
            ok = bool(lp.form == "iter" and once and ok_rng)
            r2.instance({"constructor": e.src, "loop_form": lp.form, "worker_created_every_iteration": once, "range": desc}, ok)
            if not ok:
                r2.violate("C07|R2|%s|range" % e.src, "%s does not create exactly one worker per element of 0..size (loop form %s, once per iteration %s, range %s)" % (e.src, lp.form, once, desc), cfn.file, e.line, e.src)

    # R8: a pool without workers is refused: exactly the sizes >= 1 pass the constructor's guard
    r8 = chk.rule("R8-no-empty-pool", "the pool constructor panics (assert) exactly for size 0: a pool of 0 workers accepts tasks and never runs them, a guard that refuses more than 0 removes a valid N", floor=1)
    for cf, pl in {(c.def_, p_): (c, p_) for c, p_ in ctors}.values():
        ccfg, cdu = cfg_of(cf), du_of(cf)
        verdict = None
        for sb in ccfg.live_blocks():
            st = ccfg.blocks[sb]["term"]
            if st["k"] != "switch" or st.get("discr_ty") != "bool":
                continue
            v = cdu.val_operand(st["discr"])
            neg = False
            while v[0] == "unop" and v[1] == "Not":
                v, neg = v[2], not neg
            if v[0] != "binop" or v[1] not in ("Gt", "Ge", "Lt", "Le", "Eq", "Ne"):
                continue
            a_, b2 = v[2], v[3]
            op = v[1]
            if a_[0] == "const" and b2[0] == "place":
                a_, b2, op = b2, a_, {"Gt": "Lt", "Lt": "Gt", "Ge": "Le", "Le": "Ge", "Eq": "Eq", "Ne": "Ne"}[op]
            if not (a_[0] == "place" and a_[1] == (pl, ()) and b2[0] == "const" and isinstance(b2[1], int)):
                continue
            f_t = [tb for val, tb in st["targets"] if val == 0]
            if not f_t:
                continue
            t_edge, f_edge = st["otherwise"], f_t[0]
            def panics(b0):
                b_ = b0
                for _ in range(6):
                    tt = ccfg.blocks[b_]["term"]
                    if tt["k"] == "call" and re.search(r"core::panicking::|std::rt::begin_panic|assert_failed", callee_name(tt) or ""):
                        return True
                    ss = ccfg.succ.get(b_, [])
                    if len(ss) != 1:
                        return False
                    b_ = ss[0]
                return False
            pt, pf_ = panics(t_edge), panics(f_edge)
            if pt == pf_:
                continue
            k = b2[1]
            def cond(n_):
                r_ = {"Gt": n_ > k, "Ge": n_ >= k, "Lt": n_ < k, "Le": n_ <= k, "Eq": n_ == k, "Ne": n_ != k}[op]
                return (not r_) if neg else r_
            accepted = [n_ for n_ in range(0, 5) if (not pt if cond(n_) else not pf_)]
            verdict = accepted
        ok = verdict == [1, 2, 3, 4]
        r8.instance({"constructor": cf.def_, "sizes_0_to_4_accepted": verdict if verdict is not None else "no guard on the size"}, ok)
        if not ok:
            r8.violate("C07|R8|%s" % cf.def_, "%s accepts the sizes %s of 0..4 (expected 1..4): %s" % (cf.def_, verdict, "a pool without workers takes tasks and never runs them" if (verdict is None or 0 in verdict) else "a valid worker count is refused at start-up"), cf.file, cf.span["line"], cf.def_)

    # R5: submit sends the boxed closure on every path
    r5 = chk.rule("R5-submit-sends", "the submit function passes its (boxed) argument to Sender::send on every path to its return", floor=1)
    for sf in R.submit_fns:
        fn = F.fns[sf]
        cfg = cfg_of(fn)
        du = du_of(fn)
        sends = []
        for bid, t in fn.calls():
            if (callee_name(t) or "").startswith("std::sync::mpsc::Sender::<T>::send") or (callee_name(t) or "").startswith("std::sync::mpsc::SyncSender::<T>::send"):
                # the payload derives from a parameter
                v = du.val_operand(t["args"][1])
                sends.append((bid, _from_param(du, fn, v)))
        good = [b for b, okp in sends if okp]
        res = cfg.minmax_count(good)
        for rb, (mn, mx) in res.items():
            ok = mn == 1 and mx == 1
            r5.instance({"submit": sf, "return_block": rb, "sends_on_path": [mn, mx]}, ok)
            if not ok:
                r5.violate("C07|R5|%s" % sf, "%s: a path to its return sends the task %s time(s) (min %s, max %s); a submitted task must be queued exactly once" % (sf, "0" if mn == 0 else ">1", mn, mx), fn.file, fn.span["line"], sf)
        if not res:
            r5.violate("C07|R5|%s|no-return" % sf, "%s has no return path" % sf)

    # R6: a single lock site, never nested
    r6 = chk.rule("R6-single-lock-site", "exactly one lock acquisition site exists in the four crates and no guard is live at it (no nesting, hence no lock-order cycle)", floor=1)
    sites = []
    for fn in F.fns.values():
        for bid, t in fn.calls():
            if callee_name(t) in LOCK_CALLS:
                sites.append((fn, bid, t))
    for fn, bid, t in sites:
        lv = live_guards_at(fn, [bid])[bid]
        ok = len(sites) == 1 and not lv
        r6.instance({"lock_site": fn.def_, "line": t["span"]["line"], "guards_live_at_acquisition": len(lv), "lock_sites_total": len(sites)}, ok)
        if not ok:
            r6.violate("C07|R6|%s|%s" % (fn.def_, "nested" if lv else "second-lock-site"),
                       "lock acquisition in %s (line %d): %s" % (fn.def_, t["span"]["line"], "another guard is live (nested locking)" if lv else "%d lock sites exist; lock order must be re-established" % len(sites)),
                       fn.file, t["span"]["line"], fn.def_)

    # R7: payload type
    r7 = chk.rule("R7-payload-is-boxed-FnOnce", "the channel carries Box<dyn FnOnce() + Send>: calling consumes the box, so a task cannot run twice", floor=1)
    for sf in R.submit_fns:
        fn = F.fns[sf]
        for bid, t in fn.calls():
            if "mpsc::Sender::<T>::send" in (callee_name(t) or ""):
                ty = (t.get("arg_tys") or ["", ""])[1]
                ok = bool(re.fullmatch(r"std::boxed::Box<dyn std::ops::FnOnce\(\) \+ std::marker::Send( \+ 'static)?>", ty))
                r7.instance({"payload_type": ty}, ok)
                if not ok:
                    r7.violate("C07|R7|%s" % sf, "channel payload is %s, not Box<dyn FnOnce() + Send>: at-most-once execution is no longer enforced by the type" % ty, fn.file, t["span"]["line"], sf)
    chk.assumptions += ["std::sync::mpsc and Mutex behave as documented; thread scheduling is fair",
                        "these are necessary conditions: each named mutant of the property text (lock held while running, fewer workers, exiting the loop, dropping a task) violates one of them"]
    chk.undecided = ["exactly-once under every interleaving, liveness under contention: not explored (no schedule enumeration in this technique family)"]
    return chk.finish()


def _from_param(du, fn, v, depth=0):
    if depth > 10:
        return False
    if v[0] == "place":
        l = v[1][0]
        if 1 <= l <= fn.nargs:
            return True
        vv = du.val_place(v[1])
        if vv != v:
            return _from_param(du, fn, vv, depth + 1)
        return False
    if v[0] == "cast":
        return _from_param(du, fn, v[2], depth + 1)
    if v[0] == "call":
        return any(_from_param(du, fn, a, depth + 1) for a in v[2])
    if v[0] == "ref":
        l = v[1][0]
        return 1 <= l <= fn.nargs
    return False
