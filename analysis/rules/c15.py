"""C15 — responses written by the library can be read back by it (structural clauses; round-trip equality not decided)."""
import re
from ..callgraph import callee_name
from ..cfg import cfg_of
from ..dataflow import du_of, place_key, val_ref_target
from ..framework import Check
from ..taint import local_deps
from .parse_common import tests_dominating, ok_return_blocks, deep_mentions
from .c05 import const_str, header_aggregates, _method_eq

SERIALISERS = ("response::Response::generate_response", "response::Response::generate")


def _status_line_chain_form(ctx, r1, sl):
    """the parser ends in `find_status(code).filter(|s| same_phrase(..)).map(|_| (..)).ok_or_else(err)`: Ok exactly when the lookup found
    an entry and the filter accepted it; the version test and the numeric code are established on the way to that expression.
    Returns True when the function is of this form (the four requirements are then judged here)."""
    from ..guards import guards_of
    F = ctx.F
    du, cfg, g = du_of(sl), cfg_of(sl), guards_of(sl)
    rv = du.val_place((0, ()))
    if rv[0] != "call":
        # several definitions of the return place: the early `?` / `return Err(..)` exits aside there must be exactly one
        others = [d for d in du.defs.get(0, []) if not (d[0] == "call" and (callee_name(d[3]) or "").endswith("::from_residual"))
                  and not (d[0] == "assign" and d[3]["k"] == "aggregate" and d[3].get("variant") == "Err")]
        if len(others) == 1 and others[0][0] == "call":
            rv = du.val_call(others[0][3], 0, others[0][1])
    if not (rv[0] == "call" and (rv[1] or "").endswith(("::ok_or_else", "::ok_or")) and rv[2]):
        return False
    final_block = rv[3]
    names, closures = [], {}
    v = rv[2][0]
    for _ in range(12):
        if v[0] in ("ref", "place"):
            w = du.val_place((v[1][0], ()))
            if w == v or w[0] == "place":
                break
            v = w
            continue
        if v[0] != "call" or not v[2]:
            break
        nm = (v[1] or "").rsplit("::", 1)[-1]
        names.append(nm)
        blk = next((b for b in sl.blocks if b["id"] == v[3]), None)
        if blk is not None:
            closures[nm] = [x for x in blk["term"].get("fn_items", []) if x in F.fns]
        if nm in ("map", "filter", "copied", "cloned", "and_then", "inspect"):
            v = v[2][0]
            continue
        break
    found = "find" in names or any(n.startswith("find") for n in names)
    # the lookup may be a private helper already inlined: a `find` call anywhere on the way counts when the chain starts from its result
    if not found:
        found = any((callee_name(t) or "").endswith("::find") for _, t in sl.calls())
    reason = False
    for cn in closures.get("filter", []):
        cf = ctx.inl(F.fns[cn])
        eqs = [callee_name(t) or "" for _, t in cf.calls() if "PartialEq" in (callee_name(t) or "")]
        reason = bool(eqs) and all(e.endswith("::eq") for e in eqs)
    tests = tests_dominating(sl, final_block)
    version = any(c.endswith(("::contains", "::any")) and tr is True and deep_mentions(du, v_, "version_list") for c, tr, v_, _ in tests)
    numeric = False
    for e, f in g.facts():
        if f[0] == "variant" and f[3] is True and cfg.edge_dominates(e, final_block):
            pv = du.val_place(du.canon(f[1]))
            if deep_mentions(du, pv, "::parse"):
                numeric = True
    for label, ok in (("version-known", version), ("status-found", found and "filter" in names or found), ("reason-equal", reason), ("code-numeric", numeric)):
        r1.instance({"fn": sl.def_, "requirement": label, "dominates_ok": ok, "form": "lookup.filter(..).map(..).ok_or_else(..)"}, ok)
        if not ok:
            r1.violate("C15|R1|%s" % label, "%s can return Ok without the '%s' test: a response with an unknown status / mismatched reason phrase would be accepted" % (sl.def_, label), sl.file, sl.span["line"], sl.def_)
    return True


def run(ctx):
    F, G, R = ctx.F, ctx.G, ctx.R
    chk = Check("C15", ctx.tier, "Status-line validation dominates Ok; both serialisers push framing headers onto the vector they serialise and agree on when the body is emitted; boundary constant shared; status list exhaustive; no lossy decoding in the readers.")
    chk.technique = "edge dominance, same-origin check of push receiver vs iterated vector, sibling agreement, exhaustiveness against the ADT, who-may-call"
    chk.analysed = ctx.analysed_summary()

    # ---- R1
    r1 = chk.rule("R1-status-line-validated", "the Ok return of the status-line parser is dominated by: version known, status code found in the registered list, reason phrase equal", floor=3)
    sl = F.fns.get("response::Response::_parse_http_version_status_code_reason_phrase_string")
    if sl is None:
        r1.violate("C15|R1|anchor-missing", "status-line parser not found")
    else:
        sl = ctx.inl(sl)         # `find_status(code)`, `is_supported_http_version(v)`: private helpers are part of the parser (A11)
        du = du_of(sl)
        chain_done = False
        if not ok_return_blocks(sl):
            chain_done = _status_line_chain_form(ctx, r1, sl)
        for ob in ([] if chain_done else (ok_return_blocks(sl) or [None])):
            if ob is None:
                r1.violate("C15|R1|no-ok", "%s never returns Ok" % sl.def_)
                break
            tests = tests_dominating(sl, ob)
            need = {
                "version-known": lambda c, tr, v: c.endswith(("::contains", "::any")) and tr is True and deep_mentions(du, v, "version_list"),
                "status-found": lambda c, tr, v: ((c.endswith("::is_none") and tr is False) or (c.endswith("::is_some") and tr is True)) and deep_mentions(du, v, "::find"),
                "reason-equal": lambda c, tr, v: (("PartialEq" in c and not c.endswith("::ne")) or c.endswith("::eq")) and tr is True or (c.endswith("::ne") and tr is False),
                "code-numeric": lambda c, tr, v: ((c.endswith("::is_err") and tr is False) or (c.endswith("::is_ok") and tr is True)) and deep_mentions(du, v, "::parse"),
            }
            # the reason test is stored in a bool local: accept a dominating switch on a plain bool local whose defs compare phrases
            for label, pred in need.items():
                ok = any(pred(c, tr, v) for c, tr, v, _ in tests)
                if label == "reason-equal" and not ok:
                    ok = _reason_test_dominates(sl, ob)
                r1.instance({"fn": sl.def_, "requirement": label, "dominates_ok": ok}, ok)
                if not ok:
                    r1.violate("C15|R1|%s" % label, "%s can return Ok without the '%s' test: a response with an unknown status / mismatched reason phrase would be accepted" % (sl.def_, label), sl.file, sl.span["line"], sl.def_)

    # ---- R2 framing headers are pushed onto the vector that is serialised
    r2 = chk.rule("R2-push-target-is-serialised-vector", "in each serialiser every framing header (Content-Type, Content-Range, Content-Length) is pushed onto the same Response value whose headers the serialisation loop iterates", floor=2)
    r2b = chk.rule("R2b-siblings-agree-on-body", "the associated-function serialiser suppresses the body only by request-method tests (HEAD / OPTIONS); no other condition (status, size ...) that the instance serialiser does not have", floor=1)
    for sname in SERIALISERS:
        fn = F.fns.get(sname)
        if fn is None:
            r2.violate("C15|R2|anchor-missing|%s" % sname, "serialiser %s not found" % sname)
            continue
        fn = ctx.inl(fn)        # the header loop may be a private helper taking `&response.headers`
        du = du_of(fn)
        cfg = cfg_of(fn)
        # the vector whose elements become header lines: `X.headers` of some Response value, or a plain local list
        iter_vec = None
        from .parse_common import fully_iterated
        for bid, v in fully_iterated(fn, du, "header::Header"):
                # `for h in x.headers`, `x.headers.iter().map(line).collect()`, `x.headers.clone()` taken right here: the elements of x.headers
                tg = val_ref_target(du, v) if v[0] in ("ref", "place", "call") else None
                if tg is not None:
                    iter_vec = _norm_vec(du, tg)
        if iter_vec is None:
            r2.violate("C15|R2|%s|no-loop" % sname, "%s does not iterate a headers vector" % sname, fn.file, fn.span["line"], sname)
            continue
        ld = local_deps(fn)

        def flows_into(vec, depth=0):
            """vec is the iterated vector, or is appended to / extends a vector that is (a clone is a snapshot, not a flow)"""
            if vec == iter_vec:
                return True
            if depth > 2 or vec[1]:
                return False
            for b2, t2 in fn.calls():
                c2 = callee_name(t2) or ""
                if not (c2.endswith("::append") or c2.endswith("::extend") or (t2.get("callee") or "") == "std::iter::Extend::extend") or len(t2["args"]) != 2:
                    continue
                src = t2["args"][1]
                if src.get("k") not in ("copy", "move"):
                    continue
                sv = val_ref_target(du, du.val_operand(src))
                src_l = du.canon(sv)[0] if sv is not None else (src["l"] if not src["p"] else None)
                if src_l is None or vec[0] not in (ld.closure(src_l) | {src_l}):
                    continue
                dst = val_ref_target(du, du.val_operand(t2["args"][0]))
                if dst is not None and flows_into(_norm_vec(du, dst), depth + 1):
                    return True
            return False
        k = 0
        for bid, t in fn.calls():
            if callee_name(t) != "std::vec::Vec::<T, A>::push" or "header::Header" not in (t.get("arg_tys") or ["", ""])[1]:
                continue
            hv = du.val_operand(t["args"][1])
            hname = None
            if hv[0] == "aggregate" and hv[2] == "header::Header":
                d = dict(zip(hv[4], hv[3]))
                hname = const_str(d["name"])
            if hname not in ("Content-Type", "Content-Range", "Content-Length"):
                continue
            tgt = val_ref_target(du, du.val_operand(t["args"][0]))
            ok = tgt is not None and flows_into(_norm_vec(du, tgt))
            k += 1
            r2.instance({"serialiser": sname, "header": hname, "line": t["span"]["line"], "pushed_onto_serialised_value": ok}, ok)
            if not ok:
                r2.violate("C15|R2|%s|%s" % (sname, hname), "%s pushes %s onto a different Response than the one whose headers it serialises (the header never reaches the bytes; read back, the value is lost)" % (sname, hname),
                           t["span"]["file"], t["span"]["line"], sname)
        if k == 0 and any(const_str(nv) in ("Content-Type", "Content-Range", "Content-Length") for _, _, nv, _ in header_aggregates(fn)):
            # the framing headers are not pushed one by one (a `vec![..]` handed to `extend`, a helper returning the list): which
            # vector they end up in is not followed element by element
            r2.note("%s builds its framing headers as a list and appends the list: the element-wise rule has nothing to judge here (not decided)" % sname)
            r2.floor = 0
        if sname == "response::Response::generate_response":
            body_locals = [t["dest"]["l"] for _, t in fn.calls() if callee_name(t) == "response::Response::generate_body"]
            for bid in cfg.live_blocks():
                b = cfg.blocks[bid]
                used = False
                for s in b["stmts"]:
                    if s["k"] == "assign" and any(o.get("k") in ("copy", "move") and o["l"] in body_locals for o in s["rv"].get("ops", [])):
                        used = True
                tt = b["term"]
                if tt["k"] == "call" and re.search(r"::(extend_from_slice|append|extend|write_all|write|push_str)$", callee_name(tt) or ""):
                    for a in tt["args"][1:]:
                        tg = val_ref_target(du, du.val_operand(a)) if a.get("k") in ("copy", "move") else None
                        if tg is not None and du.canon(tg)[0] in body_locals:
                            used = True
                if not used:
                    continue
                tests = tests_dominating(fn, bid)
                other = [(c, tr) for c, tr, v, _ in tests if _method_eq(v) is None and not _is_len_test(v)]
                ok = not other
                r2b.instance({"serialiser": sname, "body_emitted_under": [(_method_eq(v) or c.split("::")[-1], tr) for c, tr, v, _ in tests]}, ok)
                if not ok:
                    r2b.violate("C15|R2b|%s" % sname, "%s emits the body only under an extra condition %s that Response::generate does not have: the two serialisers disagree, and a body written for such a response cannot be read back" % (sname, other),
                                fn.file, b["term"]["span"]["line"], sname)

    # ---- R3 boundary constant
    r2c = chk.rule("R2c-every-range-count-is-labelled", "the branches under which a serialiser builds Content-Type cover every number of content ranges >= 1: a multipart body never goes out without the multipart Content-Type the reader needs", floor=2)
    from .c05 import content_type_branch_gaps
    for n_ser in sorted(n for n, f in F.fns.items() if f.crate == "rws" and f.kind != "Promoted" and f.ret == "std::vec::Vec<u8>" and any(callee_name(t) == "response::Response::generate_body" for _, t in f.calls())):
        g_ = content_type_branch_gaps(ctx, n_ser)
        if g_ is None:
            continue
        conds_, gaps_ = g_
        r2c.instance({"serialiser": n_ser, "content_type_built_under": conds_, "range_counts_without_it": gaps_}, not gaps_)
        if gaps_:
            r2c.violate("C15|R2c|%s|gap" % n_ser, "%s builds no Content-Type for a response with %s content range(s) (branches %s): what it writes cannot be read back" % (n_ser, gaps_[:3], conds_), F.fns[n_ser].file, F.fns[n_ser].span["line"], n_ser)

    r3 = chk.rule("R3-boundary-constant-shared", "the multipart delimiter lines and the boundary parameter of Content-Type are built from the same constant", floor=2)
    gb = F.fns.get("response::Response::generate_body")
    items = {}
    from ..inline import IN_INFO
    for name in ("response::Response::generate_body",) + SERIALISERS:
        fn = F.fns.get(name)
        if fn is None:
            continue
        found = set()
        ifn = ctx.inl(fn)        # the framing headers may be built by a private helper
        inlined_names = set(IN_INFO.get(id(ifn), {}).get("callees", [])) | {name}
        bodies = [ifn] + [pf for pn, pf in F.fns.items() if any(pn.startswith(x + "::{promoted#") for x in inlined_names)]
        for body in bodies:
          du = du_of(body)
          for b in body.blocks:
            t = b["term"]
            if t["k"] == "call":
                for a in t["args"]:
                    v = du.val_operand(a)
                    if v[0] == "const" and v[2] and "STRING_SEPARATOR" in v[2]:
                        found.add((v[2], v[1]))
            for s in b["stmts"]:
                if s["k"] == "assign":
                    for o in s["rv"].get("ops", []):
                        v = du.val_operand(o)
                        if v[0] == "const" and v[2] and "STRING_SEPARATOR" in v[2]:
                            found.add((v[2], v[1]))
        items[name] = found
    allv = set().union(*items.values()) if items else set()
    for name, found in items.items():
        ok = len(found) == 1 and len(allv) == 1
        r3.instance({"fn": name, "boundary_constant": sorted(found)}, ok)
        if not ok:
            r3.violate("C15|R3|%s" % name, "%s builds multipart delimiters / the boundary parameter from %s; writers must share one constant (%s)" % (name, sorted(found), sorted(allv)), F.fns[name].file, F.fns[name].span["line"], name)

    # ---- R3b the writer's `boundary=` parameter is what the reader splits on
    r3b = chk.rule("R3b-boundary-parameter-agrees", "the multipart Content-Type the serialisers write (a join of constants) contains the literal the reader's boundary extraction splits on, followed by the delimiter constant", floor=2)
    reader_lits = set()
    for rn, rf in F.fns.items():
        if rf.crate == "rws" and rn.endswith("::extract_boundary"):
            rdu = du_of(rf)
            for _, t in rf.calls():
                if (callee_name(t) or "").endswith(("::split_once", "::split", "::find", "::strip_prefix")) and len(t["args"]) >= 2:
                    v = rdu.val_operand(t["args"][1])
                    if v[0] == "const" and isinstance(v[1], str) and v[1]:
                        reader_lits.add(v[1])

    def const_text(du, v, depth=0):
        """the text of a join / concat of constants, None when something is not constant"""
        if depth > 8:
            return None
        if v[0] == "const":
            return v[1] if isinstance(v[1], str) else None
        if v[0] == "cast":
            return const_text(du, v[2], depth + 1)
        if v[0] == "aggregate" and v[1] == "array":
            parts = [const_text(du, e, depth + 1) for e in v[3]]
            return None if any(x is None for x in parts) else parts
        if v[0] in ("ref", "place"):
            vv = du.val_place((v[1][0], tuple(e for e in v[1][1] if e != "*")))
            return const_text(du, vv, depth + 1) if vv != v and vv[0] != "place" else None
        if v[0] == "call" and v[1] and v[2] and re.search(r"slice::<impl \[\w+\]>::(join|concat)$", v[1]):
            parts = const_text(du, v[2][0], depth + 1)
            sep = const_text(du, v[2][1], depth + 1) if v[1].endswith("::join") and len(v[2]) > 1 else ""
            if isinstance(parts, list) and isinstance(sep, str):
                return sep.join(parts)
            return None
        if v[0] == "call" and v[1] and v[2] and v[1].endswith(("::to_string", "::to_owned", "::into", "::from")):
            return const_text(du, v[2][0], depth + 1)
        from ..fmtargs import format_parts, FORMAT_FNS
        if v[0] == "call" and v[1] == "std::hint::must_use" and v[2]:
            return const_text(du, v[2][0], depth + 1)
        if v[0] == "call" and v[1] in FORMAT_FNS:
            fp = format_parts(du, v)
            if fp is None:
                return None
            parts, args = fp
            out_, ai = [], 0
            for prt in parts:
                if prt[0] == "lit":
                    out_.append(prt[1])
                else:
                    tx_ = const_text(du, args[ai][1], depth + 1) if ai < len(args) else None
                    ai += 1
                    if not isinstance(tx_, str):
                        return None
                    out_.append(tx_)
            return "".join(out_)
        return None
    if not reader_lits:
        r3b.violate("C15|R3b|anchor-missing", "the reader's boundary extraction (a split on a constant) was not found")
    for sname in SERIALISERS:
        fn0 = F.fns.get(sname)
        if fn0 is None:
            continue
        fi = ctx.inl(fn0)
        sdu = du_of(fi)
        texts = []
        for _, _, nv, vv in header_aggregates(fi):
            if const_str(nv) == "Content-Type":
                tx = const_text(sdu, vv)
                if isinstance(tx, str) and "/" in tx:
                    texts.append(tx)
        if not texts:
            # the array of constants handed to join("") is usually promoted to a constant of its own: read the promoted bodies
            owners_ = {sname} | set(IN_INFO.get(id(fi), {}).get("callees", []))
            for pn, pf in F.fns.items():
                if pf.kind == "Promoted" and any(pn.startswith(o_ + "::{promoted#") for o_ in owners_):
                    pdu = du_of(pf)
                    for b_ in pf.blocks:
                        for st_ in b_["stmts"]:
                            if st_["k"] == "assign" and st_["rv"]["k"] == "aggregate" and st_["rv"].get("agg") == "array":
                                parts = [pdu.val_operand(o_) for o_ in st_["rv"]["ops"]]
                                if parts and all(x[0] == "const" and isinstance(x[1], str) for x in parts):
                                    tx = "".join(x[1] for x in parts)
                                    if tx.startswith("multipart/"):
                                        texts.append(tx)
        for tx in texts:
            ok = any(l_ in tx and tx.index(l_) + len(l_) < len(tx) for l_ in reader_lits)
            r3b.instance({"serialiser": sname, "multipart_content_type": tx, "reader_splits_on": sorted(reader_lits)}, ok)
            if not ok:
                r3b.violate("C15|R3b|%s" % sname, "%s writes the multipart Content-Type %r, which does not contain what the reader splits on (%s): the boundary of a response the library wrote cannot be found when it is read back" % (sname, tx, sorted(reader_lits)), fn0.file, fn0.span["line"], sname)

    # ---- R4b a table that is searched by bisection is sorted by the key it is searched for
    r4b = chk.rule("R4b-bisected-table-is-sorted", "where the status lookup uses binary_search* over a constant table of the status entries, the table is strictly ascending in status_code (an entry out of order is never found: its status line no longer reads back)", floor=0)
    from .c14 import items_mentioned as _items
    for bn, bf in sorted(F.fns.items()):
        if bf.crate != "rws" or bf.kind == "Promoted" or not any(re.search(r"::binary_search(_by|_by_key)?$", callee_name(t_) or "") for _, t_ in bf.calls()):
            continue
        for item_ in sorted(_items(F, ctx.inl(bf))):
            rows_ = ((F.consts.get(item_) or {}).get("v") or {}).get("fields") if isinstance((F.consts.get(item_) or {}).get("v"), dict) else None
            if not (isinstance(rows_, dict) and len(rows_) >= 2 and all(isinstance(r_, dict) and isinstance((r_.get("fields") or {}).get("status_code"), int) for r_ in rows_.values())):
                continue
            codes = [rows_[k_]["fields"]["status_code"] for k_ in sorted(rows_, key=lambda x: int(x) if str(x).isdigit() else 0)]
            bad = [(codes[i_], codes[i_ + 1]) for i_ in range(len(codes) - 1) if codes[i_] >= codes[i_ + 1]]
            r4b.instance({"fn": bn, "table": item_, "entries": len(codes), "out_of_order": bad}, not bad)
            if bad:
                r4b.violate("C15|R4b|%s|%s" % (item_, bad[0][1]), "%s is searched by bisection in %s but is not ascending: %d is listed before %d, so a response with status %d (or %d) is reported as unknown by the reader although the writer emits it" % (item_, bn, bad[0][0], bad[0][1], bad[0][1], bad[0][0]), bf.file, bf.span["line"], bn)

    # ---- R2d a part body ends at a boundary line, or the reader reports an error
    r2d = chk.rule("R2d-part-body-ends-at-a-boundary", "in the multipart/byteranges reader the loop that collects a part body is left either where the boundary test has succeeded or towards an Err return: running out of input is never a way to a stored part (a truncated body is not read back as a complete one)", floor=1)
    from .. import loops as L_
    from ..rules.parse_common import strip_not as _strip_not
    for rn in ("range::Range::parse_multipart_body_with_boundary",):
        rf0 = F.fns.get(rn)
        if rf0 is None:
            r2d.violate("C15|R2d|anchor-missing|%s" % rn, "%s not found" % rn)
            continue
        rf = ctx.inl(rf0)
        rcfg, rdu, rld = cfg_of(rf), du_of(rf), local_deps(rf)
        bparam = next((i for i in range(1, rf.nargs + 1) if "boundary" in (rf.local_name(i) or "")), None)
        if bparam is None:
            r2d.note("%s has no parameter named boundary: not decided" % rn)
            r2d.floor = 0
            continue

        def is_btest(v):
            # contains(boundary) on text / bytes: a call named contains / contains_* / find / any one of whose arguments derives from the boundary
            if v[0] != "call" or not re.search(r"(::contains\w*|::find|::any|::is_some)$", v[1] or ""):
                return False
            blk = next((b_ for b_ in rf.blocks if b_["id"] == v[3]), None)
            if blk is None:
                return False
            return any(a.get("k") in ("copy", "move") and bparam in rld.closure(a["l"]) for a in blk["term"]["args"])
        found_edges = []
        test_blocks = []
        for sb in rcfg.live_blocks():
            st = rcfg.blocks[sb]["term"]
            if st["k"] != "switch" or st.get("discr_ty") != "bool":
                continue
            v, neg = _strip_not(rdu, rdu.val_operand(st["discr"]))
            t_e = f_e = None
            for val, tb in st["targets"]:
                if val == 0:
                    t_e, f_e = (sb, st["otherwise"]), (sb, tb)
            if t_e is None:
                continue
            if is_btest(v):
                found_edges.append(f_e if neg else t_e)
                test_blocks.append(v[3])
            elif v[0] == "place" and not v[1][1]:
                # a flag: `is_not_boundary = !text.contains(boundary)` tested by the loop condition
                ds = rdu.defs.get(v[1][0], [])
                comp = []
                const_vals = []
                for d in ds:
                    if d[0] == "assign" and d[3]["k"] == "use" and d[3]["ops"][0].get("k") == "const" and isinstance(d[3]["ops"][0].get("v"), bool):
                        const_vals.append(d[3]["ops"][0]["v"])
                    else:
                        vv_ = rdu.val_call(d[3], 0, d[1]) if d[0] == "call" else rdu.val_rvalue(d[3], 0, d[1])
                        comp.append(_strip_not(rdu, vv_))
                if comp and all(is_btest(cv) for cv, _ in comp) and len({cn for _, cn in comp}) == 1:
                    cneg = comp[0][1]
                    # flag == (contains XOR cneg): contains is true on the edge where flag == (not cneg); the constants must all be the other value
                    flag_when_found = not cneg
                    if all(c_ != flag_when_found for c_ in const_vals):
                        edge_flag_true, edge_flag_false = (f_e, t_e) if neg else (t_e, f_e)
                        found_edges.append(edge_flag_true if flag_when_found else edge_flag_false)
                        test_blocks += [cv[3] for cv, _ in comp]
        if not found_edges:
            r2d.note("%s: no test of a line against the boundary was recognised: not decided" % rn)
            r2d.floor = 0
            continue
        stores = [b_["id"] for b_ in rf.blocks if not b_["cleanup"] and (
            any(s_["k"] == "assign" and s_["rv"]["k"] == "aggregate" and (s_["rv"].get("adt") or "").endswith("ContentRange") for s_ in b_["stmts"])
            or (b_["term"]["k"] == "call" and (callee_name(b_["term"]) or "").endswith("::push") and "ContentRange" in " ".join(b_["term"].get("arg_tys") or [])))]
        body_loops = [lp for lp in L_.loops_of(rf) if any(tb_ in lp.body for tb_ in test_blocks)]
        # the innermost such loop collects the body
        body_loops.sort(key=lambda lp: len(lp.body))
        if not body_loops:
            r2d.note("%s: the boundary test is not inside a loop: not decided" % rn)
            r2d.floor = 0
            continue
        lp = body_loops[0]
        k_ = 0
        for u in sorted(lp.body):
            for v_ in rcfg.succ.get(u, []):
                if v_ in lp.body or rcfg.blocks[v_].get("cleanup"):
                    continue
                k_ += 1
                e_ = (u, v_)
                ok = e_ in found_edges or any(rcfg.edge_dominates(fe, u) or fe == e_ for fe in found_edges if fe[0] in lp.body)
                how = "boundary found"
                if not ok:
                    reach = L_.feasible_reach(rcfg, e_, stop=(lp.header,))
                    if reach is None:
                        reach = rcfg.reachable_from(v_)
                    # towards an error: no part is stored on any way on from here (within this turn of the part loop)
                    ok = not (set(reach) & (set(stores) - set(lp.body)))
                    how = "leads to an error return" if ok else "input ran out"
                r2d.instance({"reader": rn, "loop": lp.key(), "exit": [u, v_], "how": how}, ok)
                if not ok:
                    r2d.violate("C15|R2d|%s|exit-%d" % (rn, k_), "%s: the part-body loop can be left at line %d without the boundary test having succeeded, and a part is stored afterwards: a body cut off before its boundary is read back as a complete part" % (rn, rcfg.blocks[u]["term"]["span"]["line"]), rf.file, rcfg.blocks[u]["term"]["span"]["line"], rn)

    # ---- R4 status list exhaustive
    r4 = chk.rule("R4-status-list-exhaustive", "the registered-status list used by the parser contains every field of the status struct exactly once", floor=1)
    lf = F.fns.get("response::Response::status_code_reason_phrase_list")
    adt = F.adts.get("response::ResponseStatusCodeReasonPhrase")
    if lf is None or adt is None:
        r4.violate("C15|R4|anchor-missing", "status list function / struct not found")
    else:
        du = du_of(lf)
        got = []
        for b in lf.blocks:
            for s in b["stmts"]:
                if s["k"] == "assign" and s["rv"]["k"] == "aggregate" and s["rv"].get("agg") == "array":
                    for o in s["rv"]["ops"]:
                        v = du.val_operand(o)
                        m = re.search(r"STATUS_CODE_REASON_PHRASE\.(n\d+\w*)", (v[2] or "") if v[0] == "const" else "")
                        if m:
                            got.append(m.group(1))
        want = [f["name"] for f in adt["variants"][0]["fields"]]
        if not got:
            # the list produced from a constant table of references to the entries (`TABLE.to_vec()`): the entries are told apart by
            # their (code, phrase) pair
            from .c14 import items_mentioned
            entries_ = (F.consts.get("response::STATUS_CODE_REASON_PHRASE") or {}).get("v", {}).get("fields", {})
            by_pair = {}
            for k_, v_ in entries_.items():
                f_ = (v_ or {}).get("fields", {}) if isinstance(v_, dict) else {}
                by_pair.setdefault((f_.get("status_code"), f_.get("reason_phrase")), []).append(k_)
            for item_ in sorted(items_mentioned(F, ctx.inl(lf))):
                rows_ = ((F.consts.get(item_) or {}).get("v") or {}).get("fields") if isinstance((F.consts.get(item_) or {}).get("v"), dict) else None
                if isinstance(rows_, dict) and len(rows_) >= 10 and all(isinstance(r_, dict) and "status_code" in (r_.get("fields") or {}) for r_ in rows_.values()):
                    for k_ in sorted(rows_, key=lambda x: int(x) if str(x).isdigit() else 0):
                        f_ = rows_[k_]["fields"]
                        names_ = by_pair.get((f_.get("status_code"), f_.get("reason_phrase")), [])
                        got.append(names_[0] if len(names_) == 1 else "?")
        ok = sorted(got) == sorted(want)
        r4.instance({"list_entries": len(got), "struct_fields": len(want), "missing": sorted(set(want) - set(got)), "duplicated": sorted({x for x in got if got.count(x) > 1})}, ok)
        if not ok:
            r4.violate("C15|R4|list", "status list has %d entries for %d struct fields (missing %s, duplicated %s): responses with a missing status cannot be read back" % (len(got), len(want), sorted(set(want) - set(got)), sorted({x for x in got if got.count(x) > 1})),
                       lf.file, lf.span["line"], lf.def_)

    # ---- R5 no lossy decoding in readers
    r5 = chk.rule("R5-no-lossy-decoding-in-readers", "no String::from_utf8_lossy is reachable from Response::parse / Request::parse / FormMultipartData::parse: body bytes are carried as bytes", floor=1)
    roots = [n for n in ("response::Response::parse", "request::Request::parse", "body::multipart_form_data::FormMultipartData::parse", "response::Response::_parse_response") if n in F.fns]
    seen = G.reachable(roots)
    n = 0
    for fnn in sorted(seen):
        fn = F.fns.get(fnn)
        if fn is None:
            continue
        for bid, t in fn.calls():
            n += 1
            if (callee_name(t) or "").startswith("std::string::String::from_utf8_lossy"):
                r5.violate("C15|R5|%s" % fnn, "%s decodes bytes with from_utf8_lossy inside a reader: bytes that are not valid UTF-8 come back as U+FFFD, so binary bodies do not round-trip; reachable: %s" % (fnn, G.fmt_path(seen, fnn)),
                           t["span"]["file"], t["span"]["line"], fnn)
    r5.instances = r5.obligations = n
    r5.discharged = n - len(r5.violations)
    r5.samples.append({"call_sites_examined": n, "reader_roots": roots})
    # ---- R6 the readers report what their sub-readers report
    r6 = chk.rule("R6-reader-errors-are-reported", "in every function reachable from Response::parse that returns Result: the Err of a crate function it calls (established by is_err / match / ?) does not reach an Ok return on a feasible path - an unknown status, a mismatched reason phrase, a broken multipart structure found by a sub-reader is the caller's Err too (reviewed recoveries: tables/error_recovery.json)", floor=8)
    from .parse_common import swallowed_errors
    rec = {(e["fn"], e["callee"]): e for e in ctx.table("error_recovery")["recoveries"]}
    rseen = G.reachable([n for n in ("response::Response::parse", "response::Response::_parse_response") if n in F.fns])
    for fnn in sorted(rseen):
        fn0 = F.fns.get(fnn)
        if fn0 is None or fn0.crate != "rws" or fn0.kind in ("Promoted", "Closure") or not (fn0.ret or "").startswith("std::result::Result<"):
            continue
        sw = swallowed_errors(ctx, fn0)
        bad = {(c, bid) for c, line, bid in sw}
        kk = 0
        for bid, t in fn0.calls():
            c = callee_name(t) or ""
            g2 = F.fns.get(c)
            if g2 is None or g2.crate != "rws" or not (g2.ret or "").startswith("std::result::Result<"):
                continue
            ok = (c, bid) not in bad or (fnn, c) in rec
            r6.instance({"fn": fnn, "callee": c, "line": t["span"]["line"], "err_reaches_ok_return": (c, bid) in bad, "reviewed_recovery": (fnn, c) in rec} if (not ok or (c, bid) in bad) else None, ok)
            if not ok:
                kk += 1
                r6.violate("C15|R6|%s|%s|%d" % (fnn, c, kk), "%s: the Err of %s (line %d) can reach an Ok return: what the sub-reader rejects is accepted by the caller" % (fnn, c, t["span"]["line"]), t["span"]["file"], t["span"]["line"], fnn)
    chk.assumptions += ["a header pushed onto a value other than the serialised one is lost (the serialiser works on a clone taken before)"]
    chk.undecided = ["equality of parsed and original status, headers, ranges and bodies (round trip) for concrete values"]
    return chk.finish()


def _headers_base(du, v, depth=0):
    """canonical base place X such that v is X.headers (possibly cloned)"""
    if depth > 8:
        return None
    if v[0] in ("place", "ref"):
        l, proj = v[1]
        fields = [p for p in proj if isinstance(p, tuple) and p[0] == "f"]
        if fields and fields[-1][2] == "headers":
            i = max(i for i, p in enumerate(proj) if isinstance(p, tuple) and p[0] == "f" and p[2] == "headers")
            return (l, proj[:i])
        vv = du.val_place((l, ()))
        if vv != v and vv[0] != "place":
            return _headers_base(du, vv, depth + 1)
        return None
    if v[0] == "call" and v[2]:
        return _headers_base(du, v[2][0], depth + 1)
    if v[0] == "cast":
        return _headers_base(du, v[2], depth + 1)
    return None


def _strip_headers(tgt):
    if tgt is None:
        return None
    l, proj = tgt
    idx = [i for i, p in enumerate(proj) if isinstance(p, tuple) and p[0] == "f" and p[2] == "headers"]
    if not idx:
        return None
    return (l, proj[:idx[-1]])


def _norm_vec(du, p):
    """canonical vector place without derefs (`(*response).headers` and `response.headers` are the same vector)"""
    c = du.canon(p)
    base = du.canon((c[0], ()))
    return (base[0], tuple(x for x in base[1] if x != "*") + tuple(x for x in c[1] if x != "*"))


def _same_value(du, a, b):
    def norm(p):
        l, proj = p
        proj = tuple(x for x in proj if x != "*")
        c = du.canon((l, ()))
        return (c[0], tuple(x for x in c[1] if x != "*") + proj)
    return norm(a) == norm(b)


def _is_len_test(v):
    return v[0] == "binop"


def _reason_test_dominates(fn, block):
    """a switch on a bool local defined as (a reference to) the result of an `eq` of two upper-cased phrases dominates block on its true edge"""
    cfg = cfg_of(fn)
    du = du_of(fn)
    for sb in cfg.live_blocks():
        st = cfg.blocks[sb]["term"]
        if st["k"] != "switch":
            continue
        v = du.val_operand(st["discr"])
        neg = False
        while v[0] == "unop" and v[1] == "Not":
            v = v[2]; neg = not neg
        txt = repr(v)
        if ("::eq" in txt or "PartialEq" in txt) and "to_uppercase" in txt or ("eq_ignore_ascii_case" in txt):
            for val, tb in st["targets"]:
                if val == 0:
                    e_true = (sb, st["otherwise"]) if not neg else (sb, tb)
                    if cfg.edge_dominates(e_true, block):
                        return True
    return False
