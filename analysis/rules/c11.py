"""C11 — cross-origin grants follow the configuration exactly."""
import re
from ..callgraph import callee_name
from ..cfg import cfg_of
from ..dataflow import du_of, place_key, val_ref_target
from ..framework import Check
from ..guards import guards_of, optres_root
from ..taint import local_deps
from .. import panics
from .c05 import header_aggregates, const_str

ACAO = "Access-Control-Allow-Origin"
PAIRS = {   # header -> (env constant suffix, Cors field)
    "Access-Control-Allow-Methods": ("RWS_CONFIG_CORS_ALLOW_METHODS", "allow_methods"),
    "Access-Control-Allow-Headers": ("RWS_CONFIG_CORS_ALLOW_HEADERS", "allow_headers"),
    "Access-Control-Expose-Headers": ("RWS_CONFIG_CORS_EXPOSE_HEADERS", "expose_headers"),
    "Access-Control-Max-Age": ("RWS_CONFIG_CORS_MAX_AGE", "max_age"),
    "Access-Control-Allow-Credentials": ("RWS_CONFIG_CORS_ALLOW_CREDENTIALS", "allow_credentials"),
}
MEMBERSHIP_OK = re.compile(r"std::iter::Iterator::any|core::slice::<impl \[T\]>::contains|std::vec::Vec::<T, A>::contains|std::collections::(HashSet|BTreeSet)::<.*>::contains|<.* as std::iter::Iterator>::any")
SUBSTRING = re.compile(r"core::str::<impl str>::(contains|find|rfind|starts_with|ends_with|matches|match_indices|eq_ignore_ascii_case)|std::string::String::(contains|find)|std::str::<impl str>::(to_lowercase|to_uppercase|to_ascii_lowercase|to_ascii_uppercase)")
CLOSURE_OK = re.compile(r"core::str::<impl str>::(trim|trim_start|trim_end|as_bytes|len|is_empty)|std::string::String::(len|is_empty|as_bytes)|.*PartialEq.*::(eq|ne)|<.* as std::ops::Deref>::deref|std::string::String::as_str|<.* as std::string::ToString>::to_string|<.* as std::clone::Clone>::clone|std::cmp::PartialEq::(eq|ne)")


def env_const_of(du, v, depth=0):
    """name of the RWS_CONFIG_* constant whose env::var(..) result value v derives from"""
    if depth > 10:
        return None
    if v[0] == "call":
        if v[1] == "std::env::var" and v[2]:
            a = v[2][0]
            if a[0] == "const":
                return a[1] if isinstance(a[1], str) else None
        for a in v[2]:
            r = env_const_of(du, a, depth + 1)
            if r:
                return r
        return None
    if v[0] in ("place", "ref"):
        l, proj = v[1]
        if proj and v[0] == "place":
            vv = du.val_place((l, ()))
            if vv != v:
                return env_const_of(du, vv, depth + 1)
        vv = du.val_place((l, ())) if not proj else None
        if vv is not None and vv != v and vv[0] != "place":
            return env_const_of(du, vv, depth + 1)
        # multi-def local: any definition
        for d in du.defs.get(l, []):
            x = du.val_call(d[3], 0, d[1]) if d[0] == "call" else du.val_rvalue(d[3], 0, d[1])
            if x != v:
                r = env_const_of(du, x, depth + 1)
                if r:
                    return r
    if v[0] in ("cast", "unop"):
        return env_const_of(du, v[2], depth + 1)
    if v[0] == "aggregate":
        # `Some(value)` / `Ok(value)` built by a helper that wraps env::var
        for a in v[3]:
            r = env_const_of(du, a, depth + 1)
            if r:
                return r
    return None


def field_of(du, v, depth=0):
    """last named field read on the way to value v (e.g. cors.allow_methods)"""
    if depth > 10:
        return None
    if v[0] in ("place", "ref"):
        fields = [p[2] for p in v[1][1] if isinstance(p, tuple) and p[0] == "f"]
        if fields:
            return fields[-1]
        vv = du.val_place((v[1][0], ()))
        if vv != v:
            return field_of(du, vv, depth + 1)
    if v[0] == "call":
        for a in v[2]:
            r = field_of(du, a, depth + 1)
            if r:
                return r
    if v[0] in ("cast", "unop"):
        return field_of(du, v[2], depth + 1)
    return None


def bool_setting_edges(cfg, du, env_name):
    """(true_edges, false_edges) of the switches that test the boolean parsed from env::var(env_name):
    `if flag` / `if !flag` with flag = parse().unwrap(), or the `Ok(true)` / `Ok(false)` arms of a `match .. .parse::<bool>()`"""
    te, fe = [], []
    for sb in cfg.live_blocks():
        st = cfg.blocks[sb]["term"]
        if st["k"] != "switch" or st.get("discr_ty") != "bool":
            continue
        v = du.val_operand(st["discr"])
        neg = False
        while v[0] == "unop" and v[1] == "Not":
            v = v[2]; neg = not neg
        is_flag = (v[0] == "call" and (v[1] or "").endswith(("::unwrap", "::expect", "::unwrap_or", "::unwrap_or_default"))) or \
                  (v[0] == "place" and any(isinstance(e, tuple) and e[0] == "d" and e[1] in ("Ok", "Some") for e in v[1][1]))
        if not is_flag or env_const_of(du, v) != env_name:
            continue
        for val, tb in st["targets"]:
            if val == 0:
                f_edge, t_edge = (sb, tb), (sb, st["otherwise"])
                if neg:
                    f_edge, t_edge = t_edge, f_edge
                te.append(t_edge); fe.append(f_edge)
    return te, fe


LOOP_OK = re.compile(CLOSURE_OK.pattern + r"|std::iter::Iterator::next|std::iter::IntoIterator::into_iter|.*IntoIterator for .*>::into_iter|.* as std::iter::Iterator>::next|.* as std::iter::IntoIterator>::into_iter|core::str::<impl str>::split|core::slice::<impl \\[T\\]>::iter|std::vec::Vec::<T, A>::(iter|len)|std::iter::Iterator::(map|filter)")


from .parse_common import bool_sources as _bool_sources


def closure_true_implies_equality(cf):
    from ..implies import true_implies_key_equality
    return true_implies_key_equality(cf)


def _loop_membership(F, fn, cfg, du, l):
    """bool local l is `true` exactly where an element-wise string equality has just succeeded inside a loop (a hand-written
    `for allowed in origins { if allowed.trim() == origin { return true } } false`, possibly an inlined private helper).
    Returns None when l is not of that shape, else (ok, why)."""
    from ..inline import origin_of
    from .. import loops as L
    src = _bool_sources(du, l)
    if not src or any(v is None for _, v in src) or not any(v for _, v in src) or not any(v is False for _, v in src):
        return None
    lps = L.loops_of(fn)
    eq_edges = []
    for sb in cfg.live_blocks():
        st = cfg.blocks[sb]["term"]
        if st["k"] != "switch":
            continue
        v = du.val_operand(st["discr"])
        if v[0] == "call" and v[1] and "PartialEq" in v[1] and v[1].endswith("::eq"):
            for val, tb in st["targets"]:
                if val == 0:
                    eq_edges.append((sb, st["otherwise"]))
    in_loop = False
    for bid, val in src:
        if not val:
            continue
        if not any(cfg.edge_dominates(e, bid) for e in eq_edges):
            return None
        # the equality itself is evaluated per element, i.e. inside a loop (an equality that merely dominates a loop - `if method ==
        # OPTIONS { for .. }` - is not a membership test)
        if any(any(e[0] in lp.body for e in eq_edges if cfg.edge_dominates(e, bid)) for lp in lps):
            in_loop = True
    if not in_loop:
        return None
    # every call made by the code that computes the flag is plain: trimming, equality, iteration
    owners = {origin_of(fn, bid) for bid, val in src}
    for bid in cfg.live_blocks():
        if origin_of(fn, bid) in owners and origin_of(fn, bid) != fn.def_:
            t = cfg.blocks[bid]["term"]
            if t["k"] == "call":
                cc = callee_name(t) or ""
                if SUBSTRING.fullmatch(cc):
                    return False, "the membership loop calls %s" % cc
                if not LOOP_OK.fullmatch(cc):
                    return False, "the membership loop calls %s" % cc
    return True, ""


def run(ctx):
    F, G, R = ctx.F, ctx.G, ctx.R
    chk = Check("C11", ctx.tier, "Grant headers are built only after the Origin-present and exact-membership tests, each from its own setting; the allow-all function is unreachable in restricted mode.")
    chk.technique = "edge dominance of every Access-Control-* construction by the origin / membership tests, classification of the membership operation (equality vs substring), dataflow pairing of header and setting, pruned reachability in the mode switch"
    chk.analysed = ctx.analysed_summary()
    inv = panics.Inventory(ctx)
    from ..inline import is_private_helper
    cors_fns = []
    for fn0 in F.rws_fns():
        if fn0.kind == "Promoted" or is_private_helper(F, fn0.def_):
            continue
        fn = ctx.inl(fn0)         # a private header constructor / membership helper is part of the function for these rules (A11)
        aggs = header_aggregates(fn)
        if any(const_str(nv) == ACAO for _, _, nv, _ in aggs):
            cors_fns.append(fn)
    r0 = chk.rule("anchors", "functions that construct an Access-Control-Allow-Origin header", floor=2)
    for fn in cors_fns:
        r0.instance({"fn": fn.def_})
    restricted, allow_all = [], []
    r1 = chk.rule("R1-membership-is-equality", "in restricted mode the boolean that gates the grant is an element-wise equality test between the request origin and the configured origins (no substring / prefix / case-insensitive operation)", floor=1)
    r2 = chk.rule("R2-grants-after-checks", "every Access-Control-* header is built in a block dominated by 'Origin header present' and, in restricted mode, by the membership test's true edge", floor=3)
    r3 = chk.rule("R3-header-setting-pairing", "each restricted-mode grant takes its value from its own setting (environment variable constant or Cors field); allow-all echoes the request's origin with credentials 'true'", floor=3)
    for fn in cors_fns:
        cfg = cfg_of(fn)
        du = du_of(fn)
        g = guards_of(fn)
        aggs = [(bid, s, const_str(nv), vv) for bid, s, nv, vv in header_aggregates(fn)]
        # origin-present edges: variant facts on the result of get_header(..Origin..)
        origin_edges = []
        for bid, t in fn.calls():
            if (callee_name(t) or "").endswith("::get_header") and len(t["args"]) >= 2:
                namev = du.val_operand(t["args"][1])
                if const_str(namev) == "Origin":
                    root, inv_ = optres_root(du, place_key(t["dest"]))
                    origin_edges += [e for e, f in g.facts() if f[0] == "variant" and f[1] == root and f[3] is (False if inv_ else True)]
        # membership switches
        member_edges = []
        member_desc = []
        bad_member = []
        for sb in cfg.live_blocks():
            st = cfg.blocks[sb]["term"]
            if st["k"] != "switch" or st.get("discr_ty") != "bool":
                continue
            v = du.val_operand(st["discr"])
            neg = False
            while v[0] == "unop" and v[1] == "Not":
                v = v[2]; neg = not neg
            if v[0] == "place" and not v[1][1]:
                lm = _loop_membership(F, fn, cfg, du, v[1][0])
                if lm is not None:
                    ok_lm, why_lm = lm
                    for val, tb in st["targets"]:
                        if val == 0:
                            member_edges.append((sb, st["otherwise"]) if not neg else (sb, tb))
                    member_desc.append({"op": "explicit loop with string equality", "closure_ok": ok_lm, "line": st["span"]["line"]})
                    if not ok_lm:
                        bad_member.append((sb, why_lm, st["span"]["line"]))
                continue
            if v[0] != "call" or not v[1]:
                continue
            is_member = bool(MEMBERSHIP_OK.fullmatch(v[1]))
            is_sub = bool(SUBSTRING.fullmatch(v[1]))
            if not (is_member or is_sub):
                continue
            # does it involve the origin value?  (a local depending on the Origin header lookup)
            true_edge = None
            for val, tb in st["targets"]:
                if val == 0:
                    true_edge = (sb, st["otherwise"]) if not neg else (sb, tb)
            if true_edge is None:
                continue
            if is_sub:
                bad_member.append((sb, v[1], st["span"]["line"]))
                member_edges.append(true_edge)
                continue
            # closure of any(..): inspect its body
            closure_ok, why = True, ""
            blk = cfg.blocks[v[3]]["term"] if v[3] in cfg.blocks else None
            closures = [x for x in (blk.get("fn_items", []) if blk else []) if x in F.fns and F.fns[x].kind == "Closure"]
            if "any" in v[1]:
                if not closures:
                    closure_ok, why = False, "membership closure not found"
                for cn in closures:
                    cf = ctx.inl(F.fns[cn])       # the comparison may be a private helper called from the closure
                    has_eq = False
                    for _, ct in cf.calls():
                        cc = callee_name(ct) or ""
                        if "PartialEq" in cc and cc.endswith(("::eq", "::ne")):
                            has_eq = True
                        if not CLOSURE_OK.fullmatch(cc):
                            closure_ok, why = False, "closure %s calls %s" % (cn, cc)
                    if not has_eq:
                        closure_ok, why = False, "closure %s performs no equality comparison" % cn
                    elif closure_ok and closure_true_implies_equality(cf) is False:
                        closure_ok, why = False, "closure %s can answer true without a successful equality comparison of the origin (`||`, `!=` or a constant true)" % cn
            member_edges.append(true_edge)
            member_desc.append({"op": v[1], "closure_ok": closure_ok, "line": st["span"]["line"]})
            if not closure_ok:
                bad_member.append((sb, why, st["span"]["line"]))
        is_restricted = bool(member_edges) or any("allow_origins" in str(du.val_operand(a)) for _, t in fn.calls() for a in t["args"])
        uses_setting = any(env_const_of(du, vv) or field_of(du, vv) in ("allow_methods", "allow_headers", "expose_headers", "max_age", "allow_credentials") for _, _, hn, vv in aggs if hn and hn != ACAO)
        is_restricted = is_restricted or uses_setting
        (restricted if is_restricted else allow_all).append(fn)
        if is_restricted:
            ok = bool(member_desc) and not bad_member
            r1.instance({"fn": fn.def_, "membership": member_desc, "rejected": [b[1] for b in bad_member]}, ok)
            if not member_edges:
                r1.violate("C11|R1|%s|no-membership-test" % fn.def_, "%s grants in restricted mode without any membership test of the origin" % fn.def_, fn.file, fn.span["line"], fn.def_)
            for sb, why, line in bad_member:
                r1.violate("C11|R1|%s|not-exact" % fn.def_, "%s decides origin membership with %s: an origin that is only a substring / prefix / case variant of a configured origin would be granted" % (fn.def_, why), fn.file, line, fn.def_)
        # R2
        for bid, s, hn, vv in aggs:
            if not (hn or "").startswith("Access-Control-"):
                continue
            ok_o = bool(origin_edges) and cfg.edges_dominate(origin_edges, bid)
            ok_m = (not is_restricted) or (bool(member_edges) and cfg.edges_dominate(member_edges, bid))
            r2.instance({"fn": fn.def_, "header": hn, "line": s["span"]["line"], "after_origin_present": ok_o, "after_membership": ok_m if is_restricted else "n/a"}, ok_o and ok_m)
            if not (ok_o and ok_m):
                r2.violate("C11|R2|%s|%s" % (fn.def_, hn), "%s builds %s on a path that has not passed %s" % (fn.def_, hn, "the Origin-present test" if not ok_o else "the origin membership test"), s["span"]["file"], s["span"]["line"], fn.def_)
        # R3
        for bid, s, hn, vv in aggs:
            if hn == ACAO:
                # value is the request's origin (derives from the Origin header lookup)
                ld = local_deps(fn)
                origin_locals = {t["dest"]["l"] for _, t in fn.calls() if (callee_name(t) or "").endswith("::get_header") and len(t["args"]) >= 2 and const_str(du.val_operand(t["args"][1])) == "Origin"}
                d = dict(zip(s["rv"]["fields"], s["rv"]["ops"]))
                vop = d["value"]
                src = "the Origin header lookup" if (vop.get("k") in ("copy", "move") and ld.closure(vop["l"]) & origin_locals) else field_of(du, vv)
                ok = src == "the Origin header lookup"
                r3.instance({"fn": fn.def_, "header": hn, "value_from": src}, ok)
                if not ok:
                    r3.violate("C11|R3|%s|%s" % (fn.def_, hn), "%s: %s is not the request's Origin value (comes from %s)" % (fn.def_, hn, src), s["span"]["file"], s["span"]["line"], fn.def_)
            elif hn in PAIRS:
                env_c, fld = PAIRS[hn]
                if is_restricted:
                    e = env_const_of(du, vv)
                    f = field_of(du, vv)
                    ok = (e == env_c) or (f == fld)
                    if not ok and const_str(vv) in ("true", True) or (not ok and vv[0] == "call" and vv[2] and vv[2][0][0] == "const" and vv[2][0][1] is True):
                        # the literal `true` built only where the parsed setting is true: `Ok(true) => Header{ .., value: true.to_string() }`
                        te, _ = bool_setting_edges(cfg, du, env_c)
                        if te and cfg.edges_dominate(te, bid):
                            ok, e = True, env_c + " (value `true` under the setting's true arm)"
                    r3.instance({"fn": fn.def_, "header": hn, "env": e, "field": f}, ok)
                    if not ok:
                        r3.violate("C11|R3|%s|%s" % (fn.def_, hn), "%s: %s takes its value from %s, not from %s / Cors.%s" % (fn.def_, hn, e or f, env_c, fld), s["span"]["file"], s["span"]["line"], fn.def_)
                elif hn == "Access-Control-Allow-Credentials":
                    ok = const_str(vv) == "true" or (vv[0] == "call" and (vv[1] or "").endswith("::to_string") and vv[2] and vv[2][0][0] == "const" and vv[2][0][1] is True)
                    r3.instance({"fn": fn.def_, "header": hn, "value": const_str(vv)}, ok)
                    if not ok:
                        r3.violate("C11|R3|%s|%s" % (fn.def_, hn), "%s: allow-all mode must send credentials 'true'" % fn.def_, s["span"]["file"], s["span"]["line"], fn.def_)
    if not restricted:
        r1.violate("C11|R1|anchor-missing|restricted", "no restricted-mode CORS function (one that tests membership of the origin) was found")

    # R4 mode switch
    # R5: the grants carry the names browsers look for
    r5 = chk.rule("R5-grant-header-names", "every header whose name starts with Access-Control- that the CORS functions build is one of the six response headers of the Fetch standard, and each function that grants builds Access-Control-Allow-Origin and Access-Control-Allow-Credentials", floor=8)
    KNOWN = {ACAO, "Access-Control-Allow-Credentials", "Access-Control-Allow-Methods", "Access-Control-Allow-Headers", "Access-Control-Expose-Headers", "Access-Control-Max-Age"}
    for fn in restricted + allow_all:
        names = [const_str(nv) for _, _, nv, _ in header_aggregates(ctx.inl(fn))]
        acs = [x for x in names if x and x.lower().startswith("access-control")]
        for x in sorted(set(acs)):
            ok = x in KNOWN
            r5.instance({"fn": fn.def_, "header": x, "registered": ok}, ok)
            if not ok:
                r5.violate("C11|R5|%s|%s" % (fn.def_, x), "%s sends %r, which is not a CORS response header: the grant it was meant to be never reaches the browser" % (fn.def_, x), fn.file, fn.span["line"], fn.def_)
        for need in (ACAO, "Access-Control-Allow-Credentials"):
            ok = need in acs
            r5.instance({"fn": fn.def_, "builds": need, "present": ok}, ok)
            if not ok:
                r5.violate("C11|R5|%s|missing|%s" % (fn.def_, need), "%s grants cross-origin access without ever building %s" % (fn.def_, need), fn.file, fn.span["line"], fn.def_)
    r4 = chk.rule("R4-mode-switch", "the restricted function is called only where the allow-all switch parsed to false, and no allow-all call is reachable from that edge (edges that test the Err of a never-failing call are pruned)", floor=2)
    rnames = {f.def_ for f in restricted}
    anames = {f.def_ for f in allow_all}
    for fn in F.rws_fns():
        if fn.kind == "Promoted" or is_private_helper(F, fn.def_):
            continue
        fn = ctx.inl(fn)          # the flag may be read and parsed by a private helper (A11)
        calls_r = [(bid, t) for bid, t in fn.calls() if callee_name(t) in rnames]
        calls_a = [(bid, t) for bid, t in fn.calls() if callee_name(t) in anames]
        if not (calls_r and calls_a):
            continue
        cfg = cfg_of(fn)
        du = du_of(fn)
        g = guards_of(fn)
        # the switch on the parsed allow-all flag
        restricted_edges = []
        for sb in cfg.live_blocks():
            st = cfg.blocks[sb]["term"]
            if st["k"] != "switch" or st.get("discr_ty") != "bool":
                continue
            v = du.val_operand(st["discr"])
            neg = False
            while v[0] == "unop" and v[1] == "Not":
                v = v[2]; neg = not neg
            pass
        _, restricted_edges = bool_setting_edges(cfg, du, "RWS_CONFIG_CORS_ALLOW_ALL")
        if not restricted_edges:
            r4.violate("C11|R4|%s|no-switch" % fn.def_, "%s calls both CORS modes but never tests the parsed allow-all setting" % fn.def_, fn.file, fn.span["line"], fn.def_)
            continue
        for bid, t in calls_r:
            ok = cfg.edges_dominate(restricted_edges, bid)
            r4.instance({"fn": fn.def_, "restricted_call_line": t["span"]["line"], "only_when_switch_off": ok}, ok)
            if not ok:
                r4.violate("C11|R4|%s|restricted-call" % fn.def_, "%s calls the restricted-mode function on a path where the allow-all switch is not known to be off" % fn.def_, fn.file, t["span"]["line"], fn.def_)
        # prune infeasible edges: is_err()==true on the result of a call that never returns Err
        infeasible = set()
        for e, f in g.facts():
            if f[0] == "variant" and f[3] is False:
                c = du.canon(f[1])
                d = du.unique_def(c[0]) if not c[1] else None
                if d and d[0] == "call":
                    cn = callee_name(d[3])
                    if cn in F.fns and inv.always_succ(F.fns[cn]):
                        infeasible.add(e)
        for (sb, tb) in restricted_edges:
            reach = cfg.reachable_from(tb, removed_edges=list(infeasible))
            hit = [b for b, t in calls_a if b in reach]
            ok = not hit
            r4.instance({"fn": fn.def_, "allow_all_reachable_in_restricted_mode": bool(hit), "pruned_edges": len(infeasible)}, ok)
            if not ok:
                line = cfg.blocks[hit[0]]["term"]["span"]["line"]
                r4.violate("C11|R4|%s|allow-all-in-restricted-mode" % fn.def_,
                           "%s: with the allow-all switch off, control can still reach the allow-all function (line %d), e.g. when the restricted function reports an error: every origin would then be echoed with credentials" % (fn.def_, line),
                           fn.file, line, fn.def_)
    chk.assumptions += ["configured origins are compared after trim(); 'exactly one of the configured origins' is read as byte equality",
                        "a call that never returns Err (every return value built as Ok) makes its is_err() branch infeasible"]
    chk.undecided = ["values of the settings themselves (C12); echo of preflight request headers in allow-all mode is checked only for its gating"]
    return chk.finish()
