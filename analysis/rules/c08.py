"""C08 — concurrent requests do not influence one another.
Sufficient condition: nothing reachable from a connection root (or from the accept / worker loops) can write process-shared state."""
import re
from ..callgraph import callee_name
from ..framework import Check
from . import c13

ENV_WRITERS = ("std::env::set_var", "std::env::remove_var", "std::env::set_current_dir")
SHARED_TY = re.compile(r"(&|\*const |\*mut |\bArc<|\bRc<|\bMutex<|\bRwLock<|\bCell<|\bRefCell<|\bUnsafeCell<|Atomic[A-Z]|\bmpsc::|\bOnceLock<|\bOnceCell<|\bLazyLock<|\bCondvar\b|\bBarrier\b|\bWeak<)")


def shared_in_type(F, ty, seen=None, depth=0):
    """returns a description of the first process-shared / aliasing component found in type string `ty`, else None"""
    seen = seen if seen is not None else set()
    m = SHARED_TY.search(ty)
    if m:
        return "%s (in %s)" % (m.group(1).strip(), ty)
    if depth > 6:
        return None
    for path, adt in F.adts.items():
        if path in seen:
            continue
        if re.search(r"(^|[^:\w])%s($|[^:\w])" % re.escape(path), ty):
            seen.add(path)
            for v in adt["variants"]:
                for f in v["fields"]:
                    r = shared_in_type(F, f["ty"], seen, depth + 1)
                    if r:
                        return "%s.%s: %s" % (path, f["name"], r)
    return None


def run(ctx):
    F, G, R = ctx.F, ctx.G, ctx.R
    chk = Check("C08", ctx.tier, "No code reachable from a connection root, the accept loop or a worker loop can write process-shared state (environment, statics, shared captures, files).")
    chk.technique = "call-graph reachability + type inspection of closure captures and statics (MIR facts)"
    chk.analysed = ctx.analysed_summary()
    roots = sorted(set(R.connection_roots()) | set(R.accept_loops) | set(R.worker_closures))
    r0 = chk.rule("anchors", "roots discovered by role: connection closures/functions, accept loop, worker loop", floor=5)
    for e in R.errors:
        r0.violate("C08|anchors|" + e.split(":")[1].strip()[:50], e)
    for x in roots:
        r0.instance({"root": x})
    seen = G.reachable(roots)
    local = sorted(n for n in seen if n in F.fns)

    # R1 environment writers
    r1 = chk.rule("R1-no-env-writes", "no call to env::set_var / remove_var / set_current_dir in a function reachable from the roots")
    n = 0
    cnt = {}
    for name in local:
        fn = F.fns[name]
        for bid, t in fn.calls():
            n += 1
            c = callee_name(t)
            if c in ENV_WRITERS:
                cnt[(name, c)] = cnt.get((name, c), 0) + 1
                r1.violate("C08|R1|%s|%s|%d" % (name, c, cnt[(name, c)]),
                           "%s writes the process environment (%s) and is reachable from a per-connection root: %s" % (name, c, G.fmt_path(seen, name)),
                           t["span"]["file"], t["span"]["line"], name, {"call_path": G.fmt_path(seen, name)})
    r1.instances = r1.obligations = n
    r1.discharged = n - len(r1.violations)
    r1.samples.append({"call_sites_checked": n, "reachable_functions": len(local)})

    # R2 statics / thread locals / unsafe / ffi
    r2 = chk.rule("R2-no-shared-statics", "no `static mut`, no interior-mutable static, no thread_local access, no unsafe block, no FFI in the four crates' request-reachable code")
    for s in F.statics:
        ok = not s["mutable"] and s["freeze"]
        r2.instance({"static": s["path"], "mutable": s["mutable"], "freeze": s["freeze"]}, ok)
        if not ok:
            r2.violate("C08|R2|static|%s" % s["path"], "static %s (%s) is %s: process-shared mutable state" % (s["path"], s["ty"], "mutable" if s["mutable"] else "interior-mutable"),
                       s["span"]["file"], s["span"]["line"])
    r2.instance({"statics_in_four_crates": len(F.statics)})
    for name in local:
        fn = F.fns[name]
        for b in fn.blocks:
            if b["cleanup"]:
                continue
            for st in b["stmts"]:
                if st["k"] == "assign" and st["rv"]["k"] == "tlsref":
                    r2.violate("C08|R2|tls|%s|%s" % (name, st["rv"]["item"]), "%s reads thread-local %s: state surviving from one request to the next on the same worker" % (name, st["rv"]["item"]),
                               st["span"]["file"], st["span"]["line"], name)
        for bid, t in fn.calls():
            c = callee_name(t) or ""
            if c.startswith("std::thread::LocalKey"):
                r2.violate("C08|R2|tls|%s|%s" % (name, c), "%s uses a thread_local! key (%s): state surviving across requests on a worker" % (name, c), t["span"]["file"], t["span"]["line"], name)
    ub = [u for u in F.unsafe_blocks if u["fn"] in seen or ("%s::%s" % (u["crate"], u["fn"])) in seen]
    r2.instance({"unsafe_blocks_in_reachable_code": len(ub), "unsafe_blocks_total": len(F.unsafe_blocks)}, ok=not ub)
    for u in ub:
        r2.violate("C08|R2|unsafe|%s" % u["fn"], "unsafe block in request-reachable function %s" % u["fn"], u["span"]["file"], u["span"]["line"], u["fn"])
    r2.instance({"foreign_items": len(F.foreign)}, ok=not F.foreign)
    for c, name in F.foreign:
        r2.violate("C08|R2|ffi|%s" % name, "foreign item %s declared in crate %s" % (name, c))

    # R3 file system (C13)
    r3 = chk.rule("R3-no-fs-writes", "C13: no file-system mutator reachable (files are the other cross-request channel)")
    _, sites = c13.scan(ctx, roots)
    r3.instances = r3.obligations = len(sites) or 1
    bad = [s for s in sites if s[3] in ("mutator", "unclassified")]
    r3.discharged = r3.obligations - len(bad)
    for fn, bid, t, cls, c in bad:
        r3.violate("C08|R3|%s|%s" % (fn.def_, c), "%s calls %s (%s)" % (fn.def_, c, cls), t["span"]["file"], t["span"]["line"], fn.def_)
    r3.samples.append({"fs_call_sites_classified": len(sites)})

    # R4 what a connection task captures
    r4 = chk.rule("R4-captures-unshared", "the per-connection closure captures no reference, pointer, Arc/Rc, lock, cell, atomic or channel; the Application type passed by main has none either", floor=2)
    for cc in R.connection_closures:
        fn = F.fns[cc]
        for i, ty in enumerate(fn.raw.get("upvars", [])):
            if ty.startswith("impl ") or re.fullmatch(r"[A-Z]\w*", ty):
                # generic parameter: resolved below from the instantiations of the accept loop
                r4.instance({"closure": cc, "capture": i, "type": ty, "generic": True})
                continue
            bad_ = shared_in_type(F, ty)
            r4.instance({"closure": cc, "capture": i, "type": ty}, ok=bad_ is None)
            if bad_:
                r4.violate("C08|R4|%s|capture|%s" % (cc, ty), "connection closure %s captures shared state: %s" % (cc, bad_), fn.span["file"], fn.span["line"], cc)
    for al in R.accept_loops:
        for e in G.inn.get(al, []):
            if e.kind != "call":
                continue
            caller = F.fns[e.src]
            for bid, t in caller.calls():
                if callee_name(t) == al and bid == e.block:
                    for ty in t.get("gargs", []):
                        bad_ = shared_in_type(F, ty)
                        r4.instance({"accept_loop": al, "called_from": e.src, "application_type": ty}, ok=bad_ is None)
                        if bad_:
                            r4.violate("C08|R4|%s|app-type|%s" % (al, ty), "application value moved into every connection task has shared state: %s" % bad_, t["span"]["file"], t["span"]["line"], e.src)

    # R5 / positive control: env writers exist and are start-up only
    r5 = chk.rule("R5-env-writers-startup-only", "every env writer in the four crates is unreachable from the roots and reachable from main only before the accept loop starts", floor=1)
    main_seen = G.reachable([R.main]) if R.main else {}
    writers = []
    for fn in F.fns.values():
        for bid, t in fn.calls():
            if callee_name(t) in ENV_WRITERS:
                writers.append((fn, bid, t))
    for fn, bid, t in writers:
        ok = fn.def_ not in seen
        r5.instance({"fn": fn.def_, "callee": callee_name(t), "reachable_from_main": fn.def_ in main_seen}, ok)
    # call order in main: every call that reaches an env writer precedes (dominates) the accept-loop call
    if R.main:
        mfn = F.fns[R.main]
        cfg = ctx.cfg(mfn)
        accept_blocks = [bid for bid, t in mfn.calls() if callee_name(t) in R.accept_loops]
        writer_fns = {fn.def_ for fn, _, _ in writers}
        for bid, t in mfn.calls():
            c = callee_name(t)
            if c in F.fns and c not in R.accept_loops:
                sub = G.reachable([c])
                if writer_fns & set(sub):
                    for ab in accept_blocks:
                        ok = cfg.node_dominates(bid, ab) and not cfg.can_reach(ab, bid)
                        r5.instance({"main_calls": c, "before_accept_loop": ok}, ok)
                        if not ok:
                            r5.violate("C08|R5|main|%s" % c, "main calls %s (which writes the environment) on a path not ordered before the accept loop" % c, t["span"]["file"], t["span"]["line"], R.main)
        if not accept_blocks:
            r5.violate("C08|R5|main|no-accept-call", "main does not call the accept loop directly; start-up ordering cannot be established")
    chk.assumptions += [
        "sufficient condition only: absence of writable shared state implies isolation; the call graph over-approximates (CHA, closures passed are called)",
        "std internals (stdout lock, allocator, environment lock) are not application state",
        "the clock, the peer address and the file system contents are inputs of each response, as the property allows"]
    chk.undecided = ["byte-for-byte equality of concurrent vs serial responses is implied by the absence of shared writable state, not observed"]
    return chk.finish()
