"""C01 — requests cannot read files outside the served directory.
R1 inventory of request-derived file-system paths; R2 every content-disclosing read of a request-derived path is only reachable
through the pass edge of the containment predicate; R3 refusal is an error status; R4 predicate body anchor."""
import re
from ..callgraph import callee_name
from ..cfg import cfg_of
from ..dataflow import du_of, place_key, val_ref_target
from ..framework import Check
from ..guards import guards_of
from ..taint import Taint, local_deps

# (callee regex, index of the path argument, class)
FS_PATH_CALLS = [
    (r"std::fs::File::open", 0, "probe-or-read"),
    (r"std::fs::metadata", 0, "probe"), (r"std::fs::symlink_metadata", 0, "probe"), (r"std::fs::read_link", 0, "probe"),
    (r"std::fs::read_dir", 0, "listing"), (r"std::fs::canonicalize", 0, "probe"),
    (r"std::fs::read", 0, "content"), (r"std::fs::read_to_string", 0, "content"),
    (r"std::path::Path::(is_file|is_dir|exists)", 0, "probe"),
    (r"file_ext::FileExt::(read_file|read_file_partially)", 0, "content"),
    (r"file_ext::file_ext_impl::FileExtImpl::(read_file|read_file_partially)", 0, "content"),
    (r"file_ext::FileExt::(does_file_exist|file_modified_utc|is_symlink|symlink_points_to|file_length)", 0, "probe"),
    (r"file_ext::FileExt::resolve_symlink_path", 0, "probe"),
]


def classify_call(name):
    for pat, idx, cls in FS_PATH_CALLS:
        if re.fullmatch(pat, name):
            return idx, cls
    return None


PROBE_ONLY_USES = re.compile(r"std::result::Result::<T, E>::(is_ok|is_err|as_ref|err|unwrap_err)|std::option::Option::<T>::(is_some|is_none|unwrap)|std::fs::File::metadata|std::fs::Metadata::.*|<.* as std::fmt::(Display|Debug)>::fmt|core::fmt::rt::Argument::<'_>::new_(display|debug)|<T as std::string::ToString>::to_string|std::result::Result::<T, E>::unwrap")


def open_is_content_read(fn, t):
    """File::open whose handle is used for more than an existence test: it is read, wrapped, stored or returned"""
    ld = local_deps(fn)
    dest = t["dest"]["l"]
    # only values that still carry the handle: locals whose type mentions std::fs::File
    desc = {l for l in range(len(fn.locals)) if dest in ld.closure(l) and "std::fs::File" in fn.local_ty(l)}
    if 0 in desc:
        return True
    for b in fn.blocks:
        if b["cleanup"]:
            continue
        for s in b["stmts"]:
            if s["k"] == "assign" and s["rv"]["k"] == "aggregate" and s["rv"].get("agg") in ("adt", "closure"):
                if any(o.get("k") in ("copy", "move") and o["l"] in desc for o in s["rv"]["ops"]) and "Result" not in (s["rv"].get("adt") or "") and "Option" not in (s["rv"].get("adt") or ""):
                    return True
        tt = b["term"]
        if tt["k"] == "call" and tt is not t:
            if any(a.get("k") in ("copy", "move") and a["l"] in desc for a in tt["args"]):
                c = callee_name(tt) or ""
                if c.endswith("::unwrap") and tt["dest"]["l"] in desc:
                    continue   # unwrapping the Result just yields the handle; its uses are examined on their own
                if not PROBE_ONLY_USES.fullmatch(c):
                    return True
    return False


def IN_OF(fn):
    """name of the function an (inlined) body belongs to"""
    return fn.def_


def find_predicates(F):
    """containment predicate: a bool function of one string that splits it and compares a segment with the constant '..'
    (the comparison may sit in a private helper or in a closure of the function: an extracted step, a `try_fold` body)"""
    from ..inline import inlined
    out = []
    for fn in F.rws_fns():
        if fn.ret != "bool" or fn.nargs != 1 or fn.kind in ("Promoted", "Closure"):
            continue
        has_dotdot = False
        has_split = False
        seps = set()
        bodies = [inlined(F, fn)] + [inlined(F, cf) for cn, cf in F.fns.items() if cn.startswith(fn.def_ + "::{closure") and cf.kind == "Closure"]
        # ... or in a private function handed to an adaptor by name (`.map(PathStep::of_segment)`)
        from ..inline import is_private_helper as _iph
        for body0 in list(bodies):
            for _, t0 in body0.calls():
                for x in t0.get("fn_items", []):
                    if _iph(F, x) and all(IN_OF(b_) is not F.fns[x] for b_ in bodies):
                        bodies.append(inlined(F, F.fns[x]))
        owners = {fn.def_} | {cn for cn in F.fns if cn.startswith(fn.def_ + "::{closure")}
        from ..inline import IN_INFO
        for body in bodies:
            owners |= set(IN_INFO.get(id(body), {}).get("callees", []))
        for body in bodies:
            bdu = du_of(body)
            for b in body.blocks:
                for s in b["stmts"]:
                    if s["k"] == "assign":
                        for o in s["rv"].get("ops", []):
                            if o.get("k") == "const" and o.get("v") == "..":
                                has_dotdot = True
                            if o.get("k") == "const" and isinstance(o.get("v"), dict) and o["v"].get("char") in ("/", "\\"):
                                seps.add(o["v"]["char"])
                t = b["term"]
                if t["k"] == "call":
                    n = callee_name(t) or ""
                    for a0 in t["args"]:
                        va = bdu.val_operand(a0)
                        a = {"k": "const", "v": va[1]} if va[0] == "const" else a0
                        if a.get("k") == "const":
                            if a.get("v") == "..":
                                has_dotdot = True
                            if isinstance(a.get("v"), str) and a.get("v") in ("/", "\\"):
                                seps.add(a["v"])
                            if isinstance(a.get("v"), dict) and a["v"].get("char") in ("/", "\\"):
                                seps.add(a["v"]["char"])
                    if "::split" in n:
                        has_split = True
                if t["k"] == "switch" and t.get("discr_ty") == "char":
                    for v_, _tb in t["targets"]:
                        if chr(v_) in ("/", "\\"):
                            seps.add(chr(v_))
        # constants may sit in promoted bodies
        for pn, pf in F.fns.items():
            if any(pn.startswith(o_ + "::{promoted#") for o_ in owners):
                for b in pf.blocks:
                    for s in b["stmts"]:
                        if s["k"] == "assign":
                            for o in s["rv"].get("ops", []):
                                if o.get("k") == "const" and o.get("v") == "..":
                                    has_dotdot = True
                                if o.get("k") == "const" and o.get("v") in ("/", "\\"):
                                    seps.add(o["v"])
        if has_dotdot and has_split:
            out.append((fn, seps))
    return out


DECODER_NAMES = r"(decode|unescape|percent|from_utf8_lossy|canonicalize|normalize|expand)"
STRINGY = re.compile(r"(std::string::String|&str|&'\w+ str|std::path::PathBuf|&std::path::Path|std::vec::Vec<u8>|&\[u8\]|std::borrow::Cow<|std::ffi::OsString)")


def _neutral_by_body(F, neutral, name, depth=0, seen=None):
    """A function of the analysed crates that receives the checked path is harmless when it cannot hand back or use a rewritten path:
    it returns nothing string- or path-like, builds no text byte by byte (no loop, no push / push_str / extend), and everything it
    calls is a std function that is not a decoder, a reviewed path-neutral function, or a function that is harmless in the same sense."""
    seen = seen or set()
    if name in seen or depth > 3:
        return False
    seen.add(name)
    fn = F.fns.get(name)
    if fn is None:
        return False
    if STRINGY.search(fn.ret or ""):
        return False
    from .. import loops as L
    if L.loops_of(fn):
        return False
    for bid, t in fn.calls():
        c = callee_name(t) or t.get("callee") or "<indirect>"
        if re.search(r"::(push|push_str|extend|extend_from_slice|insert|insert_str|replace|replacen|replace_range)$", c):
            return False
        if any(rx.fullmatch(c) for rx in neutral):
            continue
        if c in F.fns:
            if not _neutral_by_body(F, neutral, c, depth + 1, seen):
                return False
            continue
        if re.search(DECODER_NAMES, c, re.I):
            return False
    return True


def run(ctx):
    F, G, R = ctx.F, ctx.G, ctx.R
    chk = Check("C01", ctx.tier, "Every content-disclosing file read whose path derives from the request target is reachable only through the pass edge of the path-containment predicate; refusal is an error status.")
    chk.technique = "interprocedural taint (request_uri -> file-system path arguments) + cut-edge call-graph reachability through the containment predicate's pass edge (edge dominance)"
    chk.analysed = ctx.analysed_summary()
    roots = R.connection_roots()
    r0 = chk.rule("anchors", "connection roots (both entry points) discovered by role", floor=3)
    for e in R.errors:
        r0.violate("C01|anchors|" + e.split(":")[1].strip()[:50], e)
    for x in roots:
        r0.instance({"root": x})

    # R4: the predicate
    r4 = chk.rule("R4-containment-predicate", "a containment predicate exists: bool function of the path that splits it into segments and compares them with '..' (both separators handled)", floor=1)
    preds = find_predicates(F)
    pred_names = {fn.def_ for fn, _ in preds}
    for fn, seps in preds:
        ok = "/" in seps
        r4.instance({"predicate": fn.def_, "separators_seen": sorted(seps)}, ok)
        if not ok:
            r4.violate("C01|R4|%s|separator" % fn.def_, "containment predicate %s does not split on '/'" % fn.def_, fn.file, fn.span["line"], fn.def_)
    if not preds:
        r4.violate("C01|R4|no-predicate", "no containment predicate (a bool function comparing path segments with '..') exists in rws: request paths are concatenated to the working directory unchecked")

    # R5: the body of the predicate keeps a sound depth (A12, analysis/segments.py)
    r5 = chk.rule("R5-predicate-keeps-a-sound-depth", "evaluated once per segment class ('..', '.', '', name): the predicate's depth never exceeds the real depth (name: at most +1; '.', '': no growth; '..': -1 and only where depth >= 1 is established, at depth 0 it answers true), it starts at 0, no segment ends the walk with false, and the walked text is the predicate's argument", floor=6)
    from .. import segments
    for fn, seps in preds:
        res, note = segments.verdicts(fn)
        fold_form = False
        if res is None:
            from .. import segfold
            res2, note2 = segfold.verdicts(F, fn)
            if res2 is not None:
                res, note, fold_form = res2, note2, True
        if res is None:
            r5.note("%s: %s - the body is not decided by this rule (anchor R4 only)" % (fn.def_, note))
            chk.undecided_extra = getattr(chk, "undecided_extra", []) + ["the string logic of %s (not a segment walk with a depth)" % fn.def_]
            r5.floor = 0        # nothing of this form to count: the rule is silent, not vacuously satisfied (see the note)
            continue
        if fold_form:
            # the fold form (A12b): same obligations, read off the closure; the clause about the walked text is one of its entries
            seen_keys = set()
            for cls, ok, why, line in res:
                if not ok and why.startswith("UNDECIDED"):
                    r5.note("%s, segment %r: %s (line %d)" % (fn.def_, cls, why, line))
                    chk.undecided_extra = getattr(chk, "undecided_extra", []) + ["%s, segment %r: %s" % (fn.def_, cls, why)]
                    r5.floor = 0
                    continue
                r5.instance({"predicate": fn.def_, "segment_class": cls, "path_outcome": why, "form": "try_fold"}, ok)
                if not ok and (cls, why) not in seen_keys:
                    seen_keys.add((cls, why))
                    r5.violate("C01|R5|%s|%s" % (fn.def_, cls), "%s, segment %r: %s" % (fn.def_, cls, why), fn.file, line, fn.def_)
            continue
        sh = segments.find_shape(fn)
        du_p = du_of(fn)
        def _mentions_param(v, depth=0):
            if depth > 12 or not isinstance(v, tuple):
                return False
            if v and v[0] in ("place", "ref") and isinstance(v[1], tuple) and v[1] and v[1][0] == 1:
                return True
            if v and v[0] in ("place", "ref") and isinstance(v[1], tuple) and v[1] and isinstance(v[1][0], int):
                w = du_p.val_place((v[1][0], ()))
                if w != v and w[0] != "place":
                    return _mentions_param(w, depth + 1)
                return False
            return any(_mentions_param(x, depth + 1) for x in v[1:] if isinstance(x, tuple)) or any(_mentions_param(y, depth + 1) for x in v[1:] if isinstance(x, tuple) for y in x if isinstance(y, tuple))
        okp = _mentions_param(sh.split_recv)
        r5.instance({"predicate": fn.def_, "clause": "the split text derives from the argument", "depth": note}, okp)
        if not okp:
            r5.violate("C01|R5|%s|not-the-argument" % fn.def_, "%s does not walk the segments of its argument" % fn.def_, fn.file, fn.span["line"], fn.def_)
        seen_keys = set()
        for cls, ok, why, line in res:
            if not ok and why.startswith("UNDECIDED"):
                # a construct the evaluation does not follow (the depth handed through a helper's Option, an adaptor ...): no verdict on
                # this path, said so in the evidence; the paths that ARE followed still have to satisfy the rule
                r5.note("%s, segment %r: %s (line %d)" % (fn.def_, cls, why, line))
                chk.undecided_extra = getattr(chk, "undecided_extra", []) + ["%s, segment %r: %s" % (fn.def_, cls, why)]
                r5.floor = 0
                continue
            r5.instance({"predicate": fn.def_, "segment_class": cls, "path_outcome": why, "line": line}, ok)
            if not ok:
                key = "C01|R5|%s|%s" % (fn.def_, cls)
                if key in seen_keys:
                    continue
                seen_keys.add(key)
                r5.violate(key, "%s, segment %r: %s" % (fn.def_, cls, why), fn.file, line, fn.def_)

    # sanitised call sites: dominated by the pass (false) edge of a predicate call whose argument is an ancestor of the flowing path
    seen_all = G.reachable(roots)
    local_all = [n for n in seen_all if n in F.fns]
    cut_sites = set()
    pred_calls = []
    from ..loops import feasible_reach
    guard_sets = {}
    for n in local_all:
        fn0 = F.fns[n]
        if fn0.crate != "rws" or fn0.kind == "Promoted":
            continue
        # the check may sit in a private helper of the function that goes on to read (`refuse_if_outside(path)?`): judged on the inlined
        # body (A11; the caller's own block numbers are unchanged, so cut sites still name call-graph edges of the caller)
        fn = ctx.inl(fn0)
        if not any(callee_name(t_) in pred_names for _, t_ in fn.calls()):
            continue
        cfg = cfg_of(fn)
        du = du_of(fn)
        g = guards_of(fn)
        ld = local_deps(fn)
        for pb, pt in fn.calls():
            if callee_name(pt) not in pred_names:
                continue
            dest = pt["dest"]["l"]
            # what is reachable when the predicate answered "outside" / "inside" (variant- and bool-sensitive walk: `if outside { return
            # Err }`, `(!outside).then_some(()).ok_or_else(..)?`, a helper's Err return followed by `?` in the caller)
            out_r = feasible_reach(cfg, start_block=pb, init={("bool", dest): True}) if not pt["dest"]["p"] else None
            in_r = feasible_reach(cfg, start_block=pb, init={("bool", dest): False}) if not pt["dest"]["p"] else None
            if out_r is not None and in_r is not None:
                guard_sets[(n, pb)] = ({b for b in in_r - out_r if cfg.node_dominates(pb, b)}, out_r)
            a = pt["args"][0]
            a_root = None
            if a.get("k") in ("copy", "move"):
                tgt = val_ref_target(du, du.val_operand(a))
                a_root = tgt[0] if tgt is not None else a["l"]
            # pass edges: switch on the predicate's result, value 0 (not outside)
            pass_edges, fail_edges = [], []
            for sb in cfg.live_blocks():
                st = cfg.blocks[sb]["term"]
                if st["k"] != "switch":
                    continue
                v = du.val_operand(st["discr"])
                neg = False
                while v[0] == "unop" and v[1] == "Not":
                    v = v[2]; neg = not neg
                if v[0] == "call" and v[1] in pred_names and v[3] == pb:
                    for val, tb in st["targets"]:
                        truth = bool(val) != neg
                        (fail_edges if truth else pass_edges).append((sb, tb))
                        other_truth = not truth
                        (fail_edges if other_truth else pass_edges).append((sb, st["otherwise"]))
            guarded = guard_sets.get((n, pb), (set(), set()))[0]
            pred_calls.append((fn, pb, pt, a_root, pass_edges, fail_edges))
            for bid, t in fn.calls():
                if bid == pb or not (pass_edges or guarded):
                    continue
                if bid >= len(fn0.blocks):
                    continue        # a block of an inlined helper: its calls are edges of the helper, judged where the helper is the function
                if not ((pass_edges and cfg.edges_dominate(pass_edges, bid)) or bid in guarded):
                    continue
                # some argument of this call descends from the checked value
                for arg in t["args"]:
                    if arg.get("k") in ("copy", "move") and a_root is not None and a_root in ld.closure(arg["l"]):
                        cut_sites.add((n, bid))
    # reachability with sanitised call edges removed
    def cut(e):
        return (e.src, e.block) in cut_sites and e.kind in ("call", "trait-cha")
    seen = G.reachable(roots, cut=cut)
    local = sorted(n for n in seen if n in F.fns)
    taint = Taint(F, local, ["request_uri"], cut_sites=cut_sites, G=G)
    taint_all = Taint(F, sorted(local_all), ["request_uri"], G=G)

    # R1 inventory over everything reachable (informational + floors)
    r1 = chk.rule("R1-inventory", "file-system path arguments in request-reachable code classified constant vs request-derived", floor=4)
    n_content = 0
    for n in sorted(local_all):
        fn = F.fns[n]
        for bid, t in fn.calls():
            c = callee_name(t)
            if not c:
                continue
            cc = classify_call(c)
            if cc is None:
                continue
            idx, cls = cc
            if cls == "probe-or-read":
                cls = "content" if open_is_content_read(fn, t) else "probe"
            tainted = taint_all.arg_tainted(fn, t, idx)
            r1.classify(("request-derived " if tainted else "constant ") + cls)
            if tainted:
                r1.instance({"fn": n, "callee": c, "class": cls, "line": t["span"]["line"]})
                if cls == "content":
                    n_content += 1
    if n_content < 1:
        r1.violate("C01|R1|no-content-sink", "no content-disclosing read with a request-derived path was found: the rule no longer sees how files are served (fail closed)")

    # R2: after removing sanitised edges, no content read with a request-derived path may remain
    r2 = chk.rule("R2-no-unchecked-disclosure", "with every call edge dominated by the predicate's pass edge removed, no content-disclosing read (FileExt::read_file*, fs::read*, File::open + Read) with a request-derived path is reachable from a connection root", floor=1)
    cnt = {}
    for n in local:
        fn = F.fns[n]
        reads_file = any(("as std::io::Read>::" in (callee_name(t) or "") and "std::fs::File" in (callee_name(t) or "")) or ((t.get("trait") == "std::io::Read") and "std::fs::File" in " ".join(t.get("arg_tys", [])[:1])) for _, t in fn.calls())
        for bid, t in fn.calls():
            c = callee_name(t)
            if not c:
                continue
            cc = classify_call(c)
            if cc is None:
                continue
            idx, cls = cc
            if cls == "probe-or-read":
                cls = "content" if (reads_file or open_is_content_read(fn, t)) else "probe"
            if cls != "content":
                continue
            if fn.crate != "rws" and c.startswith("std::"):
                # inside the dependency the std read is the implementation of a wrapper already counted at its rws call site
                pass
            tainted = taint.arg_tainted(fn, t, idx)
            r2.instance({"fn": n, "callee": c, "line": t["span"]["line"], "path_request_derived": tainted}, ok=not tainted)
            if tainted:
                k = (n, c)
                cnt[k] = cnt.get(k, 0) + 1
                path = G.fmt_path(seen, n)
                r2.violate("C01|R2|%s|%s|%d" % (n, c, cnt[k]),
                           "%s reads file content from a path derived from the request target without passing the containment check: %s" % (c, path),
                           t["span"]["file"], t["span"]["line"], n, {"call_path": path, "sink": c})
    r2.note("call sites removed as sanitised: %d; predicate calls: %d" % (len(cut_sites), len(pred_calls)))
    if preds and not cut_sites:
        r2.violate("C01|R2|predicate-unused", "the containment predicate exists but no call site is dominated by its pass edge")

    # R2b: between the check and the read the path only passes through path-neutral functions (no decoding after validation)
    r2b = chk.rule("R2b-no-decoding-after-the-check", "every call that consumes a value descending from the checked path, after the check, is a path-neutral function (tables/path_neutral.json): a percent-decoder or any other rewriting of the path after validation is reported", floor=5)
    neutral = [re.compile(p_) for p_, _ in ctx.table("path_neutral")["neutral"]]
    for fn, pb, pt, a_root, pass_edges, fail_edges in pred_calls:
        guarded = guard_sets.get((IN_OF(fn), pb), (set(), set()))[0]
        if a_root is None or not (pass_edges or guarded):
            continue
        cfg = cfg_of(fn)
        ld = local_deps(fn)
        seen_callee = {}
        for bid, t in fn.calls():
            if bid == pb or not ((pass_edges and cfg.edges_dominate(pass_edges, bid)) or bid in guarded):
                continue
            uses = [a for a in t["args"] if a.get("k") in ("copy", "move") and a_root in ld.closure(a["l"])]
            if not uses:
                continue
            c = callee_name(t) or t.get("callee") or "<indirect>"
            # a transformation is a function of the four analysed crates (std functions other than known decoders do not rewrite path text
            # into climbing segments); every such function that consumes the checked path must be in the reviewed neutral table
            local_fn = c in F.fns
            decoder = bool(re.search(DECODER_NAMES, c, re.I))
            ok = any(rx.fullmatch(c) for rx in neutral) or (not local_fn and not decoder) or (local_fn and _neutral_by_body(F, neutral, c))
            seen_callee[c] = ok
            r2b.instance({"fn": fn.def_, "callee": c, "line": t["span"]["line"]}, ok)
            if not ok:
                r2b.violate("C01|R2b|%s|%s" % (fn.def_, c),
                            "%s passes the path through %s after the containment check: a transformation that the check has not seen (e.g. percent-decoding '%%2e%%2e') can reintroduce a climbing segment" % (fn.def_, c),
                            t["span"]["file"], t["span"]["line"], fn.def_)

    # R3: refusal is an error status
    r3 = chk.rule("R3-refusal-is-error", "the predicate's fail edge leads to a return that carries an error status constant (>= 400)", floor=1)
    r3_results = []
    for fn, pb, pt, a_root, pass_edges, fail_edges in pred_calls:
        if fn.def_ not in seen:
            continue
        cfg = cfg_of(fn)
        du = du_of(fn)
        ok = False
        status = None
        regions = []
        for (sb, tb) in fail_edges:
            region = cfg.reachable_from(tb, removed_nodes=[e[1] for e in pass_edges if e[1] != tb])
            regions.append({b for b in region if cfg.edge_dominates((sb, tb), b)})
        gs = guard_sets.get((IN_OF(fn), pb))
        if gs is not None:
            # blocks only reached when the predicate said "outside"
            regions.append(gs[1] - (gs[0] | set(feasible_reach(cfg, start_block=pb, init={("bool", pt["dest"]["l"]): False}) or set())))
        if gs is not None:
            regions.append(("closures-only", gs[1]))
        for region in regions:
            closures_only = isinstance(region, tuple)
            if closures_only:
                region = region[1]
            for b in region:
                # the Error may be built by a closure handed to an error-side combinator on the refusing path (`ok_or_else(|| Error{..})`)
                tt = cfg.blocks[b]["term"]
                extra = []
                if tt["k"] == "call" and (not closures_only or (callee_name(tt) or "").endswith(("::ok_or_else", "::map_err", "::or_else", "::unwrap_or_else"))):
                    for cn in tt.get("fn_items", []):
                        cf = F.fns.get(cn)
                        if cf is not None and cf.kind == "Closure":
                            cdu = du_of(cf)
                            for cb in cf.blocks:
                                for cs in cb["stmts"]:
                                    if cs["k"] == "assign" and cs["rv"]["k"] == "aggregate" and cs["rv"].get("adt", "").endswith("response::Error"):
                                        extra.append(cdu.val_operand(cs["rv"]["ops"][0]))
                for v in extra:
                    if v[0] == "const" and isinstance(v[1], dict):
                        status = v[1].get("fields", {}).get("status_code")
                        if isinstance(status, int) and status >= 400:
                            ok = True
                if closures_only:
                    continue
                for s in cfg.blocks[b]["stmts"]:
                    if s["k"] == "assign" and s["rv"]["k"] == "aggregate" and s["rv"].get("adt", "").endswith("response::Error"):
                        v = du.val_operand(s["rv"]["ops"][0])
                        if v[0] == "const" and isinstance(v[1], dict):
                            status = v[1].get("fields", {}).get("status_code")
                            if isinstance(status, int) and status >= 400:
                                ok = True
        r3_results.append((fn, pt, status, ok))
    # the check that guards the reads (R2 cuts the call graph at its pass edges) must refuse with an error; an additional, advisory use of
    # the predicate (e.g. inside the condition of an optional fast path that otherwise falls through to the guarded code) need not
    guarding = {id(x[0]) for x in pred_calls if x[4]}
    any_ok = any(ok for _, _, _, ok in r3_results)
    for fn, pt, status, ok in r3_results:
        r3.instance({"fn": fn.def_, "predicate_call_line": pt["span"]["line"], "refusal_status": status}, ok or any_ok)
    if r3_results and not any_ok:
        fn, pt, status, ok = r3_results[0]
        r3.violate("C01|R3|%s" % fn.def_, "%s: the refusing edge of the containment check does not return an Error with a 4xx/5xx status" % fn.def_, fn.file, pt["span"]["line"], fn.def_)
    chk.assumptions += ["taint is flow-insensitive and over-approximate (any value computed from a request_uri read, through any call, is request-derived)",
                        "a call site counts as sanitised when the predicate's pass edge dominates it and the checked value is an ancestor of one of its arguments",
                        "symbolic links placed inside the served directory are followed after the check, as the property allows"]
    chk.undecided = ["percent-encoded dots are not decoded on the path by this code base (R2b keeps decoders out of the flow after the check); that no other spelling than '..' climbs on the target platform"] + getattr(chk, "undecided_extra", [])
    return chk.finish()
