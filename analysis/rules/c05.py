"""C05 — responses are well-formed, self-consistent HTTP and delivered in full (6 structural clauses)."""
import json, re
from ..callgraph import callee_name
from ..cfg import cfg_of
from ..dataflow import du_of, place_key, val_ref_target, proj_key
from ..framework import Check
from ..guards import strip_casts, const_int

STRIPPER_PATTERNS = {"\r", "\n"}


def norm_phrase(s):
    return re.sub(r"[-' ]", "", s).lower()


def const_str(v):
    if v[0] == "const" and isinstance(v[1], str):
        return v[1]
    if v[0] == "call" and v[1] and (v[1].endswith("to_string") or v[1].endswith("::to_owned") or v[1].endswith("String::from") or "as std::convert::From<&str>>::from" in v[1]) and v[2]:
        return const_str(v[2][0])
    return None


def header_aggregates(fn):
    """(block, stmt, name_val, value_val) for every `Header{name, value}` aggregate in fn"""
    du = du_of(fn)
    out = []
    for b in fn.blocks:
        if b["cleanup"]:
            continue
        for s in b["stmts"]:
            if s["k"] == "assign" and s["rv"]["k"] == "aggregate" and s["rv"].get("adt") == "header::Header":
                ops = s["rv"]["ops"]
                fields = s["rv"]["fields"]
                d = dict(zip(fields, ops))
                out.append((b["id"], s, du.val_operand(d["name"]), du.val_operand(d["value"])))
    return out


def status_entry_of(v, depth=0):
    """identity of the status entry a status_code / reason_phrase value is taken from"""
    if depth > 8:
        return None
    if v[0] == "const":
        item = v[2] or ""
        m = re.search(r"STATUS_CODE_REASON_PHRASE\.(n\d+\w*)", item)
        if m:
            return "const:" + m.group(1)
        return None
    if v[0] == "call" and v[2]:
        return status_entry_of(v[2][0], depth + 1)
    if v[0] in ("cast", "unop"):
        return status_entry_of(v[2], depth + 1)
    if v[0] in ("place", "ref"):
        l, proj = v[1]
        # (*entry).status_code / (*entry).reason_phrase of a local of type &StatusCodeReasonPhrase
        base = tuple(p for p in proj if not (isinstance(p, tuple) and p[0] == "f" and p[2] in ("status_code", "reason_phrase")) and p != "*")
        return "place:%d:%s" % (l, base)
    return None


def run(ctx):
    F, G, R = ctx.F, ctx.G, ctx.R
    chk = Check("C05", ctx.tier, "Seven structural clauses of well-formed, fully delivered responses: write_all + flush, CR/LF-free reflected headers, paired status line, bodiless HEAD/OPTIONS, Content-Length from the emitted body, header block shape.")
    chk.technique = "MIR call-site rules, constant/table extraction, forward pairing of field assignments, edge dominance of the body concatenation by the method tests"
    chk.analysed = ctx.analysed_summary()
    roots = R.connection_roots()
    seen = G.reachable(roots)
    local = sorted(n for n in seen if n in F.fns and F.fns[n].crate == "rws" and F.fns[n].kind != "Promoted")

    # ---- R1 full delivery
    r1 = chk.rule("R1-full-delivery", "response bytes are sent to the transport with Write::write_all (a bare Write::write whose count is not re-submitted is a short-write truncation)", floor=1)
    cnt = {}
    for n in local:
        fn = F.fns[n]
        for bid, t in fn.calls():
            decl = t.get("callee") or ""
            name = callee_name(t) or ""
            if decl not in ("std::io::Write::write", "std::io::Write::write_all", "std::io::Write::write_vectored"):
                continue
            recv = (t.get("arg_tys") or [""])[0]
            if re.search(r"(Vec<u8>|Stdout|Stderr|Cursor<|String|BufWriter<std::io::Std)", recv):
                continue
            ok = decl == "std::io::Write::write_all"
            r1.instance({"fn": n, "call": decl, "line": t["span"]["line"], "receiver": recv[:60]}, ok)
            if not ok:
                cnt[n] = cnt.get(n, 0) + 1
                r1.violate("C05|R1|%s|%s|%d" % (n, decl, cnt[n]),
                           "%s sends response bytes with %s and only tests the result for Ok: a transport that accepts the buffer in pieces truncates the response" % (n, decl),
                           t["span"]["file"], t["span"]["line"], n)

    # ---- R1b: a successful write is flushed before the function returns
    r1b = chk.rule("R1b-flushed-after-write", "from every write_all on the transport, on the paths where it returned Ok, the function cannot return without a Write::flush on the transport (the transport is any `impl Write`: bytes left in a buffering writer have not reached the peer)", floor=1)
    from ..loops import feasible_reach
    for n in local:
        fn0 = F.fns[n]
        if not any((t.get("callee") or "") == "std::io::Write::write_all" for _, t in fn0.calls()):
            continue
        fn = ctx.inl(fn0)
        cfg = cfg_of(fn)
        def _transport(t):
            recv = (t.get("arg_tys") or [""])[0]
            return not re.search(r"(Vec<u8>|Stdout|Stderr|Cursor<|String|BufWriter<std::io::Std)", recv)
        flushes = {bid for bid, t in fn.calls() if (t.get("callee") or "") == "std::io::Write::flush" and _transport(t)}
        # `write_all(..).and_then(|_| stream.flush())`: the flush sits in a closure handed to a combinator of the write's result
        for bid, t in fn.calls():
            for cn in t.get("fn_items", []):
                cf = F.fns.get(cn)
                if cf is not None and cf.kind == "Closure" and any((ct.get("callee") or "") == "std::io::Write::flush" for _, ct in ctx.inl(cf).calls()):
                    if (callee_name(t) or "").endswith(("::and_then", "::map", "::and")):
                        flushes.add(bid)
        k = 0
        for bid, t in fn.calls():
            if (t.get("callee") or "") != "std::io::Write::write_all" or not _transport(t) or cfg.blocks[bid].get("cleanup"):
                continue
            k += 1
            d = t.get("dest")
            init = {d["l"]: "Ok", ("adt", d["l"]): "std::result::Result"} if d is not None and not d["p"] else None
            reach = feasible_reach(cfg, start_block=bid, avoid=flushes, init=init)
            rets = None if reach is None else sorted(b for b in reach if cfg.blocks[b]["term"]["k"] == "return")
            ok = reach is None or not rets
            r1b.instance({"fn": n, "write_line": t["span"]["line"], "flush_sites": len(flushes), "returns_reached_without_flush": rets if rets is not None else "walk too large (assumed fine)"}, ok)
            if not ok:
                r1b.violate("C05|R1b|%s|%d" % (n, k), "%s can return after a successful write_all (line %d) without flushing the transport" % (n, t["span"]["line"]), t["span"]["file"], t["span"]["line"], n)

    # ---- R2 reflected text cannot split headers
    r2 = chk.rule("R2-parsed-headers-are-stripped", "every Header built by the request parser has name and value produced by the CR/LF stripper (or constants); the stripper removes both \\r and \\n", floor=2)
    parse_roots = [n for n in ("request::Request::parse", "request::Request::parse_request") if n in F.fns]
    pseen = G.reachable(parse_roots)
    stripper = None
    for n, fn in F.fns.items():
        if fn.crate != "rws" or fn.kind == "Promoted":
            continue
        pats = []
        for bid, t in fn.calls():
            if callee_name(t) == "std::str::<impl str>::replace" and len(t["args"]) == 3:
                du = du_of(fn)
                a, b = du.val_operand(t["args"][1]), du.val_operand(t["args"][2])
                if a[0] == "const" and b[0] == "const" and b[1] == "":
                    pats.append(a[1])
        if STRIPPER_PATTERNS <= set(pats) and fn.nargs == 1 and fn.ret == "std::string::String":
            stripper = n
    if stripper is None:
        r2.violate("C05|R2|no-stripper", "no function removes both \\r and \\n from a string (the CR/LF stripper of parsed header lines is missing or incomplete)")
    else:
        r2.instance({"stripper": stripper, "removes": sorted(STRIPPER_PATTERNS)})
    nagg = 0
    for n in sorted(pseen):
        fn = F.fns.get(n)
        if fn is None or fn.crate != "rws":
            continue
        for bid, s, nv, vv in header_aggregates(fn):
            nagg += 1
            for what, v in (("name", nv), ("value", vv)):
                ok = const_str(v) is not None or _from_call(du_of(fn), v, stripper)
                r2.instance({"fn": n, "field": what, "line": s["span"]["line"], "source": "constant" if const_str(v) is not None else ("stripper" if ok else str(v)[:80])}, ok)
                if not ok:
                    r2.violate("C05|R2|%s|%s" % (n, what), "%s builds a request Header whose %s is not passed through %s: a CR or LF of the request line could be reflected into a response header" % (n, what, stripper),
                               s["span"]["file"], s["span"]["line"], n)
    if nagg == 0:
        r2.violate("C05|R2|no-header-built", "the request parser builds no Header aggregate (anchor missing)")

    # ---- R2c decoded request data does not reach a response header unstripped
    r2c = chk.rule("R2c-decoded-data-in-headers-is-stripped", "no Header built in connection-reachable code takes its name or value from the output of a decoder of request data (query / form decoding, percent_decode: `%0D%0A` becomes CR LF there) unless it passes through the CR/LF stripper or a character filter; expected count of such headers today: zero")
    DECODERS = ("request::Request::get_uri_query", "request::Request::get_query", "body::form_urlencoded::FormUrlEncoded::parse", "url::URL::parse_query",
                "url::URL::percent_decode", "url_search_params::decode_uri_component", "url_search_params::parse_url_search_params", "body::multipart_form_data::FormMultipartData::parse")
    FILTERS = re.compile(r"ext::string_ext::StringExt::(filter_ascii_control_characters|truncate_new_line_carriage_return)|.*::retain$|.*Iterator::filter$|.*::is_ascii_alphanumeric$|.*::is_alphanumeric$|.*::escape_default$")
    from ..taint import local_deps as _ld, Taint as _Taint

    class DecodedTaint(_Taint):
        """seeds: what a decoder of request data returns (and the decoded `query` map of a parsed URL)"""
        def seeds(self, fn):
            ld_ = _ld(fn)
            out = {l for l, fields in ld_.field_reads.items() if "query" in fields}
            for _, t_ in fn.calls():
                if callee_name(t_) in DECODERS and t_["dest"] is not None:
                    out.add(t_["dest"]["l"])
            return out
    dt = DecodedTaint(F, local, [], G=G)
    nh = 0
    from ..inline import is_private_helper as _iph
    for n in local:
        fn = F.fns[n]
        if fn.crate != "rws" or fn.kind == "Closure" or _iph(F, n):
            continue        # private helpers and local closures are judged inside the function they are inlined into (A11)
        fn = ctx.inl(fn)
        aggs = header_aggregates(fn)
        if not aggs or any(callee_name(t_) == "response::Response::generate_body" for _, t_ in fn.calls()):
            continue        # the serialisers build the framing headers from the content ranges of the Response they are given (R5)
        tl = dt.tainted_locals(fn)
        if not tl:
            continue
        ld = _ld(fn)
        filt_dsts = {t["dest"]["l"] for _, t in fn.calls() if t["dest"] is not None and ((callee_name(t) or "") == stripper or FILTERS.fullmatch(callee_name(t) or ""))}
        k = 0
        for bid, st, nv, vv in aggs:
            if const_str(nv) in ("Content-Type", "Content-Length", "Content-Range"):
                continue        # framing headers: their source is decided by R5 (the emitted content range)
            d_ = dict(zip(st["rv"]["fields"], st["rv"]["ops"]))
            for what in ("name", "value"):
                o = d_.get(what)
                if o is None or o.get("k") not in ("copy", "move") or o["l"] not in tl:
                    continue
                # the decimal rendering of a number cannot carry a line break, whatever the number was computed from
                vv_ = du_of(fn).val_operand(o)
                if vv_[0] == "call" and vv_[1] and vv_[1].endswith("::to_string") and vv_[2] and vv_[2][0][0] in ("ref", "place") \
                        and (fn.local_ty(vv_[2][0][1][0]) or "").lstrip("&") in ("u8", "u16", "u32", "u64", "u128", "usize", "i8", "i16", "i32", "i64", "i128", "isize", "f32", "f64", "bool"):
                    continue
                nh += 1
                k += 1
                ok = bool(ld.closure(o["l"]) & filt_dsts)
                r2c.instance({"fn": n, "header": const_str(nv) or "?", "field": what, "line": st["span"]["line"], "passes_a_filter": ok}, ok)
                if not ok:
                    r2c.violate("C05|R2c|%s|%s|%d" % (n, const_str(nv) or "?", k), "%s builds the header %s whose %s is computed from decoded request data (query / form decoding, percent_decode) without a CR/LF filter: `%%0D%%0A` in the request becomes a line break in the response head" % (n, const_str(nv) or "?", what), st["span"]["file"], st["span"]["line"], n)

    # ---- R3 status line pairs + IANA
    r3 = chk.rule("R3-status-line-pairs", "every assignment of Response.status_code is followed by the reason_phrase of the same status entry; Response aggregates take both from one entry", floor=10)
    r3b = chk.rule("R3b-status-table-registered", "every entry of the status table has a registered code, the registered phrase for it, and a field name carrying the same code", floor=55)
    tbl = ctx.table("iana_status")["codes"]
    entries = (F.consts.get("response::STATUS_CODE_REASON_PHRASE") or {}).get("v", {}).get("fields", {})
    for k, v in entries.items():
        f = v.get("fields", {})
        code, phrase = f.get("status_code"), f.get("reason_phrase")
        m = re.match(r"n(\d{3})_", k)
        ok = str(code) in tbl and norm_phrase(phrase or "") in [norm_phrase(x) for x in tbl[str(code)]] and m is not None and int(m.group(1)) == code
        r3b.instance({"entry": k, "code": code, "phrase": phrase}, ok)
        if not ok:
            r3b.violate("C05|R3b|%s" % k, "status entry %s pairs code %s with phrase %r, which is not the registered pairing%s" % (k, code, phrase, "" if str(code) in tbl else " (code not registered)"),
                        F.consts["response::STATUS_CODE_REASON_PHRASE"]["span"]["file"], F.consts["response::STATUS_CODE_REASON_PHRASE"]["span"]["line"])
    for n in local:
        fn = F.fns[n]
        du = du_of(fn)
        cfg = cfg_of(fn)
        # linear scan of each block chain: events in program order per block, following single-successor chains
        events = {}
        for bid in cfg.live_blocks():
            b = cfg.blocks[bid]
            ev = []
            for s in b["stmts"]:
                if s["k"] == "assign":
                    pk = place_key(s["place"])
                    if pk[1] and pk[1][-1][0] == "f" and pk[1][-1][2] in ("status_code", "reason_phrase") and "response::Response" in _base_ty(fn, s["place"]):
                        ev.append((pk[1][-1][2], (pk[0], pk[1][:-1]), status_entry_of(du.val_rvalue(s["rv"], 0, bid)), s["span"]["line"]))
                    if s["rv"]["k"] == "aggregate" and s["rv"].get("adt") == "response::Response":
                        d = dict(zip(s["rv"]["fields"], s["rv"]["ops"]))
                        e1 = status_entry_of(du.val_operand(d["status_code"]))
                        e2 = status_entry_of(du.val_operand(d["reason_phrase"]))
                        ok = e1 is not None and e1 == e2
                        r3.instance({"fn": n, "line": s["span"]["line"], "aggregate": True, "entry": e1}, ok)
                        if not ok:
                            r3.violate("C05|R3|%s|aggregate" % n, "%s builds a Response whose status_code comes from %s and reason_phrase from %s" % (n, e1, e2), s["span"]["file"], s["span"]["line"], n)
            t = b["term"]
            if t["k"] == "call":
                pk = place_key(t["dest"])
                if pk[1] and pk[1][-1][0] == "f" and pk[1][-1][2] in ("status_code", "reason_phrase") and "response::Response" in _base_ty(fn, t["dest"]):
                    ev.append((pk[1][-1][2], (pk[0], pk[1][:-1]), status_entry_of(du.val_call(t, 0, bid)), t["span"]["line"]))
            events[bid] = ev
        k = 0
        matched = set()
        for bid in sorted(events):
            for i, (what, base, entry, line) in enumerate(events[bid]):
                if what != "status_code":
                    continue
                k += 1
                # find the next reason_phrase assignment to the same base, in this block or along the unique-successor chain
                nxt = None
                cur, idx, hops = bid, i + 1, 0
                while nxt is None and hops < 12:
                    for j2, (w2, b2, e2, l2) in enumerate(events.get(cur, [])[idx:]):
                        if b2 == base:
                            nxt = (w2, e2, l2)
                            if w2 == "reason_phrase":
                                matched.add((cur, idx + j2))
                            break
                    if nxt is not None or len(cfg.succ[cur]) != 1:
                        break
                    cur, idx, hops = cfg.succ[cur][0], 0, hops + 1
                ok = nxt is not None and nxt[0] == "reason_phrase" and entry is not None and nxt[1] == entry
                r3.instance({"fn": n, "line": line, "status_entry": entry, "phrase_entry": nxt[1] if nxt else None}, ok)
                if not ok:
                    r3.violate("C05|R3|%s|pair-%d" % (n, k), "%s sets status_code from %s at line %d but the reason_phrase that follows comes from %s" % (n, entry, line, nxt[1] if nxt else "nowhere"),
                               fn.file, line, n)
        # the converse: a reason_phrase that is not the partner of a status_code assignment just before it keeps whatever code was there
        kk = 0
        for bid in sorted(events):
            for i, (what, base, entry, line) in enumerate(events[bid]):
                if what != "reason_phrase":
                    continue
                kk += 1
                ok = (bid, i) in matched
                if not ok:
                    r3.instance({"fn": n, "line": line, "phrase_entry": entry, "status_entry": None}, False)
                    r3.violate("C05|R3|%s|lone-phrase-%d" % (n, kk), "%s sets reason_phrase from %s at line %d without setting status_code from the same entry just before it: the status line keeps the code it had (e.g. '501 OK')" % (n, entry, line), fn.file, line, n)

    serialiser_clauses(ctx, chk, "C05", seen)
    chk.assumptions += ["header values other than those parsed from the request are constants, configuration or numbers (no CR/LF); request header lines are read with read_until('\\n'), so CR/LF can only sit at the end of a line",
                        "reason phrases are compared with the IANA registry modulo case, hyphens and spaces"]
    chk.undecided = ["validation of actual wire bytes by an independent HTTP parser; duplicate *default* headers are C10's clause"]
    return chk.finish()


def serialiser_clauses(ctx, chk, prop, seen):
    """R4 HEAD/OPTIONS carry no body ; R5 Content-Length ; R6 header block shape (shared with C09)"""
    F, G, R = ctx.F, ctx.G, ctx.R
    r4 = chk.rule("R4-head-options-bodiless", "in the server's serialiser the body reaches the returned bytes only where both `method == HEAD` and `method == OPTIONS` are false", floor=1)
    r5 = chk.rule("R5-content-length-is-body-length", "Content-Length is to_string(len(cr.body)) and Content-Type is cr.content_type of the single content range whose body is emitted", floor=4)
    r6 = chk.rule("R6-header-block-shape", "per header the serialiser appends name, the ': ' separator constant, value, CRLF; framing headers are built in mutually exclusive branches", floor=2)
    serialisers = [n for n, fn in F.fns.items() if fn.crate == "rws" and fn.kind != "Promoted" and fn.ret == "std::vec::Vec<u8>"
                   and any(callee_name(t) == "response::Response::generate_body" for _, t in fn.calls())]
    if len(serialisers) < 2:
        r5.violate(prop + "|R5|anchor-missing|serialisers", "expected the two response serialisers (callers of Response::generate_body returning Vec<u8>), found %r" % serialisers)
    for n in sorted(serialisers):
        fn = ctx.inl(F.fns[n])        # status-line / header-line helpers are part of the serialiser (A11)
        du = du_of(fn)
        cfg = cfg_of(fn)
        in_server = n in seen
        # R5
        aggs = header_aggregates(fn)
        by_name = {}
        for bid, s, nv, vv in aggs:
            by_name.setdefault(const_str(nv), []).append((bid, s, vv))
        for hname, want in (("Content-Length", "body"), ("Content-Type", "content_type")):
            lst = by_name.get(hname, [])
            if not lst:
                r5.violate((prop + "|R5|%s|%s|missing") % (n, hname), "%s never builds a %s header" % (n, hname), fn.file, fn.span["line"], n)
            for bid, s, vv in lst:
                src = _field_source(du, vv)
                if hname == "Content-Type" and const_str(vv) is None and src is None:
                    # the multipart Content-Type is a join of constants
                    src_ok = _all_const_join(du, vv)
                    r5.instance({"fn": n, "header": hname, "value": "multipart constant join" if src_ok else str(vv)[:60], "line": s["span"]["line"]}, src_ok)
                    if not src_ok:
                        r5.violate((prop + "|R5|%s|%s|source") % (n, hname), "%s: %s value does not come from the content range (%s)" % (n, hname, str(vv)[:80]), s["span"]["file"], s["span"]["line"], n)
                    continue
                ok = src is not None and src[1] == want and src[0] in ("content_range_list",) and (hname != "Content-Length" or src[2] == "len")
                r5.instance({"fn": n, "header": hname, "value_from": src, "line": s["span"]["line"]}, ok)
                if not ok:
                    r5.violate((prop + "|R5|%s|%s|source") % (n, hname), "%s: the %s header is computed from %s, not from %s of the emitted content range" % (n, hname, src, "len(body)" if want == "body" else want),
                               s["span"]["file"], s["span"]["line"], n)
        # exclusivity of framing headers
        for hname, lst in by_name.items():
            if hname in ("Content-Type", "Content-Length", "Content-Range") and len(lst) > 1:
                conds = [_len_condition(cfg, du, bid) for bid, _, _ in lst]
                ok = all(c is not None for c in conds) and _disjoint(conds)
                r6.instance({"fn": n, "header": hname, "built_under": conds}, ok)
                if not ok:
                    r6.violate((prop + "|R6|%s|%s|twice") % (n, hname), "%s can build %s twice on one path (branches %s are not mutually exclusive)" % (n, hname, conds), fn.file, fn.span["line"], n)
                # and together they cover every non-empty list of ranges: a response with a body always says what it is
                if hname == "Content-Type" and all(c is not None for c in conds) and in_server:
                    def _sat(c, n_):
                        return all({"Eq": n_ == k, "Ne": n_ != k, "Gt": n_ > k, "Ge": n_ >= k, "Lt": n_ < k, "Le": n_ <= k}[op] for op, k in c)
                    gaps = [n_ for n_ in range(1, 12) if not any(_sat(c, n_) for c in conds)]
                    r6.instance({"fn": n, "header": hname, "built_under": conds, "range_counts_without_it": gaps}, not gaps)
                    if gaps:
                        r6.violate((prop + "|R6|%s|%s|gap") % (n, hname), "%s builds no %s for a response with %s content range(s) (branches %s): the multipart body goes out unlabelled and cannot be read back" % (n, hname, gaps[:3], conds), fn.file, fn.span["line"], n)
        # R6 shape of the header loop: name, ': ', value, CRLF appended in that order (push_str, extend_from_slice or one format!)
        seqs = emission_sequences(ctx, fn)
        pat = ["field:name", "const:: ", "field:value", "const:\r\n"]
        found = any(q[i:i + 4] == pat for q in seqs for i in range(len(q)))
        r6.instance({"fn": n, "header_line_pattern": "name, ': ', value, CRLF", "found": found}, found)
        if not found:
            r6.violate((prop + "|R6|%s|line-shape") % n, "%s does not append header lines as name, ': ', value, CRLF (pushes seen: %s)" % (n, (max(seqs, key=len) if seqs else [])[:12]), fn.file, fn.span["line"], n)
        # R4 only for the serialiser the server uses
        if in_server:
            body_locals = [t["dest"]["l"] for _, t in fn.calls() if callee_name(t) == "response::Response::generate_body"]
            method_tests = {}
            for m in ("HEAD", "OPTIONS"):
                _h, _f = method_edges(cfg, du, m)
                if _f:
                    method_tests[m] = _f
            uses = []
            for bid in cfg.live_blocks():
                b = cfg.blocks[bid]
                for s in b["stmts"]:
                    if s["k"] == "assign":
                        for o in s["rv"].get("ops", []):
                            if o.get("k") in ("copy", "move") and o["l"] in body_locals:
                                uses.append((bid, s["span"]["line"]))
                t = b["term"]
                if t["k"] == "call" and callee_name(t) != "response::Response::generate_body":
                    for a in t["args"]:
                        if a.get("k") in ("copy", "move") and a["l"] in body_locals:
                            uses.append((bid, t["span"]["line"]))
                    # `bytes.extend_from_slice(&body)` / `bytes.append(&mut body)`: the body reaches the output through a reference
                    if re.search(r"::(extend_from_slice|append|extend|write_all|write|push_str)$", callee_name(t) or ""):
                        for a in t["args"][1:]:
                            tgt = val_ref_target(du, du.val_operand(a)) if a.get("k") in ("copy", "move") else None
                            if tgt is not None and du.canon(tgt)[0] in body_locals:
                                uses.append((bid, t["span"]["line"]))
            if not body_locals or not uses:
                r4.violate((prop + "|R4|%s|anchor-missing") % n, "%s: the body produced by generate_body is never used (anchor missing)" % n, fn.file, fn.span["line"], n)
            for bid, line in uses:
                ok = all(m in method_tests and cfg.edges_dominate(method_tests[m], bid) for m in ("HEAD", "OPTIONS"))
                r4.instance({"fn": n, "body_used_at_line": line, "dominated_by_not_HEAD_and_not_OPTIONS": ok}, ok)
                if not ok:
                    r4.violate((prop + "|R4|%s|body-use") % n, "%s: the body is appended to the response at line %d on a path where the method may be HEAD or OPTIONS" % (n, line), fn.file, line, n)


def _base_ty(fn, place):
    """type of the local at the base of a place (through refs)"""
    return fn.local_ty(place["l"])


def _from_call(du, v, callee, depth=0):
    if callee is None or depth > 6:
        return False
    if v[0] == "call":
        if v[1] == callee:
            return True
        if v[1] and (v[1].endswith("to_string") or "clone" in v[1]) and v[2]:
            return _from_call(du, v[2][0], callee, depth + 1)
    if v[0] == "place":
        # multi-def local: every definition must come from the stripper or a constant
        l, proj = v[1]
        if proj:
            return False
        defs = du.defs.get(l, [])
        if not defs:
            return False
        for d in defs:
            if d[0] == "call":
                vc = du.val_call(d[3], 0, d[1])
                if const_str(vc) is None and not _from_call(du, vc, callee, depth + 1):
                    return False
            else:
                vv = du.val_rvalue(d[3], 0, d[1])
                if const_str(vv) is None and not _from_call(du, vv, callee, depth + 1):
                    return False
        return True
    return False


def _field_source(du, v, depth=0):
    """('content_range_list', field, 'len'|None) when v = to_string([len](X.field)) with X an element of a content_range_list"""
    if depth > 8:
        return None
    if v[0] == "call" and v[2]:
        name = v[1] or ""
        if name.endswith("::len"):
            inner = _field_source(du, v[2][0], depth + 1)
            if inner:
                return (inner[0], inner[1], "len")
            return None
        return _field_source(du, v[2][0], depth + 1)
    if v[0] in ("ref", "place"):
        l, proj = v[1]
        fields = [p[2] for p in proj if isinstance(p, tuple) and p[0] == "f"]
        if fields:
            f = fields[-1]
            if len(fields) >= 2 and fields[-2] == "content_range_list":
                # `response.content_range_list[0].body` / the binding of a slice pattern `[single]`: the element's origin is the field before it
                return (fields[-2], f, None)
            # the base must be an element obtained from `.content_range_list`
            base_v = du.val_place((l, ()))
            origin = _origin_field(du, base_v)
            return (origin, f, None)
        vv = du.val_place((l, ()))
        if vv != v and vv[0] != "place":
            return _field_source(du, vv, depth + 1)
    return None


def _origin_field(du, v, depth=0):
    if depth > 8:
        return None
    if v[0] == "call" and v[2]:
        return _origin_field(du, v[2][0], depth + 1)
    if v[0] in ("ref", "place"):
        fields = [p[2] for p in v[1][1] if isinstance(p, tuple) and p[0] == "f"]
        if fields:
            return fields[-1]
        vv = du.val_place((v[1][0], ()))
        if vv != v and vv[0] != "place":
            return _origin_field(du, vv, depth + 1)
    return None


def _all_const_join(du, v, depth=0):
    if depth > 6:
        return False
    if v[0] == "const":
        return True
    if v[0] == "call" and v[2]:
        return all(_all_const_join(du, a, depth + 1) for a in v[2])
    if v[0] == "aggregate":
        return all(_all_const_join(du, a, depth + 1) for a in v[3])
    if v[0] in ("ref", "place"):
        vv = du.val_place(v[1]) if v[0] == "place" else du.val_place(v[1])
        if vv[0] in ("const", "aggregate", "call") and vv != v:
            return _all_const_join(du, vv, depth + 1)
        return False
    if v[0] == "cast":
        return _all_const_join(du, v[2], depth + 1)
    return False


def content_type_branch_gaps(ctx, n):
    """(conditions under which serialiser n builds Content-Type, range counts >= 1 that none of them covers); None when n builds one
    Content-Type only or a condition is not a comparison of the range count with a constant"""
    fn = ctx.inl(ctx.F.fns[n])
    du, cfg = du_of(fn), cfg_of(fn)
    lst = [(bid, s) for bid, s, nv, vv in header_aggregates(fn) if const_str(nv) == "Content-Type"]
    if len(lst) < 2:
        return None
    conds = [_len_condition(cfg, du, bid) for bid, _ in lst]
    if any(c is None for c in conds):
        return None
    def _sat(c, n_):
        return all({"Eq": n_ == k, "Ne": n_ != k, "Gt": n_ > k, "Ge": n_ >= k, "Lt": n_ < k, "Le": n_ <= k}[op] for op, k in c)
    return conds, [n_ for n_ in range(1, 12) if not any(_sat(c, n_) for c in conds)]


def _len_condition(cfg, du, block):
    """the (op, k) comparisons of a `.len()` with a constant whose true edge dominates `block`"""
    out = []
    for sb in cfg.live_blocks():
        st = cfg.blocks[sb]["term"]
        if st["k"] != "switch":
            continue
        v = strip_casts(du.val_operand(st["discr"]))
        if v[0] == "call" and (v[1] or "").endswith("::len") and st.get("discr_ty") != "bool":
            # `match list.len() { 0 => .., 1 => .., _ => .. }`: the edge of value k says len == k, the default edge len != every listed k
            for val, tb in st["targets"]:
                if cfg.edge_dominates((sb, tb), block) and tb != st["otherwise"]:
                    out.append(("Eq", val))
            if cfg.edge_dominates((sb, st["otherwise"]), block) and all(tb != st["otherwise"] for _, tb in st["targets"]):
                for val, _tb in st["targets"]:
                    out.append(("Ne", val))
            continue
        if v[0] != "binop" or v[1] not in ("Eq", "Gt", "Ge", "Lt", "Le", "Ne"):
            continue
        a, b = strip_casts(v[2]), strip_casts(v[3])
        if ((a[0] == "call" and (a[1] or "").endswith("::len")) or (a[0] == "unop" and a[1] == "PtrMetadata")) and const_int(b) is not None:
            for val, tb in st["targets"]:
                edge_true = (sb, st["otherwise"]) if val == 0 else (sb, tb)
                edge_false = (sb, tb) if val == 0 else (sb, st["otherwise"])
                if edge_true[1] == edge_false[1]:
                    continue
                if cfg.edge_dominates(edge_true, block):
                    out.append((v[1], const_int(b)))
                elif cfg.edge_dominates(edge_false, block):
                    out.append(({"Eq": "Ne", "Ne": "Eq", "Gt": "Le", "Le": "Gt", "Lt": "Ge", "Ge": "Lt"}[v[1]], const_int(b)))
    return sorted(set(out)) or None


def _disjoint(conds):
    def sat(c, n):
        for op, k in c:
            if not {"Eq": n == k, "Ne": n != k, "Gt": n > k, "Ge": n >= k, "Lt": n < k, "Le": n <= k}[op]:
                return False
        return True
    for n in range(0, 12):
        if sum(1 for c in conds if sat(c, n)) > 1:
            return False
    return True


def _push_desc(du, v, depth=0, upv=None):
    if v[0] == "const" and isinstance(v[1], str):
        return "const:" + v[1]
    if v[0] == "call" and v[2] and depth < 5:
        return _push_desc(du, v[2][0], depth + 1, upv)
    if v[0] in ("ref", "place") and upv is not None and v[1][0] == 1:
        r = upv(v)
        if r is not None:
            return _push_desc(r[0], r[1], depth + 1)
    if v[0] in ("ref", "place"):
        # `args.0` of the tuple that format_args! builds: the captured operand itself
        pr = [p for p in v[1][1] if p != "*"]
        d = du.unique_def(v[1][0])
        if pr and isinstance(pr[0], tuple) and pr[0][0] == "f" and d is not None and d[0] == "assign" and d[3]["k"] == "aggregate" and d[3].get("agg") == "tuple" \
                and pr[0][1] < len(d[3]["ops"]) and depth < 5 and not du.has_partial_writes(v[1][0]):
            inner = du.val_operand(d[3]["ops"][pr[0][1]])
            if len(pr) == 1:
                return _push_desc(du, inner, depth + 1, upv)
        fields = [p[2] for p in v[1][1] if isinstance(p, tuple) and p[0] == "f"]
        if fields:
            return "field:" + fields[-1]
        vv = du.val_place((v[1][0], ()))
        if vv != v and depth < 5 and vv[0] != "place":
            return _push_desc(du, vv, depth + 1, upv)
    return "other"


def upvar_value(ctx, fn, v):
    """a place reached through the closure environment (`_1`) of closure `fn` -> the value the parent captured, else None"""
    if fn.kind != "Closure" or v[0] not in ("ref", "place") or v[1][0] != 1:
        return None
    idx = [p[1] for p in v[1][1] if isinstance(p, tuple) and p[0] == "f"]
    parent = ctx.F.fns.get(fn.parent)
    if not idx or parent is None:
        return None
    pdu = du_of(parent)
    for b in parent.blocks:
        for s in b["stmts"]:
            if s["k"] == "assign" and s["rv"]["k"] == "aggregate" and s["rv"].get("closure") == fn.def_ and idx[0] < len(s["rv"]["ops"]):
                return pdu, pdu.val_operand(s["rv"]["ops"][idx[0]])
    return None


def emission_sequences(ctx, fn):
    """what a serialiser appends, in order, as descriptors ('field:name', 'const: : ', ...): one sequence for its push_str calls and one
    per format!(..) in the function and in the closures it builds (`headers.iter().map(|h| format!("{}{}{}{}", h.name, SEP, h.value, CRLF))`)"""
    from ..fmtargs import format_parts, FORMAT_FNS
    out = []
    from ..inline import IN_INFO
    owners = [fn.def_] + list(IN_INFO.get(id(fn), {}).get("callees", []))
    bodies = [fn]
    for o_ in dict.fromkeys(owners):
        for e in ctx.G.out.get(o_, []):
            if e.dst in ctx.F.fns and ctx.F.fns[e.dst].kind == "Closure":
                cb = ctx.inl(ctx.F.fns[e.dst])        # the line may be put together by a private helper called from the closure
                if all(cb is not b_ for b_ in bodies):
                    bodies.append(cb)

    def array_elements(du, v, depth=0):
        """the element values of `[a, b, c]` behind the reference / unsizing cast handed to concat / join"""
        if depth > 6:
            return None
        if v[0] == "cast":
            return array_elements(du, v[2], depth + 1)
        if v[0] == "aggregate" and v[1] == "array":
            return list(v[3])
        if v[0] in ("ref", "place"):
            vv = du.val_place((v[1][0], tuple(e for e in v[1][1] if e != "*")))
            if vv != v and vv[0] != "place":
                return array_elements(du, vv, depth + 1)
        return None
    for body in bodies:
        du = du_of(body)
        cfg = cfg_of(body)

        def desc(v, body=body, du=du):
            return _push_desc(du, v, 0, (lambda x: upvar_value(ctx, body, x)) if body.kind == "Closure" else None)
        seq = []
        for bid in cfg.rpo():
            t = cfg.blocks[bid]["term"]
            if t["k"] != "call":
                continue
            c = callee_name(t)
            if c in ("std::string::String::push_str", "std::vec::Vec::<T, A>::extend_from_slice") and len(t["args"]) == 2:
                seq.append(desc(du.val_operand(t["args"][1])))
            elif c and re.search(r"slice::<impl \[\w+\]>::(concat|join)$", c) and t["args"]:
                # `[name, SEP, value, CRLF].concat()`: one emission made of the array's elements in order
                els = array_elements(du, du.val_operand(t["args"][0]))
                if els is not None:
                    sep = desc(du.val_operand(t["args"][1])) if c.endswith("::join") and len(t["args"]) > 1 else None
                    fs = []
                    for i_, e_ in enumerate(els):
                        if i_ and sep not in (None, "const:"):
                            fs.append(sep)
                        fs.append(desc(e_))
                    out.append(fs)
            elif c and c.endswith("::write_fmt") and len(t["args"]) == 2:
                # `write!(out, "{}{}", a, b)`: the pieces are appended to `out` in order, like push_str calls
                fp = format_parts(du, du.val_operand(t["args"][1]))
                if fp is None:
                    seq.append("other")
                else:
                    parts, args = fp
                    ai = 0
                    for prt in parts:
                        if prt[0] == "lit":
                            seq.append("const:" + prt[1])
                        else:
                            seq.append(desc(args[ai][1]) if ai < len(args) else "other")
                            ai += 1
            elif c in FORMAT_FNS:
                fp = format_parts(du, du.val_call(t, 0, bid))
                if fp is not None:
                    parts, args = fp
                    fs, ai = [], 0
                    for prt in parts:
                        if prt[0] == "lit":
                            fs.append("const:" + prt[1])
                        else:
                            fs.append(desc(args[ai][1]) if ai < len(args) else "other")
                            ai += 1
                    out.append(fs)
        if seq:
            out.append(seq)
    return out


def method_edges(cfg, du, which):
    """(edges on which `request.method == which` holds, edges on which it does not) over all switches of the function; `!=` and `!`
    are followed, so the polarity is that of the comparison, not of the switch"""
    holds, fails = [], []
    for sb in cfg.live_blocks():
        st = cfg.blocks[sb]["term"]
        if st["k"] != "switch" or st.get("discr_ty") != "bool":
            continue
        v = du.val_operand(st["discr"])
        neg = False
        while v[0] == "unop" and v[1] == "Not":
            v, neg = v[2], not neg
        if _method_eq(v) != which:
            continue
        if (v[1] or "").endswith("::ne"):
            neg = not neg
        for val, tb in st["targets"]:
            if val == 0:
                t_edge, f_edge = (sb, st["otherwise"]), (sb, tb)
                if neg:
                    t_edge, f_edge = f_edge, t_edge
                holds.append(t_edge)
                fails.append(f_edge)
    return holds, fails


def _method_eq(v, depth=0):
    """'HEAD' / 'OPTIONS' / ... when v is `request.method == METHOD.x` (String == &str call)"""
    if v[0] == "call" and v[1] and ("PartialEq" in v[1]) and len(v[2]) == 2:
        consts = [a[1] for a in v[2] if a[0] == "const" and isinstance(a[1], str)]
        fields = []
        for a in v[2]:
            hops = 0
            while a[0] == "call" and a[1] and a[1].endswith(("::as_str", "::deref", "::as_ref", "::borrow", "::clone", "::to_string", "::as_bytes")) and a[2] and hops < 4:
                a, hops = a[2][0], hops + 1
            if a[0] in ("ref", "place"):
                fields += [p[2] for p in a[1][1] if isinstance(p, tuple) and p[0] == "f"]
        if consts and "method" in fields:
            return consts[0]
    return None
