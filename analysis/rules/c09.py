"""C09 — HEAD and OPTIONS behave consistently with GET.
A8: exhaustive evaluation of every matcher over the abstract method domain {GET, HEAD, POST, PUT, DELETE, CONNECT, OPTIONS, TRACE, PATCH, other}."""
from ..callgraph import callee_name
from ..cfg import cfg_of, term_succs
from ..dataflow import du_of, place_key
from ..framework import Check
from .c05 import _method_eq, serialiser_clauses, status_entry_of

DOMAIN = ["GET", "HEAD", "POST", "PUT", "DELETE", "CONNECT", "OPTIONS", "TRACE", "PATCH", "<other>"]


class MethodEval:
    """path-sensitive abstract execution of a bool-returning function with request.method fixed to `m`:
    comparisons of the method with a constant are decided, every other branch is explored both ways."""

    def __init__(self, fn, m):
        self.fn, self.m = fn, m
        self.cfg = cfg_of(fn)
        self.du = du_of(fn)
        self.multi = {l for l, d in self.du.defs.items() if len(d) > 1 or l == 0}

    def eval_val(self, v, env, depth=0):
        """True / False / None(unknown)"""
        if depth > 12:
            return None
        if v[0] == "const" and isinstance(v[1], bool):
            return v[1]
        if v[0] == "unop" and v[1] == "Not":
            x = self.eval_val(v[2], env, depth + 1)
            return None if x is None else (not x)
        if v[0] == "call":
            c = _method_eq(v)
            if c is not None:
                eq = (c == self.m)
                if (v[1] or "").endswith("::ne"):
                    return not eq
                return eq
            return None
        if v[0] == "place" and not v[1][1]:
            l = v[1][0]
            if l in env:
                return env[l]
            return None
        if v[0] == "binop" and v[1] in ("BitAnd", "BitOr"):
            a, b = self.eval_val(v[2], env, depth + 1), self.eval_val(v[3], env, depth + 1)
            if v[1] == "BitAnd":
                if a is False or b is False:
                    return False
                if a is True and b is True:
                    return True
            else:
                if a is True or b is True:
                    return True
                if a is False and b is False:
                    return False
            return None
        return None

    def eval_operand(self, o, env):
        if o.get("k") == "const":
            return o.get("v") if isinstance(o.get("v"), bool) else None
        if o.get("k") in ("copy", "move") and not o["p"]:
            l = o["l"]
            if l in self.multi:
                return env.get(l)
            return self.eval_val(self.du.val_operand(o), env)
        return None

    def run(self):
        """set of possible return values {True, False, None}"""
        results = set()
        start = (self.cfg.entry, ())
        seen = {start}
        stack = [start]
        steps = 0
        while stack:
            steps += 1
            if steps > 20000:
                results.add(None)
                break
            b, envt = stack.pop()
            env = dict(envt)
            blk = self.cfg.blocks[b]
            for s in blk["stmts"]:
                if s["k"] == "assign" and not s["place"]["p"] and s["place"]["l"] in self.multi and self.fn.local_ty(s["place"]["l"]) == "bool":
                    rv = s["rv"]
                    val = None
                    if rv["k"] == "use":
                        val = self.eval_operand(rv["ops"][0], env)
                    elif rv["k"] == "unop" and rv["op"] == "Not":
                        x = self.eval_operand(rv["ops"][0], env)
                        val = None if x is None else (not x)
                    elif rv["k"] == "binop" and rv["op"] in ("BitAnd", "BitOr"):
                        val = self.eval_val(self.du.val_rvalue(rv, 0, b), env)
                    env[s["place"]["l"]] = val
            t = blk["term"]
            if t["k"] == "return":
                results.add(env.get(0))
                continue
            if t["k"] == "call":
                d = t["dest"]
                if not d["p"] and d["l"] in self.multi and self.fn.local_ty(d["l"]) == "bool":
                    env[d["l"]] = self.eval_val(self.du.val_call(t, 0, b), env)
            succs = term_succs(t)
            if t["k"] == "switch" and t.get("discr_ty") == "bool":
                x = self.eval_operand(t["discr"], env)
                if x is not None:
                    succs = []
                    for val, tb in t["targets"]:
                        succs = [tb] if bool(val) == x else [t["otherwise"]]
            for s_ in succs:
                if s_ not in self.cfg.blocks:
                    continue
                st = (s_, tuple(sorted((k, v) for k, v in env.items())))
                if st not in seen:
                    seen.add(st)
                    stack.append(st)
        return results


def can_match(fn, m):
    res = MethodEval(fn, m).run()
    return (True in res) or (None in res)


def run(ctx):
    F, G, R = ctx.F, ctx.G, ctx.R
    chk = Check("C09", ctx.tier, "Every matcher that can accept GET can accept HEAD and OPTIONS under the same remaining conditions (exhaustive over the 10-value method domain); 204 only for OPTIONS; the serialiser computes headers independently of the method and drops the body for HEAD/OPTIONS.")
    chk.technique = "finite-domain abstract interpretation of each matcher's CFG over the request method (10 abstract values, path-sensitive on boolean locals) + dominance rules on the serialiser"
    chk.analysed = ctx.analysed_summary()
    seen = G.reachable(R.connection_roots())
    matchers = []
    for i in F.impls:
        if i["trait"] == "controller::Controller":
            for m in i["methods"]:
                if m["name"] == "is_matching":
                    matchers.append((m["def"], "production", i["self_ty"]))
    for fn in F.rws_fns():
        if fn.def_.endswith("::is_matching_request") and fn.ret == "bool":
            matchers.append((fn.def_, "legacy", fn.def_.rsplit("::", 1)[0]))
    r1 = chk.rule("R1-matchers-treat-HEAD-OPTIONS-like-GET", "for every controller matcher: if a true return is feasible with method GET it is feasible with HEAD and with OPTIONS (all 10 abstract methods evaluated)", floor=8)
    chk.extra["exhaustive"] = True
    table = {}
    for name, kind, ctrl in sorted(matchers):
        fn = F.fns.get(name)
        if fn is None:
            continue
        feas = {m: can_match(fn, m) for m in DOMAIN}
        table[name] = [m for m in DOMAIN if feas[m]]
        ok = (not feas["GET"]) or (feas["HEAD"] and feas["OPTIONS"])
        r1.instance({"matcher": name, "kind": kind, "methods_that_can_match": table[name]}, ok)
        if not ok:
            missing = [m for m in ("HEAD", "OPTIONS") if not feas[m]]
            r1.violate("C09|R1|%s" % name, "%s can match GET but never %s: for a path that GET serves, %s falls through to another controller (404 on the shipped entry point)" % (name, " / ".join(missing), " / ".join(missing)),
                       fn.file, fn.span["line"], name, {"methods_that_can_match": table[name]})
    chk.extra["matcher_method_table"] = table

    # R2: 204 only under method == OPTIONS
    r2 = chk.rule("R2-204-only-for-OPTIONS", "the 204 status entry is selected only in blocks dominated by the true edge of `method == OPTIONS`", floor=1)
    for n in sorted(seen):
        fn = F.fns.get(n)
        if fn is None or fn.crate != "rws" or fn.kind == "Promoted":
            continue
        cfg = cfg_of(fn)
        du = du_of(fn)
        from .c05 import method_edges
        opt_edges, _ = method_edges(cfg, du, "OPTIONS")
        for bid in cfg.live_blocks():
            for s in cfg.blocks[bid]["stmts"]:
                if s["k"] != "assign":
                    continue
                e = status_entry_of(du.val_rvalue(s["rv"], 0, bid))
                if e == "const:n204_no_content" and s["rv"]["k"] in ("use", "ref") and not s["place"]["p"]:
                    # assignment of the 204 entry itself to a local (status selection)
                    if fn.local_ty(s["place"]["l"]).endswith("StatusCodeReasonPhrase") and (fn.local_name(s["place"]["l"]) or s["place"]["l"] == 0):
                        ok = bool(opt_edges) and cfg.edges_dominate(opt_edges, bid)
                        r2.instance({"fn": n, "line": s["span"]["line"], "under_method_eq_OPTIONS": ok}, ok)
                        if not ok:
                            r2.violate("C09|R2|%s" % n, "%s selects 204 No Content on a path that is not restricted to OPTIONS" % n, s["span"]["file"], s["span"]["line"], n)

    # R8: who may branch on HEAD. HEAD's status and headers equal GET's because nothing before the serialiser knows the difference:
    # the matchers accept it, the controllers compute the same content ranges, and the serialiser alone drops the body.
    r8 = chk.rule("R8-only-matchers-and-the-serialiser-test-for-HEAD", "the request method is compared with HEAD only in controller matchers (bool functions) and in the response serialiser; a HEAD-specific branch in content-producing code makes HEAD's headers (Content-Length ..) differ from GET's", floor=5)
    from ..inline import is_private_helper
    for n in sorted(seen):
        fn0 = F.fns.get(n)
        if fn0 is None or fn0.crate != "rws" or fn0.kind == "Promoted" or is_private_helper(F, n):
            continue
        fn = ctx.inl(fn0)
        du = du_of(fn)
        heads = []
        for b in fn.blocks:
            if b.get("cleanup"):
                continue
            t = b["term"]
            if t["k"] == "call" and _method_eq(du.val_call(t, 0, b["id"])) == "HEAD":
                heads.append(t["span"]["line"])
        if not heads:
            continue
        is_matcher = fn0.ret == "bool"
        is_serialiser = fn0.ret == "std::vec::Vec<u8>" and any(callee_name(t) == "response::Response::generate_body" for _, t in fn.calls())
        ok = is_matcher or is_serialiser
        r8.instance({"fn": n, "role": "matcher" if is_matcher else ("serialiser" if is_serialiser else "other"), "lines": heads[:3]}, ok)
        if not ok:
            r8.violate("C09|R8|%s" % n, "%s compares the request method with HEAD (line %d) although it is neither a matcher nor the serialiser: what it computes for HEAD can differ from what it computes for GET" % (n, heads[0]),
                       fn0.file, heads[0], n)

    # R9: a preflight grant depends on its own request header only (plus Origin and the method): otherwise a real preflight that
    # carries Access-Control-Request-Method but no Access-Control-Request-Headers loses Allow-Methods / Max-Age and fails
    r9 = chk.rule("R9-preflight-grants-are-independent", "the construction of each Access-Control-* response header is conditioned on the presence of no request header other than Origin and the one it answers", floor=6)
    from .parse_common import tests_dominating, deep_strings
    from .c05 import header_aggregates, const_str
    OWN = {"Access-Control-Allow-Methods": {"Access-Control-Request-Method"}, "Access-Control-Allow-Headers": {"Access-Control-Request-Headers"},
           "Access-Control-Expose-Headers": {"Access-Control-Request-Headers"}}
    for n in sorted(seen):
        fn0 = F.fns.get(n)
        if fn0 is None or fn0.crate != "rws" or fn0.kind == "Promoted" or is_private_helper(F, n):
            continue
        fn = ctx.inl(fn0)
        aggs = [(bid, st, const_str(nv)) for bid, st, nv, vv in header_aggregates(fn)]
        aggs = [a for a in aggs if (a[2] or "").startswith("Access-Control-")]
        if not aggs:
            continue
        du = du_of(fn)
        for bid, st, hn in aggs:
            asked = set()
            for c, tr, v, line in tests_dominating(fn, bid):
                ds = {x for x in deep_strings(du, v) if isinstance(x, str)}
                if any("get_header" in x for x in ds):
                    asked |= {x for x in ds if x == "Origin" or x.startswith("Access-Control-Request-")}
            extra = asked - {"Origin"} - OWN.get(hn, set())
            ok = not extra
            r9.instance({"fn": n, "header": hn, "request_headers_it_depends_on": sorted(asked)}, ok)
            if not ok:
                r9.violate("C09|R9|%s|%s" % (n, hn), "%s builds %s only when the request also carries %s: a preflight without that header loses the grant" % (n, hn, ", ".join(sorted(extra))), st["span"]["file"], st["span"]["line"], n)

    # R3: serialiser clauses shared with C05 (body suppressed for HEAD/OPTIONS; Content-Length from the content range, i.e. independent of the method)
    serialiser_clauses(ctx, chk, "C09", seen)

    # R4: contradiction (Engler): a HEAD/OPTIONS comparison in a block that is only reachable when method == GET
    r4 = chk.rule("R7-no-dead-method-belief", "no comparison of the method with HEAD/OPTIONS sits in a block that is only reachable when a `method != GET -> return` gate has passed", floor=10)
    for name, kind, ctrl in sorted(matchers):
        fn = F.fns.get(name)
        if fn is None:
            continue
        cfg = cfg_of(fn)
        du = du_of(fn)
        get_true_edges = []
        tests = []
        for b in cfg.live_blocks():
            t = cfg.blocks[b]["term"]
            if t["k"] == "call":
                v = du.val_call(t, 0, b)
                c = _method_eq(v)
                if c:
                    tests.append((b, c, (callee_name(t) or "").endswith("::ne"), t["span"]["line"]))
            if t["k"] == "switch":
                v = du.val_operand(t["discr"])
                neg = False
                while v[0] == "unop" and v[1] == "Not":
                    v = v[2]; neg = not neg
                if _method_eq(v) == "GET":
                    is_ne = (v[1] or "").endswith("::ne") != neg
                    for val, tb in t["targets"]:
                        if val == 0:
                            true_e, false_e = (b, t["otherwise"]), (b, tb)
                            get_true_edges.append(false_e if is_ne else true_e)
        for b, c, is_ne, line in tests:
            if c in ("HEAD", "OPTIONS"):
                dead = bool(get_true_edges) and cfg.edges_dominate(get_true_edges, b) and all(e[0] != b for e in get_true_edges)
                if dead and "GET" not in table.get(name, ["GET"]):
                    # the matcher never accepts GET: there is no path that GET serves here, the property says nothing about this one
                    r4.note("%s: dead comparison with %s, but the matcher cannot match GET at all" % (name, c))
                    dead = False
                r4.instance({"matcher": name, "compares_with": c, "line": line, "only_reachable_when_GET": dead}, ok=not dead)
                if dead:
                    r4.violate("C09|R7|%s|%s" % (name, c), "%s compares the method with %s at line %d, but that block is only reachable when the method is GET: the comparison is dead, so the author's belief that %s is served is false" % (name, c, line, c), fn.file, line, name)
            else:
                r4.instance({"matcher": name, "compares_with": c, "line": line}, ok=True)
    chk.assumptions += ["the method string is only ever compared for (in)equality with the METHOD constants (checked: every use found is a PartialEq call)",
                        "'same remaining conditions' = every non-method branch is explored both ways for each abstract method"]
    chk.undecided = ["equality of GET/HEAD status and headers for concrete files (C02/C03 clauses); CORS preflight header values (C11)"]
    return chk.finish()
