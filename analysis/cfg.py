"""A2: per-function CFG over non-cleanup blocks: successors, dominators, edge dominance, reachability, path counting."""
from functools import lru_cache


def term_succs(t):
    k = t["k"]
    if k == "goto":
        return [t["target"]]
    if k == "switch":
        out = [b for _, b in t["targets"]]
        out.append(t["otherwise"])
        return out
    if k in ("call", "drop", "assert"):
        return [t["target"]] if t.get("target") is not None else []
    return []


class CFG:
    def __init__(self, fn):
        self.fn = fn
        self.blocks = {b["id"]: b for b in fn.blocks if not b["cleanup"]}
        self.succ = {}
        self.pred = {i: [] for i in self.blocks}
        for i, b in self.blocks.items():
            ss = [s for s in term_succs(b["term"]) if s in self.blocks]
            # de-duplicate, keep order
            seen = []
            for s in ss:
                if s not in seen:
                    seen.append(s)
            self.succ[i] = seen
        for i, ss in self.succ.items():
            for s in ss:
                self.pred[s].append(i)
        self.entry = 0
        self._reach = self.reachable_from(self.entry)
        self._idom = None

    # ---- reachability ----
    def reachable_from(self, start, removed_edges=(), removed_nodes=()):
        removed_edges = set(removed_edges)
        removed_nodes = set(removed_nodes)
        if start in removed_nodes:
            return set()
        seen = {start}
        stack = [start]
        while stack:
            n = stack.pop()
            for s in self.succ.get(n, []):
                if (n, s) in removed_edges or s in removed_nodes or s in seen:
                    continue
                seen.add(s)
                stack.append(s)
        return seen

    def live_blocks(self):
        return self._reach

    def can_reach(self, a, b, removed_edges=(), removed_nodes=()):
        """is b reachable from a by a path of >= 0 edges"""
        return b in self.reachable_from(a, removed_edges, removed_nodes)

    def edge_dominates(self, edge, block):
        """every entry->block path crosses `edge` (a (from,to) pair)"""
        if block not in self._reach:
            return True
        return block not in self.reachable_from(self.entry, removed_edges=[edge])

    def edges_dominate(self, edges, block):
        """every entry->block path crosses at least one of `edges`"""
        if block not in self._reach:
            return True
        return block not in self.reachable_from(self.entry, removed_edges=list(edges))

    def node_dominates(self, a, b):
        if b not in self._reach:
            return True
        if a == b:
            return True
        return b not in self.reachable_from(self.entry, removed_nodes=[a])

    # ---- dominator tree (iterative) ----
    def idom(self):
        if self._idom is not None:
            return self._idom
        order = []
        seen = set()

        def dfs(n):
            stack = [(n, iter(self.succ[n]))]
            seen.add(n)
            while stack:
                node, it = stack[-1]
                adv = False
                for s in it:
                    if s not in seen:
                        seen.add(s)
                        stack.append((s, iter(self.succ[s])))
                        adv = True
                        break
                if not adv:
                    order.append(node)
                    stack.pop()
        dfs(self.entry)
        rpo = list(reversed(order))
        idx = {n: i for i, n in enumerate(rpo)}
        idom = {self.entry: self.entry}
        changed = True
        while changed:
            changed = False
            for n in rpo[1:]:
                preds = [p for p in self.pred[n] if p in idom]
                if not preds:
                    continue
                new = preds[0]
                for p in preds[1:]:
                    a, b = p, new
                    while a != b:
                        while idx[a] > idx[b]:
                            a = idom[a]
                        while idx[b] > idx[a]:
                            b = idom[b]
                    new = a
                if idom.get(n) != new:
                    idom[n] = new
                    changed = True
        self._idom = idom
        self._rpo = rpo
        return idom

    def rpo(self):
        self.idom()
        return self._rpo

    def back_edges(self):
        """edges n->h where h dominates n (natural loop back edges)"""
        out = []
        for n in self._reach:
            for s in self.succ[n]:
                if self.node_dominates(s, n):
                    out.append((n, s))
        return out

    def natural_loop(self, back_edge):
        n, h = back_edge
        body = {h}
        stack = [n]
        while stack:
            x = stack.pop()
            if x in body:
                continue
            body.add(x)
            stack.extend(self.pred[x])
        return body

    def return_blocks(self):
        return [i for i in self._reach if self.blocks[i]["term"]["k"] == "return"]

    def exits(self):
        """live blocks without successors (return, unreachable, diverging call)"""
        return [i for i in self._reach if not self.succ[i]]

    # ---- path counting: min/max number of `marked` blocks on entry->target paths (acyclic approximation) ----
    def minmax_count(self, marked, targets=None):
        """Min and max number of marked blocks along any path from entry to each target (default: return blocks).
        Loops: if a marked block lies on a cycle reachable on the way, max = inf."""
        INF = float("inf")
        targets = self.return_blocks() if targets is None else targets
        marked = set(marked)
        # min: Dijkstra-like BFS with 0/1 weights; max: longest path, inf if a marked node is in a cycle
        import heapq
        dist = {self.entry: 1 if self.entry in marked else 0}
        pq = [(dist[self.entry], self.entry)]
        while pq:
            d, n = heapq.heappop(pq)
            if d > dist.get(n, INF):
                continue
            for s in self.succ[n]:
                nd = d + (1 if s in marked else 0)
                if nd < dist.get(s, INF):
                    dist[s] = nd
                    heapq.heappush(pq, (nd, s))
        # max via SCC condensation
        sccs = self.sccs()
        comp = {}
        for i, c in enumerate(sccs):
            for n in c:
                comp[n] = i
        cyc = [len(c) > 1 or (list(c)[0] in self.succ[list(c)[0]]) for c in sccs]
        w = []
        for i, c in enumerate(sccs):
            m = sum(1 for n in c if n in marked)
            w.append(INF if (m and cyc[i]) else m)
        # sccs from Tarjan come in reverse topological order
        best = {}
        order = list(range(len(sccs)))[::-1]  # topological
        ce = comp[self.entry]
        best[ce] = w[ce]
        for i in order:
            if i not in best:
                continue
            for n in sccs[i]:
                for s in self.succ[n]:
                    j = comp[s]
                    if j != i:
                        v = best[i] + w[j]
                        if v > best.get(j, -1):
                            best[j] = v
        res = {}
        for t in targets:
            res[t] = (dist.get(t), best.get(comp.get(t)))
        return res

    def sccs(self):
        index = {}
        low = {}
        onstack = set()
        stack = []
        out = []
        counter = [0]
        for root in sorted(self._reach):
            if root in index:
                continue
            work = [(root, 0)]
            while work:
                v, pi = work[-1]
                if pi == 0:
                    index[v] = low[v] = counter[0]
                    counter[0] += 1
                    stack.append(v)
                    onstack.add(v)
                recurse = False
                succs = self.succ[v]
                for i in range(pi, len(succs)):
                    s = succs[i]
                    if s not in index:
                        work[-1] = (v, i + 1)
                        work.append((s, 0))
                        recurse = True
                        break
                    elif s in onstack:
                        low[v] = min(low[v], index[s])
                if recurse:
                    continue
                if low[v] == index[v]:
                    c = set()
                    while True:
                        x = stack.pop()
                        onstack.discard(x)
                        c.add(x)
                        if x == v:
                            break
                    out.append(c)
                work.pop()
                if work:
                    u = work[-1][0]
                    low[u] = min(low[u], low[v])
        return out

    def find_path(self, a, b, removed_edges=(), removed_nodes=()):
        """one block path a..b (BFS), or None"""
        removed_edges = set(removed_edges)
        removed_nodes = set(removed_nodes)
        prev = {a: None}
        q = [a]
        while q:
            n = q.pop(0)
            if n == b:
                path = []
                while n is not None:
                    path.append(n)
                    n = prev[n]
                return path[::-1]
            for s in self.succ[n]:
                if s in prev or (n, s) in removed_edges or s in removed_nodes:
                    continue
                prev[s] = n
                q.append(s)
        return None


_cfg_cache = {}


def cfg_of(fn):
    c = _cfg_cache.get(id(fn))
    if c is None:
        c = CFG(fn)
        _cfg_cache[id(fn)] = c
    return c
