"""Fact-base loader: functions (MIR CFGs), constants, ADTs, impls from the rws-facts driver."""
import json, os, hashlib, subprocess, sys, time, glob, tempfile, shutil

VERIF = os.path.dirname(os.path.dirname(os.path.abspath(__file__)))
REPO = os.environ.get("RWS_REPO", "/repo")
CRATES = ["rws", "file_ext", "url_build_parse", "url_search_params"]
CRATE_FILES = {"rws": "rws-bin.json", "file_ext": "file_ext-lib.json",
               "url_build_parse": "url_build_parse-lib.json", "url_search_params": "url_search_params-lib.json"}


def input_hash(repo=REPO):
    """SHA-256 over every input the facts are built from (sources, manifests, documentation C12 reads, the driver)."""
    h = hashlib.sha256()
    files = []
    for root, dirs, fs in os.walk(os.path.join(repo, "src")):
        dirs.sort()
        for f in sorted(fs):
            files.append(os.path.join(root, f))
    for f in ["Cargo.toml", "Cargo.lock", "rws.command_line", "rws.config.toml", "rws.variables", "CONFIGURE.md", ".cargo/config", ".cargo/config.toml"]:
        files.append(os.path.join(repo, f))
    for f in sorted(glob.glob(os.path.join(VERIF, "extractor/src/*.rs"))):
        files.append(f)
    for f in files:
        h.update(f.encode())
        try:
            with open(f, "rb") as fh:
                h.update(fh.read())
        except OSError:
            h.update(b"<missing>")
    return h.hexdigest()


def ensure_facts(config="dev", repo=REPO, verbose=False):
    """Return the directory holding fresh facts for `repo` in `config` (dev|release|test); re-extract on any input change."""
    hsh = input_hash(repo)
    cache_root = os.environ.get("RWS_CACHE_DIR") or os.path.join(VERIF, ".cache")
    d = os.path.join(cache_root, "%s-%s" % (config, hsh[:24]))
    stamp = os.path.join(d, "OK")
    if os.path.exists(stamp) and all(os.path.getsize(os.path.join(d, CRATE_FILES[c])) > 0 for c in CRATES):
        try:
            os.utime(d, None)
        except OSError:
            pass
        return d, hsh, False
    # bound the cache: keep the 6 most recently used fact directories
    if os.path.isdir(cache_root):
        olds = [os.path.join(cache_root, o) for o in os.listdir(cache_root) if "-tmp-" not in o]
        def _mt(p_):
            try:
                return os.path.getmtime(p_)
            except OSError:
                return 0
        olds.sort(key=_mt, reverse=True)
        for o in olds[8:]:
            # never evict something a concurrent check may be reading
            if time.time() - _mt(o) > 1800:
                shutil.rmtree(o, ignore_errors=True)
        for o in os.listdir(cache_root):
            po = os.path.join(cache_root, o)
            if "-tmp-" in o and time.time() - os.path.getmtime(po) > 600:
                shutil.rmtree(po, ignore_errors=True)
    os.makedirs(cache_root, exist_ok=True)
    tmp = tempfile.mkdtemp(prefix=config + "-tmp-", dir=cache_root)
    t0 = time.time()
    r = subprocess.run([os.path.join(VERIF, "extract.sh"), repo, tmp, config], capture_output=True, text=True)
    if r.returncode != 0:
        shutil.rmtree(tmp, ignore_errors=True)
        raise RuntimeError("fact extraction failed (does /repo compile?):\n" + r.stderr[-4000:])
    for c in CRATES:
        p = os.path.join(tmp, CRATE_FILES[c])
        if not os.path.exists(p) or os.path.getsize(p) == 0:
            shutil.rmtree(tmp, ignore_errors=True)
            raise RuntimeError("fact file missing for crate %s (cargo skipped the wrapper?)" % c)
    with open(os.path.join(tmp, "OK"), "w") as fh:
        fh.write("%s %.2f\n" % (hsh, time.time() - t0))
    if os.path.exists(d):
        shutil.rmtree(d, ignore_errors=True)
    try:
        os.rename(tmp, d)
    except OSError:
        # lost a race with a parallel check: theirs is as good as ours
        shutil.rmtree(tmp, ignore_errors=True)
    return d, hsh, True


CURRENT = None


class Fn:
    __slots__ = ("def_", "kind", "crate", "span", "vis", "parent", "nargs", "ret", "locals", "debug", "blocks", "_names", "raw")

    def __init__(self, raw, crate):
        self.raw = raw
        self.def_ = raw["def"]
        self.kind = raw["kind"]
        self.crate = crate
        self.span = raw["span"]
        self.vis = raw["vis"]
        self.parent = raw["parent"]
        self.nargs = raw["args"]
        self.ret = raw["ret"]
        self.locals = raw["locals"]
        self.debug = raw["debug"]
        self.blocks = raw["blocks"]
        self._names = None

    @property
    def file(self):
        return self.span["file"]

    def loc(self):
        return "%s:%d" % (self.span["file"], self.span["line"])

    def local_name(self, l):
        if self._names is None:
            self._names = {}
            for d in self.debug:
                if not d["p"]:
                    self._names.setdefault(d["l"], d["name"])
        return self._names.get(l)

    def local_ty(self, l):
        return self.locals[l]["ty"]

    def calls(self):
        """yield (block_id, term) for every call terminator in non-cleanup blocks"""
        for b in self.blocks:
            if b["cleanup"]:
                continue
            t = b["term"]
            if t["k"] == "call":
                yield b["id"], t

    def __repr__(self):
        return "<Fn %s>" % self.def_


class Facts:
    def __init__(self, d):
        self.dir = d
        self.crates = {}
        self.fns = {}
        self.consts = {}
        self.adts = {}
        self.impls = []
        self.traits = {}
        self.statics = []
        self.foreign = []
        self.unsafe_blocks = []
        self.externals = {}
        for c in CRATES:
            with open(os.path.join(d, CRATE_FILES[c])) as fh:
                raw = json.load(fh)
            self.crates[c] = raw
            for f in raw["fns"]:
                name = f["def"]
                # dependency crates print their own items without a crate prefix; qualify them
                if c != "rws":
                    name = qualify(name, c)
                    f["def"] = name
                    if f["parent"]:
                        f["parent"] = qualify(f["parent"], c)
                fn = Fn(f, c)
                self.fns[name] = fn
            for k in raw["consts"]:
                p = k["path"] if c == "rws" else qualify(k["path"], c)
                self.consts[p] = k
            for a in raw["adts"]:
                p = a["path"] if c == "rws" else qualify(a["path"], c)
                self.adts[p] = a
            for i in raw["impls"]:
                i = dict(i)
                i["crate"] = c
                if c != "rws":
                    i["self_ty"] = qualify(i["self_ty"], c)
                    for m in i["methods"]:
                        m["def"] = qualify(m["def"], c)
                self.impls.append(i)
            for t in raw["traits"]:
                p = t["path"] if c == "rws" else qualify(t["path"], c)
                self.traits[p] = t
            for s in raw["statics"]:
                s = dict(s); s["crate"] = c
                self.statics.append(s)
            for s in raw["foreign"]:
                self.foreign.append((c, s))
            for s in raw["unsafe_blocks"]:
                s = dict(s); s["crate"] = c
                self.unsafe_blocks.append(s)
            for k, v in raw["externals"].items():
                self.externals.setdefault(k, v)
        self._qualify_calls()
        self._promoted_consts()
        global CURRENT
        CURRENT = self

    def _promoted_consts(self):
        """a promoted body that only materialises a constant (`_0 = &_1; _1 = const X`): remember X"""
        self.promoted_const = {}
        for name, fn in self.fns.items():
            if fn.kind != "Promoted":
                continue
            consts = []
            other = False
            for b in fn.blocks:
                for st in b["stmts"]:
                    if st["k"] != "assign":
                        continue
                    rv = st["rv"]
                    if rv["k"] == "use" and rv["ops"][0].get("k") == "const":
                        consts.append(rv["ops"][0])
                    elif rv["k"] in ("ref", "aggregate", "cast", "use"):
                        continue
                    else:
                        other = True
                if b["term"]["k"] not in ("return", "goto"):
                    other = True
            if len(consts) == 1 and not other:
                self.promoted_const[name] = consts[0]

    def _qualify_calls(self):
        """Inside a dependency crate its own items are printed without the crate name, while rws prints them with it
        (`file_ext::FileExt::read_file`). Normalise callee names so that they match across crates."""
        for fn in self.fns.values():
            if fn.crate == "rws":
                continue
            c = fn.crate
            local = self.crates[c]["_local_names"] if "_local_names" in self.crates[c] else None
            if local is None:
                local = set(f["def"] for f in self.crates[c]["fns"])
                self.crates[c]["_local_names"] = local
            for b in fn.blocks:
                t = b["term"]
                if t["k"] == "call":
                    for key in ("callee", "resolved"):
                        v = t.get(key)
                        if v and qualify(v, c) in local:
                            t[key] = qualify(v, c)
                    t["fn_items"] = [qualify(x, c) if qualify(x, c) in local else x for x in t.get("fn_items", [])]
                for s in b["stmts"]:
                    if s["k"] == "assign":
                        rv = s["rv"]
                        if rv.get("closure") and qualify(rv["closure"], c) in local:
                            rv["closure"] = qualify(rv["closure"], c)
                        if rv.get("fn_items"):
                            rv["fn_items"] = [qualify(x, c) if qualify(x, c) in local else x for x in rv["fn_items"]]
                        for o in rv.get("ops", []):
                            if o.get("k") == "const" and o.get("fn") and qualify(o["fn"], c) in local:
                                o["fn"] = qualify(o["fn"], c)
                            if o.get("k") == "const" and o.get("promoted_of"):
                                o["promoted_of"] = qualify(o["promoted_of"], c)
                    
            for l in fn.locals:
                if l.get("fn_items"):
                    l["fn_items"] = [qualify(x, c) if qualify(x, c) in local else x for x in l["fn_items"]]

    def rws_fns(self):
        return [f for f in self.fns.values() if f.crate == "rws"]


def qualify(name, crate):
    """Prefix a crate-local def path with its crate name, the way a downstream crate prints it:
    `FileExt::x` -> `file_ext::FileExt::x`, `<UrlComponents as Clone>::clone` -> `<url_build_parse::UrlComponents as Clone>::clone`."""
    if name.startswith("<"):
        i = name.find(" as ")
        if i > 0:
            st = name[1:i]
            head = st.split("::")[0].split("<")[0]
            if head and head[0].isalpha() and head not in ("std", "core", "alloc", crate) and not head.islower():
                return "<" + crate + "::" + st + name[i:]
        return name
    if name.startswith(crate + "::"):
        return name
    return crate + "::" + name


def load(config="dev", repo=REPO):
    d, hsh, fresh = ensure_facts(config, repo)
    f = Facts(d)
    f.input_sha256 = hsh
    f.fresh = fresh
    f.config = config
    return f
