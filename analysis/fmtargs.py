"""format_args! as this nightly lowers it: `Arguments::new(&TEMPLATE, &[Argument; n])` where TEMPLATE is a byte string:
   n (< 0x80) followed by n literal bytes | 0xC0 = the next argument with default formatting | 0 = end.
Literal arguments are folded into the template by the compiler (`format!("{}{}{}", "http://", "localhost", x)` has the single
literal `http://localhost`). Templates with any other control byte (width, precision, named positions) are not decoded."""
from .callgraph import callee_name

FORMAT_FNS = ("std::fmt::format", "alloc::fmt::format")


def decode_template(v):
    """('const', {'fields': {i: byte}}, ..) -> list of ('lit', str) / ('arg',) or None"""
    if v[0] != "const" or not isinstance(v[1], dict) or "fields" not in v[1]:
        return None
    f = v[1]["fields"]
    try:
        data = [f[str(i)] for i in range(len(f))]
    except KeyError:
        return None
    if not all(isinstance(x, int) for x in data):
        return None
    out, i = [], 0
    while i < len(data):
        b = data[i]
        if b == 0:
            break
        if b < 0x80:
            lit = bytes(data[i + 1:i + 1 + b])
            if len(lit) != b:
                return None
            out.append(("lit", lit.decode("utf-8", "replace")))
            i += 1 + b
        elif b == 0xC0:
            out.append(("arg",))
            i += 1
        else:
            return None
    return out


def format_parts(du, v, depth=0):
    """value of a `format!(..)` / `format_args!(..)` expression -> (parts, [argument value, ..]) or None.
    Each argument value is (constructor name, referenced value)."""
    if depth > 6:
        return None
    if v[0] == "ref":
        inner = du.val_place(v[1])
        if inner == ("place", v[1]) or inner[0] == "ref":
            return None
        return format_parts(du, inner, depth + 1)
    if v[0] == "call" and v[1] in FORMAT_FNS and v[2]:
        return format_parts(du, v[2][0], depth + 1)
    if v[0] == "call" and v[1] == "std::hint::must_use" and v[2]:
        return format_parts(du, v[2][0], depth + 1)
    if v[0] == "call" and v[1] and v[1].startswith("std::fmt::Arguments::<'a>::new") and v[2]:
        parts = decode_template(v[2][0])
        if parts is None:
            return None
        args = []
        if len(v[2]) > 1:
            a = v[2][1]
            while a[0] == "cast":
                a = a[2]
            if a[0] == "ref":
                a = du.val_place(a[1])
            if a[0] == "aggregate":
                for x in a[3]:
                    if x[0] == "call" and x[1] and "core::fmt::rt::Argument" in x[1] and x[2]:
                        args.append((x[1], x[2][0]))
                    else:
                        args.append((None, x))
        return parts, args
    return None
