"""Carry allowlist entries over a rename / move of a function.

Allowlist entries (sites, loops) are keyed by the function they sit in. Renaming a private helper (`parse_form_part_recursively` ->
`parse_form_parts`) or moving it out of an `impl` changes that path although nothing about the code changed. With the snapshot of
function names the entries were written for (tables/function_snapshot.json) a rename is recognisable: the old name is gone, a name
that did not exist appeared in the same source file, and the new function has, for every allowlisted site of the old one, a site of
the same kind and operation. If exactly one such candidate exists the entries are re-keyed to it (and the evidence says so);
otherwise nothing is carried over and the sites are reported as usual."""
from . import panics


def _sig(site_key, fn_name):
    rest = site_key[len(fn_name) + 1:]
    parts = rest.split("|")
    return tuple(parts[:2])          # (kind, what): local names in the producer text and ordinals may change with a rename


def rename_map(ctx):
    cached = getattr(ctx, "_rename_map", None)
    if cached is not None:
        return cached
    F = ctx.F
    snap = ctx.table("function_snapshot").get("functions", {})
    tbl = ctx.table("safe_sites")
    old_fns = {}
    for e in tbl.get("sites", []):
        fnn = e["site"].split("|")[0]
        old_fns.setdefault(fnn, []).append(e["site"])
    for e in tbl.get("loops", []):
        old_fns.setdefault(e["loop"].split("|")[0], [])
    for e in tbl.get("recursion", []):
        old_fns.setdefault(e["fn"], [])
    missing = [o for o in old_fns if o not in F.fns and o in snap]
    new_by_file = {}
    for n, f in F.fns.items():
        if f.kind in ("Fn", "AssocFn") and n not in snap:
            new_by_file.setdefault(f.file, []).append(n)
    inv = None
    out = {}
    for old in missing:
        cands = new_by_file.get(snap[old], [])
        if not cands:
            continue
        want = sorted(_sig(s, old) for s in old_fns[old])
        good = []
        for c in cands:
            if inv is None:
                inv = panics.Inventory(ctx)
            have = sorted((s.kind, s.what) for s in inv.sites(F.fns[c]) if s.status not in ("guarded", "exempt"))
            h = list(have)
            ok = True
            for w in want:
                if w in h:
                    h.remove(w)
                else:
                    ok = False
                    break
            if ok:
                good.append(c)
        if len(good) == 1:
            out[old] = good[0]
        elif len(cands) == 1 and not want:
            out[old] = cands[0]
    ctx._rename_map = out
    return out


def rekey_sites(ctx, inv):
    """{site key: entry} with the entries of renamed functions re-keyed; ordinals / producer texts are re-derived from the new
    function's unproven sites in source order, matched by (kind, what)"""
    F = ctx.F
    tbl = ctx.table("safe_sites")
    safe = {e["site"]: e for e in tbl["sites"]}
    rm = rename_map(ctx)
    for old, new in rm.items():
        entries = [e for e in tbl["sites"] if e["site"].split("|")[0] == old]
        if not entries:
            continue
        sites = [s for s in inv.sites(F.fns[new]) if s.status not in ("guarded", "exempt")]
        sites.sort(key=lambda s: (s.line, s.bid))
        used = set()
        for e in sorted(entries, key=lambda e: e["site"]):
            sg = _sig(e["site"], old)
            for s in sites:
                if id(s) in used or (s.kind, s.what) != sg:
                    continue
                used.add(id(s))
                ne = dict(e)
                ne["renamed_from"] = old
                safe["%s|%s|%s|%s|%d" % (new, s.kind, s.what, s.producer, s.ordinal)] = ne
                break
    return safe


def rekey_loop(ctx, key):
    fnn, rest = key.split("|", 1)
    rm = rename_map(ctx)
    return (rm[fnn] + "|" + rest) if fnn in rm else key
