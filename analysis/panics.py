"""A4: inventory of potential panic sites per function and their classification (guarded / exempt / unguarded)."""
import json, os, re
from .callgraph import callee_name
from .cfg import cfg_of
from .dataflow import is_view_call, du_of, place_key, val_ref_target, fmt_place
from .guards import guards_of, optres_root, const_int, len_of, strip_casts

UNWRAP = {
    "std::option::Option::<T>::unwrap": True, "std::option::Option::<T>::expect": True,
    "std::result::Result::<T, E>::unwrap": True, "std::result::Result::<T, E>::expect": True,
    "std::result::Result::<T, E>::unwrap_err": False, "std::result::Result::<T, E>::expect_err": False,
    "std::option::Option::<T>::unwrap_unchecked": True, "std::result::Result::<T, E>::unwrap_unchecked": True,
}
PANIC_FNS = re.compile(r"^(core::panicking::|std::rt::begin_panic|std::rt::panic_fmt|core::panicking|std::panicking::begin_panic|core::option::expect_failed|core::result::unwrap_failed|std::process::abort|std::process::exit|core::intrinsics::abort).*")
GET_CALLS = ("core::slice::<impl [T]>::get", "core::slice::<impl [T]>::get_mut")
SPLIT_ONCE = ("core::str::<impl str>::split_once", "core::str::<impl str>::rsplit_once", "core::str::<impl str>::find", "core::str::<impl str>::strip_prefix")
CURSOR_READS = ("std::io::BufRead::read_until", "std::io::Read::read_to_end", "<std::io::Cursor<T> as std::io::Read>::read_to_end", "<std::io::Cursor<T> as std::io::Read>::read",
                "<std::io::Cursor<T> as std::io::BufRead>::read_until", "std::io::Read::read")
FIRST_LAST = ("core::slice::<impl [T]>::first", "core::slice::<impl [T]>::last")
INDEX_CALLS = ("<std::vec::Vec<T, A> as std::ops::Index<I>>::index", "<std::vec::Vec<T, A> as std::ops::IndexMut<I>>::index_mut",
               "core::slice::index::<impl std::ops::Index<I> for [T]>::index", "core::array::<impl std::ops::Index<I> for [T; N]>::index",
               "std::array::<impl std::ops::Index<I> for [T; N]>::index", "std::array::<impl std::ops::IndexMut<I> for [T; N]>::index_mut",
               "std::ops::Index::index")
CAPACITY_SINKS = re.compile(r"std::vec::Vec::<T>::with_capacity|std::vec::Vec::<T, A>::(with_capacity_in|reserve|reserve_exact|resize)|std::vec::from_elem|std::string::String::(with_capacity|reserve|reserve_exact)|std::str::<impl str>::repeat|std::slice::<impl \\[T\\]>::repeat|std::collections::HashMap::<K, V>::with_capacity|std::collections::VecDeque::<T>::with_capacity")
ASSERT_KINDS = ("Overflow", "OverflowNeg", "DivisionByZero", "RemainderByZero", "BoundsCheck")


class Site:
    __slots__ = ("fn", "bid", "kind", "what", "producer", "status", "reason", "file", "line", "exp", "ordinal", "extra")

    def __init__(self, fn, bid, kind, what, producer, file, line, exp=False):
        self.fn, self.bid, self.kind, self.what, self.producer = fn, bid, kind, what, producer
        self.file, self.line, self.exp = file, line, exp
        self.status, self.reason = "unguarded", ""
        self.ordinal = 0
        self.extra = {}

    def key(self, prop, rule):
        return "%s|%s|%s|%s|%s|%s|%d" % (prop, rule, self.fn.def_, self.kind, self.what, self.producer, self.ordinal)

    def describe(self):
        return "%s of %s in %s" % (self.what, self.producer, self.fn.def_)


def short(name):
    if name is None:
        return "?"
    return name


def producer_of(du, pk, depth=0):
    """a stable description of where the value in place pk comes from"""
    root, _ = optres_root(du, pk)
    c = du.canon(root)
    if not c[1]:
        d = du.unique_def(c[0])
        if d is not None and d[0] == "call":
            return "call:" + short(callee_name(d[3]))
        if d is not None and d[0] == "assign":
            rv = d[3]
            if rv["k"] == "use" and rv["ops"][0].get("k") == "const":
                return "const"
            return "expr:" + rv["k"]
    return "place:" + fmt_place(du.fn, c, stable=True)


class Inventory:
    def __init__(self, ctx):
        self.ctx = ctx
        self.F = ctx.F
        self.exempt = ctx.table("std_panic_exempt")
        self._cache = {}
        self._succ = {}

    def _is_configuration_value(self, fn, du, v):
        cv = self.exempt.get("configuration_values", {})
        v = strip_casts(v)
        if v[0] == "call" and v[1] and any(v[1] == p for p, _ in cv.get("producers", [])):
            return True
        if v[0] == "call" and v[1] and v[1].endswith(("::unwrap", "::unwrap_or", "::clone")) and v[2]:
            return self._is_configuration_value(fn, du, v[2][0])
        if v[0] in ("place", "ref") and v[1][1]:
            fields = [p for p in v[1][1] if isinstance(p, tuple) and p[0] == "f"]
            base_ty = fn.local_ty(v[1][0]) or ""
            if fields:
                for adt, fld, _ in cv.get("fields", []):
                    if fields[-1][2] == fld and adt.split("::")[-1] in base_ty:
                        return True
        return False

    def exempt_reason(self, name):
        for pat, why in self.exempt["exempt"]:
            if re.fullmatch(pat, name):
                return why
        return None

    def sites(self, fn):
        c = self._cache.get(fn.def_)
        if c is None:
            c = self._scan(fn)
            self._cache[fn.def_] = c
        return c

    def _scan(self, fn):
        F = self.F
        du = du_of(fn)
        g = guards_of(fn)
        cfg = cfg_of(fn)
        out = []
        for bid in sorted(cfg.live_blocks()):
            b = cfg.blocks[bid]
            t = b["term"]
            sp = t["span"]
            if t["k"] == "call":
                name = callee_name(t)
                if name is None:
                    continue
                if name in UNWRAP:
                    a = t["args"][0]
                    what = name.split("::")[-1]
                    if a.get("k") not in ("copy", "move"):
                        s = Site(fn, bid, "unwrap", what, "const", sp["file"], sp["line"], sp["exp"])
                        out.append(s)
                        continue
                    pk = place_key(a)
                    s = Site(fn, bid, "unwrap", what, producer_of(du, pk), sp["file"], sp["line"], sp["exp"])
                    self._classify_unwrap(s, fn, du, g, pk, UNWRAP[name], bid)
                    out.append(s)
                elif PANIC_FNS.match(name):
                    s = Site(fn, bid, "panic", name, "explicit", sp["file"], sp["line"], sp["exp"])
                    out.append(s)
                elif name not in F.fns:
                    ext = F.externals.get(name) or F.externals.get(t.get("callee") or "")
                    doc_panics = bool(ext and ext.get("doc_panics"))
                    # the trait method's documentation also applies to its impls
                    if not doc_panics and t.get("callee") and t["callee"] != name:
                        e2 = F.externals.get(t["callee"])
                        doc_panics = bool(e2 and e2.get("doc_panics"))
                    if CAPACITY_SINKS.fullmatch(name):
                        s = Site(fn, bid, "alloc-size", name, self._size_desc(du, t, name), sp["file"], sp["line"], sp["exp"])
                        idx = 1 if name in ("std::vec::from_elem",) or "::reserve" in name or "::resize" in name or "::repeat" in name else 0
                        if idx < len(t["args"]):
                            v = strip_casts(du.val_operand(t["args"][idx]))
                            k = const_int(v)
                            if (k is not None and k < (1 << 32)) or _is_count(du, v):
                                s.status, s.reason = "exempt", "allocation size is a constant or an in-memory length"
                            elif self._is_configuration_value(fn, du, v):
                                s.status, s.reason = "exempt", "allocation size is a start-up configuration value (tables/std_panic_exempt.json: configuration_values), not client input"
                            elif _is_count_arith(du, v):
                                s.status, s.reason = "exempt", "allocation size is small-constant arithmetic over in-memory lengths (inputs smaller than 2 GiB: stated assumption)"
                        out.append(s)
                        continue
                    if doc_panics or name in INDEX_CALLS:
                        s = Site(fn, bid, "std-panics", name, self._arg_desc(du, t), sp["file"], sp["line"], sp["exp"])
                        why = self.exempt_reason(name)
                        if why:
                            s.status, s.reason = "exempt", why
                        else:
                            self._classify_std(s, fn, du, g, t, name, bid)
                        out.append(s)
            elif t["k"] == "assert":
                kind = t["kind"]
                if not kind.startswith(ASSERT_KINDS):
                    continue
                # the operand type is part of the site identity: widening/narrowing an accumulator changes the site
                oty = None
                for o in t.get("ops", []):
                    oty = oty or _op_ty(fn, o)
                s = Site(fn, bid, "assert", kind + (":" + oty if oty else ""), self._assert_desc(du, t), sp["file"], sp["line"], sp["exp"])
                self._classify_assert(s, fn, du, g, t, bid)
                out.append(s)
        # ordinals among equal (kind, what, producer) in source order
        cnt = {}
        for s in sorted(out, key=lambda s: (s.line, s.bid)):
            k = (s.kind, s.what, s.producer)
            cnt[k] = cnt.get(k, 0) + 1
            s.ordinal = cnt[k]
        return out

    # ---- classification ----
    def _text_nonempty_by_construction(self, fn, call_block):
        """the `chars()` consumed by the iterator call in `call_block` runs over a text that is, through length-preserving conversions only,
        a `vec![x; n]` with constant n >= 1 that nothing resizes - looked at with the private helpers inlined (block ids of the caller are
        unchanged by inlining, A11)"""
        from . import loops as L
        body = self.ctx.inl(fn)
        du = du_of(body)
        blk = next((b for b in body.blocks if b["id"] == call_block), None)
        if blk is None or blk["term"]["k"] != "call" or not blk["term"]["args"]:
            return False
        it = du.val_operand(blk["term"]["args"][0])
        tgt = val_ref_target(du, it)
        if tgt is not None:
            it = du.val_place(du.canon(tgt))
        if not (it[0] == "call" and (it[1] or "").endswith("impl str>::chars") and it[2]):
            return False
        text = it[2][0]
        for b in body.blocks:
            t = b["term"]
            if b["cleanup"] or t["k"] != "call" or callee_name(t) != "std::vec::from_elem" or len(t["args"]) != 2 or t["dest"]["p"]:
                continue
            n = const_int(strip_casts(du.val_operand(t["args"][1])))
            B = t["dest"]["l"]
            if n is None or n < 1 or len(du.defs.get(B, [])) != 1:
                continue
            if not L.derives_length_preserving(du, text, B):
                continue
            # nothing may change the vector's length: no call receives it (or what it was moved into) as `&mut Vec<u8>`
            resized = False
            for _, t2 in body.calls():
                if re.search(r"::(deref_mut|index_mut|as_mut_slice|as_mut|iter_mut|fill|len|is_empty)$", callee_name(t2) or ""):
                    continue        # views of the elements: the length stays
                for a, ty in zip(t2["args"], t2.get("arg_tys", [])):
                    if ty.replace("&mut ", "&mut").startswith("&mutstd::vec::Vec<") and a.get("k") in ("copy", "move"):
                        r = val_ref_target(du, du.val_operand(a))
                        if r is not None and (du.canon(r)[0] == B or L.derives_length_preserving(du, ("place", du.canon(r)), B)):
                            resized = True
            if not resized:
                return True
        return False

    def _classify_unwrap(self, s, fn, du, g, pk, want_succ, bid):
        root, inv = optres_root(du, pk)
        truth = want_succ != inv
        ok, why = g.variant_guarded(root, truth, bid)
        if ok:
            s.status, s.reason = "guarded", "dominated by a passed is_ok/is_err/is_some/is_none (or match) test of %s" % fmt_place(fn, root)
            return
        contra, _w = g.variant_guarded(root, not truth, bid)
        if contra:
            # the site is only reached where a passed test has established the OTHER variant: it panics whenever it is reached
            s.extra["contradicted"] = "dominated by a passed test that establishes the opposite variant of %s" % fmt_place(fn, root)
        # value produced by a callee whose failure depends on the server's environment only (reviewed table), wherever the site is
        pv = du.val_place(du.canon(root))
        if not truth:
            # `.err().unwrap()` / `unwrap_err()` outside a passed is_err test: every argument below is about the SUCCESS of the producer
            pv = ("none",)
        if pv[0] == "call" and pv[1]:
            for pat, why in self.exempt.get("environment_producers", []):
                if pv[1] == pat:
                    s.status, s.reason = "exempt", why
                    return
                if pv[1] in ("std::path::Path::to_str", "std::ffi::OsStr::to_str", "std::path::PathBuf::to_str") and _mentions_call(du, pv, pat):
                    s.status, s.reason = "exempt", "to_str of a path that comes from %s: fails only for a non-UTF-8 directory name (server environment)" % pat
                    return
            # URL::parse of 'scheme://authority' + anything: the dependency's parser has no Err exit for such a string
            if pv[1] in ("url::URL::parse", "url_build_parse::parse_url") and pv[2] and _has_scheme_and_authority(du, pv[2][0]):
                s.status, s.reason = "guarded", "the parsed text is a join that starts with the constants 'http://' + a non-empty authority: parse_url has no reachable Err exit for it (its own panics are separate sites)"
                return
        # Option produced by slice::get(const i) / first / last: guarded by a length bound
        c = du.canon(root)
        if not c[1]:
            d = du.unique_def(c[0])
            if d is not None and d[0] == "call":
                name = callee_name(d[3])
                args = d[3]["args"]
                if name in GET_CALLS and len(args) == 2:
                    idx = du.val_operand(args[1])
                    k = const_int(strip_casts(idx))
                    tgt = val_ref_target(du, du.val_operand(args[0]))
                    if k is not None and tgt is not None:
                        ok2, why2 = g.len_guarded(tgt, k + 1, bid)
                        if ok2:
                            s.status, s.reason = "guarded", "index %d < length of %s established by a dominating length test" % (k, fmt_place(fn, tgt))
                            return
                        s.extra["needs"] = "len(%s) > %d" % (fmt_place(fn, tgt), k)
                if truth and re.fullmatch(r"<std::str::Chars<'a> as std::iter::(Iterator>::(last|next)|DoubleEndedIterator>::next_back)", name or "") and args \
                        and self._text_nonempty_by_construction(fn, d[1]):
                    s.status, s.reason = "guarded", "first / last character of a text that is exactly the bytes of a buffer created with a constant length >= 1 (vec![x; n] filled by read_exact, accepted by from_utf8)"
                    return
                if name in FIRST_LAST and args:
                    tgt = val_ref_target(du, du.val_operand(args[0]))
                    if tgt is not None:
                        ok2, why2 = g.len_guarded(tgt, 1, bid)
                        if ok2:
                            s.status, s.reason = "guarded", "non-empty %s established by a dominating length test" % fmt_place(fn, tgt)
                            return
                if truth and name in CURSOR_READS and d[3].get("arg_tys") and re.search(r"std::io::Cursor<(&\[u8\]|&'?\w* ?\[u8\]|std::vec::Vec<u8>|&std::vec::Vec<u8>)>", d[3]["arg_tys"][0]):
                    s.status, s.reason = "guarded", "read from an in-memory std::io::Cursor cannot fail"
                    return
                if name in SPLIT_ONCE and len(args) == 2:
                    tgt = val_ref_target(du, du.val_operand(args[0]))
                    pat = du.val_operand(args[1])
                    if tgt is not None and pat[0] == "const" and pat[1] is not None:
                        from .guards import json_key
                        ok2, why2 = g.contains_guarded(tgt, json_key(pat[1]), bid)
                        if ok2:
                            s.status, s.reason = "guarded", "dominated by a passed contains(%r) test of the same string" % (pat[1],)
                            return
                if name in GET_CALLS and len(args) == 2:
                    # get(len(P) - k), k >= 1, with P unchanged since the length was taken: in bounds whenever the subtraction did not overflow
                    idx = strip_casts(du.val_operand(args[1]))
                    tgt = val_ref_target(du, du.val_operand(args[0]))
                    if idx[0] == "binop" and idx[1] in ("Sub", "SubWithOverflow") and tgt is not None:
                        la, kb = len_of(du, strip_casts(idx[2])), const_int(strip_casts(idx[3]))
                        if la == tgt and kb is not None and kb >= 1 and not self._written_between(g, tgt, strip_casts(idx[2])[3], bid):
                            s.status, s.reason = "guarded", "index len-%d of the same unmodified vector (the subtraction is a separate site)" % kb
                            return
                if truth and name in self.F.fns and self.always_succ(self.F.fns[name]):
                    s.status, s.reason = "guarded", "callee %s never returns Err/None (every return value is built as Ok/Some)" % name
                    return
        if why and isinstance(why, tuple):
            s.reason = why[0]

    def _written_between(self, g, place, from_block, to_block):
        """some write to `place` lies on a path from from_block to to_block"""
        # a path that passes through from_block again re-takes the length, so only paths avoiding from_block count
        # (otherwise every write in an enclosing loop would "lie between" the two)
        after = g.cfg.reachable_from(from_block)
        for kb, kidx, kind in g._killers(place):
            if kb != from_block and kb in after and to_block in g.cfg.reachable_from(kb, removed_nodes=(from_block,)):
                return True
        return False

    def always_succ(self, fn, depth=0):
        """every value assigned to the return place is an Ok(..)/Some(..) aggregate (or the result of another such function)"""
        c = self._succ.get(fn.def_)
        if c is not None:
            return c
        self._succ[fn.def_] = False
        if not (fn.ret.startswith("std::result::Result<") or fn.ret.startswith("std::option::Option<")):
            return False
        du = du_of(fn)
        ok = True
        n = 0
        for bid, idx, pk, kind in du.writes:
            if pk[0] != 0:
                continue
            n += 1
            if pk[1] or kind == "mutref":
                ok = False
                break
            b = du.blocks[bid]
            if kind == "assign":
                rv = b["stmts"][idx]["rv"]
                if rv["k"] == "aggregate" and rv.get("agg") == "adt" and rv.get("variant") in ("Ok", "Some"):
                    continue
                ok = False
                break
            if kind == "call":
                t = b["term"]
                name = callee_name(t)
                if name in ("<std::option::Option<T> as std::convert::From<T>>::from",):
                    continue
                if name in self.F.fns and depth < 4 and self.always_succ(self.F.fns[name], depth + 1):
                    continue
                ok = False
                break
        ok = ok and n > 0
        self._succ[fn.def_] = ok
        return ok

    def _size_desc(self, du, t, name):
        idx = 1 if name in ("std::vec::from_elem",) or "::reserve" in name or "::resize" in name or "::repeat" in name else 0
        if idx >= len(t["args"]):
            return "-"
        v = strip_casts(du.val_operand(t["args"][idx]))
        if v[0] == "const":
            return "const %s" % (v[1],)
        if v[0] == "call":
            return "call:" + short(v[1])
        if v[0] == "place":
            return "place:" + fmt_place(du.fn, v[1], stable=True)
        return v[0]

    def _arg_desc(self, du, t):
        if not t["args"]:
            return "-"
        a = t["args"][0]
        if a.get("k") in ("copy", "move"):
            v = du.val_operand(a)
            tgt = val_ref_target(du, v)
            if tgt is not None:
                # describe by the producer of the referent
                return producer_of(du, tgt)
            return producer_of(du, place_key(a))
        return "const"

    def _classify_std(self, s, fn, du, g, t, name, bid):
        args = t["args"]
        if name in ("std::iter::Iterator::sum", "std::iter::Iterator::count") and args and (name.endswith("count") or _maps_to_len(du, du.val_operand(args[0]))):
            s.status, s.reason = "exempt", "sum of in-memory lengths / element count: cannot overflow for inputs smaller than 2 GiB (stated assumption)"
            return
        if re.fullmatch(r"core::slice::<impl \[T\]>::(windows|chunks|chunks_exact|rchunks|chunks_mut|chunk_by)", name) and len(args) == 2:
            k = const_int(strip_casts(du.val_operand(args[1])))
            if k is not None and k > 0:
                s.status, s.reason = "guarded", "non-zero constant window/chunk size %d" % k
                return
        if name in INDEX_CALLS and len(args) == 2:
            idx = strip_casts(du.val_operand(args[1]))
            k = const_int(idx)
            tgt = val_ref_target(du, du.val_operand(args[0]))
            if k is not None and tgt is not None:
                ok, why = g.len_guarded(tgt, k + 1, bid)
                if ok:
                    s.status, s.reason = "guarded", "constant index %d < length established by a dominating length test" % k
                    return
                s.extra["needs"] = "len(%s) > %d" % (fmt_place(fn, tgt), k)
            if k == 0 and tgt is not None and self._split_collect(du, tgt):
                s.status, s.reason = "guarded", "str::split yields at least one item, so element 0 of the collected vector exists"
                return
            from .numeric import chain_fresh
            if tgt is not None and chain_fresh(du, g.cfg, args[1], bid) and self._index_in_bounds(fn, du, g, du.val_operand(args[1]), tgt, bid):
                s.status, s.reason = "guarded", "index / range bounds follow from dominating comparisons on unmodified operands (start <= end <= len)"
                return
            s.extra["index"] = repr(idx)[:120]
        CONST_ARG = {"to_digit": (1, lambda k: 2 <= k <= 36), "from_digit": (1, lambda k: 2 <= k <= 36), "step_by": (1, lambda k: k >= 1)}
        last = name.rsplit("::", 1)[-1]
        if last in CONST_ARG and len(args) > CONST_ARG[last][0]:
            k = const_int(strip_casts(du.val_operand(args[CONST_ARG[last][0]])))
            if k is not None and CONST_ARG[last][1](k):
                s.status, s.reason = "guarded", "the documented panic condition concerns a constant argument (%d) that satisfies the requirement" % k
                return
        if re.fullmatch(r"core::slice::<impl \[T\]>::(windows|chunks|chunks_exact|rchunks|chunks_mut)", name) and len(args) == 2:
            from .numeric import numeric_of
            lo = numeric_of(fn, du, g).lower_bound(du.val_operand(args[1]), bid)
            if lo is not None and lo >= 1:
                s.status, s.reason = "guarded", "window/chunk size >= 1 follows from its definition / dominating comparisons"
                return

    def _index_in_bounds(self, fn, du, g, idx, tgt, bid):
        from .numeric import numeric_of
        num = numeric_of(fn, du, g)
        if idx[0] == "aggregate" and idx[2] and idx[2].startswith("std::ops::Range"):
            kind = idx[2].split("<")[0]
            ops = idx[3]
            if kind == "std::ops::Range" and len(ops) == 2:
                return num.prove_le(ops[0], ops[1], 0, bid) and num.prove_le_len(ops[1], tgt, 0, bid)
            if kind == "std::ops::RangeTo" and len(ops) == 1:
                return num.prove_le_len(ops[0], tgt, 0, bid)
            if kind == "std::ops::RangeFrom" and len(ops) == 1:
                return num.prove_le_len(ops[0], tgt, 0, bid)
            if kind == "std::ops::RangeToInclusive" and len(ops) == 1:
                return num.prove_le_len(ops[0], tgt, -1, bid)
            return False
        if idx[0] == "aggregate":
            return False
        from .ints import val_ty
        if val_ty(fn, idx) in ("usize", None) and idx[0] != "const":
            return num.prove_le_len(idx, tgt, -1, bid)
        return False

    def _split_collect(self, du, place):
        c = du.canon(place)
        if c[1]:
            return False
        v = du.val_place(c)
        if v[0] == "call" and v[1] == "std::iter::Iterator::collect" and v[2]:
            inner = v[2][0]
            if inner[0] == "call":
                return inner[1] in ("core::str::<impl str>::split", "core::str::<impl str>::rsplit")
        return False

    def _assert_desc(self, du, t):
        ops = t.get("ops", [])
        parts = []
        for o in ops:
            if o.get("k") == "const":
                parts.append("const %s" % (o.get("v"),))
            else:
                v = du.val_operand(o)
                if v[0] == "call":
                    parts.append("call:" + short(v[1]))
                elif v[0] == "place":
                    parts.append("place:" + fmt_place(du.fn, v[1], stable=True))
                elif v[0] == "const":
                    parts.append("const %s" % (v[1],))
                else:
                    parts.append(v[0])
        return ",".join(parts)

    def _classify_assert(self, s, fn, du, g, t, bid):
        kind = t["kind"]
        ops = t.get("ops", [])
        from .numeric import chain_fresh
        # proofs from comparisons need the operands' defining expressions to still mean the same at this point
        fresh = all(chain_fresh(du, g.cfg, o, bid) for o in list(ops) + ([t["cond"]] if t.get("cond") else []))
        if kind.startswith("Overflow(Sh") and len(ops) == 2:
            k = const_int(strip_casts(du.val_operand(ops[1])))
            if k is not None and 0 <= k < 8:
                s.status, s.reason = "guarded", "constant shift amount %d below every integer width" % k
                return
        if kind in ("DivisionByZero", "RemainderByZero"):
            # the assert's message operand is the DIVIDEND; the divisor is the operand of the `== 0` condition
            dv = self._divisor(du, t)
            k = const_int(strip_casts(dv)) if dv is not None else None
            if k is not None and k != 0:
                s.status, s.reason = "guarded", "non-zero constant divisor %d" % k
                return
        if kind.startswith("Overflow(") and len(ops) == 2:
            envn = {p_ for p_, _ in self.exempt.get("environment_numbers", [])}
            if envn and all(_is_env_number(du, du.val_operand(o), envn) for o in ops):
                s.status, s.reason = "exempt", "arithmetic on server-environment values only (file times / sizes, the clock; tables/std_panic_exempt.json: environment_numbers): no client input reaches the operands"
                return
        if kind == "Overflow(Add)" and len(ops) == 2:
            why = self._add_bounded(fn, du, t, ops)
            if why:
                s.status, s.reason = "exempt", why
                return
        if kind in ("Overflow(Add)", "Overflow(Mul)") and len(ops) == 2 and (_op_ty(fn, ops[0]) or _op_ty(fn, ops[1])) in ("usize", "u64", "i64", "i128", "u128"):
            va_, vb_ = du.val_operand(ops[0]), du.val_operand(ops[1])
            if _is_count_arith(du, va_) and _is_count_arith(du, vb_) and (kind == "Overflow(Add)" or const_int(strip_casts(va_)) is not None or const_int(strip_casts(vb_)) is not None):
                s.status, s.reason = "exempt", "small-constant arithmetic over in-memory lengths / byte counts (inputs smaller than 2 GiB: stated assumption)"
                return
        if kind == "Overflow(Sub)" and len(ops) == 2 and (_op_ty(fn, ops[0]) or _op_ty(fn, ops[1])) in ("i64", "isize", "i128", "i32"):
            # a signed counter minus a small constant / byte count: 2^63 steps (2^31 bytes of input for i32: stated assumption) would be
            # needed to reach the type's minimum
            why = self._add_bounded(fn, du, t, [ops[0], ops[1]], only_first=True)
            if why:
                s.status, s.reason = "exempt", why.replace("growing", "changing")
                return
        if not fresh:
            s.reason = "an operand was computed from a local that is reassigned before this point: comparisons made in between do not apply to it"
            return
        if kind == "Overflow(Sub)" and len(ops) == 2:
            from .ints import strip_widening
            a, b = strip_widening(fn, du.val_operand(ops[0])), strip_widening(fn, du.val_operand(ops[1]))
            ok, why = g.order_guarded(b, a, bid)
            if ok:
                s.status, s.reason = "guarded", "dominated by a comparison establishing subtrahend <= minuend"
                return
            # len(P) - k with len(P) >= k established
            la, kb = len_of(du, a), const_int(b)
            if la is not None and kb is not None:
                ok, why = g.len_guarded(la, kb, bid)
                if ok:
                    s.status, s.reason = "guarded", "length >= %d established by a dominating length test" % kb
                    return
        if kind == "BoundsCheck" and len(ops) == 2:
            # ops = (len, index); array indexing with a constant index into a fixed-size array is checked at compile time
            ln, ix = strip_casts(du.val_operand(ops[0])), strip_casts(du.val_operand(ops[1]))
            kl, ki = const_int(ln), const_int(ix)
            if kl is not None and ki is not None and ki < kl:
                s.status, s.reason = "guarded", "constant index %d into array of %d" % (ki, kl)
                return
        self._classify_numeric(s, fn, du, g, t, bid, kind, ops)

    def _divisor(self, du, t):
        c = t.get("cond")
        if c is None:
            return None
        v = du.val_operand(c)
        if v[0] == "binop" and v[1] == "Eq":
            if const_int(strip_casts(v[3])) == 0:
                return v[2]
            if const_int(strip_casts(v[2])) == 0:
                return v[3]
        return None

    def _classify_numeric(self, s, fn, du, g, t, bid, kind, ops):
        """A10: difference constraints from dominating comparisons and interval evaluation of the operand expressions"""
        from .numeric import numeric_of
        from .ints import ty_range
        num = numeric_of(fn, du, g)
        vals = [du.val_operand(o) for o in ops]
        if kind == "BoundsCheck" and len(vals) == 2:
            if num.prove_le(vals[1], vals[0], -1, bid):
                s.status, s.reason = "guarded", "index < length follows from dominating comparisons on unmodified operands"
            return
        if kind in ("DivisionByZero", "RemainderByZero"):
            dv = self._divisor(du, t)
            if dv is None:
                return
            lo = num.lower_bound(dv, bid)
            if lo is not None and lo >= 1:
                s.status, s.reason = "guarded", "divisor >= %d follows from its definition / dominating comparisons" % lo
            return
        m = re.fullmatch(r"Overflow\((Add|Sub|Mul)\)", kind)
        if m and len(vals) == 2:
            ty = None
            for o in ops:
                ty = ty or _op_ty(fn, o)
            tr = ty_range(ty or "")
            if tr is None:
                return
            op = m.group(1)
            if op == "Sub" and tr[0] == 0 and num.prove_le(vals[1], vals[0], 0, bid):
                s.status, s.reason = "guarded", "subtrahend <= minuend follows from dominating comparisons on unmodified operands"
                return
            la, ha = num.lower_bound(vals[0], bid), num.upper_bound(vals[0], bid)
            lb, hb = num.lower_bound(vals[1], bid), num.upper_bound(vals[1], bid)
            if None in (la, ha, lb, hb):
                return
            if op == "Add":
                lo, hi = la + lb, ha + hb
            elif op == "Sub":
                lo, hi = la - hb, ha - lb
            else:
                if la < 0 or lb < 0:
                    return
                lo, hi = la * lb, ha * hb
            if tr[0] <= lo and hi <= tr[1]:
                s.status, s.reason = "guarded", "operands bounded by their types, producers and dominating comparisons: result in [%d, %d] fits %s" % (lo, hi, ty)


WIDE = ("i128", "u128")
W64 = ("usize", "u64", "i64", "isize", "i128", "u128")
COUNT_CALLS = ("::len", "::count", "::read_until", "::read_line", "::read", "::read_to_end", "::position", "::unwrap")


def _op_ty(fn, o):
    if o.get("k") == "const":
        return o.get("ty")
    if o.get("k") in ("copy", "move") and not o["p"]:
        return fn.local_ty(o["l"])
    return None


def _add_bounded(self, fn, du, t, ops, only_first=False):
    """Overflow(Add) that cannot happen within any feasible run: (i) 128-bit accumulation of zero-extended <=64-bit values;
    (ii) a >=64-bit counter whose every definition is a constant or itself plus a small constant / an in-memory byte count."""
    a, b = ops
    ta, tb = _op_ty(fn, a), _op_ty(fn, b)
    ty = ta or tb
    if ty is None:
        return None
    va, vb = du.val_operand(a), du.val_operand(b)
    if ty in WIDE:
        for v in (va, vb):
            if v[0] == "cast" and v[1] in WIDE:
                return "128-bit accumulator plus a zero/sign-extended machine-word value: 2^63 additions would be needed to overflow"
    if du.fn.kind == "Closure":
        # one field of the tuple accumulator of `fold((0, 0), |(count, sum), x| (count + 1, sum + x))`: a counter that starts at a
        # constant and moves by one per item of an in-memory sequence
        for x, other in ((a, vb), (b, va)):
            if x.get("k") not in ("copy", "move"):
                continue
            pk = du.canon(place_key(x))
            pr = [e for e in pk[1] if e != "*"]
            k_ = const_int(strip_casts(other))
            if pk[0] == 2 and len(pr) == 1 and pr[0][0] == "f" and k_ is not None and 0 <= k_ <= 1 and _fold_tuple_init_const(du.fn, pr[0][1]):
                return "a field of a fold's tuple accumulator that starts at a constant and grows by at most one per item of an in-memory sequence: cannot wrap (%s)" % ("32-bit: fewer than 2^31 items, stated assumption" if ty in ("i32", "u32") else "64-bit or wider")
    if ty in ("i32", "u32"):
        # ASSUMPTION (stated in every evidence file that uses it): parser inputs are smaller than 2 GiB
        for x, other in ((a, vb), (b, va)):
            if x.get("k") not in ("copy", "move"):
                continue
            cx = du.canon(place_key(x))
            if not cx[1] and _is_counter(du, cx[0]):
                k = const_int(strip_casts(other))
                if (k is not None and 0 <= k <= 1) or _is_count(du, other):
                    return "32-bit counter advanced by at most one per input byte (or by a read count): cannot wrap for inputs smaller than 2 GiB (stated assumption)"
    if ty in W64:
        for x, other in (((a, vb),) if only_first else ((a, vb), (b, va))):
            if x.get("k") not in ("copy", "move"):
                continue
            root = _chain_root(du, x, 0)
            cx = (root, ()) if root is not None else du.canon(place_key(x))
            if not cx[1] and _is_counter(du, cx[0]):
                k = const_int(strip_casts(other))
                if k is not None and 0 <= k <= (1 << 32):
                    return "64-bit counter starting at a constant and growing by at most 2^32 per step cannot wrap within a feasible run"
                if _is_count(du, other):
                    return "64-bit counter accumulating in-memory byte/element counts (each at most isize::MAX, sum bounded by data actually read)"
    return None


def _fold_tuple_init_const(cf, k):
    """closure cf is the body of a fold / try_fold whose initial accumulator is a tuple with a constant in field k"""
    from . import facts as _facts
    F = _facts.CURRENT
    if F is None:
        return False
    for g in F.fns.values():
        for bid, t in g.calls():
            if cf.def_ in t.get("fn_items", []) and (callee_name(t) or t.get("callee") or "").endswith(("::fold", "::try_fold")) and len(t["args"]) >= 2:
                iv = du_of(g).val_operand(t["args"][1])
                if iv[0] == "aggregate" and iv[1] == "tuple" and k < len(iv[3]) and const_int(strip_casts(iv[3][k])) is not None:
                    return True
                if iv[0] == "const" and isinstance(iv[1], dict) and isinstance((iv[1].get("fields") or {}).get(str(k)), int):
                    return True
    return False


def _is_count(du, v, depth=0):
    v = strip_casts(v)
    if v[0] == "place" and depth < 4:
        # the Ok payload of a read (`match read(..) { Ok(n) => n, .. }`), or a local whose every definition is a constant or a count
        p = tuple(e for e in v[1][1] if e != "*")
        ds = du.defs.get(v[1][0], [])
        if len(p) == 2 and p[0][0] == "d" and p[0][1] in ("Ok", "Continue") and p[1][0] == "f" and p[1][1] == 0:
            if len(ds) == 1 and ds[0][0] == "call":
                return _is_count_result(du, du.val_call(ds[0][3], 0, ds[0][1]))
            if len(ds) == 1 and ds[0][0] == "assign" and ds[0][3]["k"] == "use" and ds[0][3]["ops"][0].get("k") in ("copy", "move"):
                o = ds[0][3]["ops"][0]
                return _is_count(du, ("place", (o["l"], tuple(place_key(o)[1]) + p)), depth + 1)
            return False
        if not p and ds:
            for d in ds:
                if d[0] == "assign" and d[3]["k"] == "use":
                    o = d[3]["ops"][0]
                    if o.get("k") == "const" and isinstance(o.get("v"), int):
                        continue
                    if o.get("k") in ("copy", "move") and _is_count(du, ("place", (o["l"], tuple(place_key(o)[1]))), depth + 1):
                        continue
                    return False
                elif d[0] == "call":
                    if not _is_count(du, du.val_call(d[3], 0, d[1]), depth + 1):
                        return False
                else:
                    return False
            return True
        return False
    if v[0] == "call" and v[1]:
        n = v[1]
        if n.endswith("::len") or n.endswith("::count"):
            return True
        if n.endswith("::unwrap") and v[2]:
            return _is_count_result(du, v[2][0])
    return False


def _mentions_call(du, v, name, depth=0):
    """the value derives (through calls, views, references to single-definition locals) from a call to `name`"""
    if depth > 12:
        return False
    if v[0] == "call":
        if v[1] == name:
            return True
        return any(_mentions_call(du, a, name, depth + 1) for a in v[2])
    if v[0] in ("cast", "unop"):
        return _mentions_call(du, v[2], name, depth + 1)
    if v[0] == "ref":
        inner = du.val_place(v[1])
        if inner != ("place", v[1]) and inner[0] != "ref":
            return _mentions_call(du, inner, name, depth + 1)
    return False


def _has_scheme_and_authority(du, v, depth=0):
    """v is (a reference to) `[c0, c1, ...].join("")` / concat with c0 a constant 'scheme://' and c1 a non-empty constant authority"""
    if depth > 6:
        return False
    if v[0] == "ref":
        return _has_scheme_and_authority(du, du.val_place(v[1]), depth + 1)
    if v[0] == "call" and v[1] and is_view_call(v[1]) and v[2]:
        return _has_scheme_and_authority(du, v[2][0], depth + 1)
    if v[0] == "call" and v[1] in ("std::fmt::format", "alloc::fmt::format", "std::hint::must_use"):
        from .fmtargs import format_parts
        fp = format_parts(du, v)
        if fp is not None and fp[0] and fp[0][0][0] == "lit" and re.match(r"[a-z][a-z0-9+.-]*://[A-Za-z0-9.-]+($|/)", fp[0][0][1] + ("/" if len(fp[0]) > 1 else "")) and re.fullmatch(r"[a-z][a-z0-9+.-]*://[A-Za-z0-9.-]+", fp[0][0][1]):
            return True
        return False
    if v[0] == "call" and v[1] in ("std::slice::<impl [T]>::join", "std::slice::<impl [T]>::concat") and v[2]:
        if v[1].endswith("join") and not (len(v[2]) == 2 and v[2][1][0] == "const" and v[2][1][1] == ""):
            return False
        arr = v[2][0]
        while arr[0] == "cast":
            arr = arr[2]
        if arr[0] == "ref":
            arr = du.val_place(arr[1])
        if arr[0] == "aggregate" and len(arr[3]) >= 2:
            c0, c1 = arr[3][0], arr[3][1]
            if c0[0] == "const" and isinstance(c0[1], str) and re.fullmatch(r"[a-z][a-z0-9+.-]*://", c0[1]) and c1[0] == "const" and isinstance(c1[1], str) and re.fullmatch(r"[A-Za-z0-9.-]+", c1[1]):
                return True
    return False


def _is_count_arith(du, v, depth=0):
    """+ - * / with constants <= 1024 over in-memory lengths / byte counts"""
    v = strip_casts(v)
    if depth > 6:
        return False
    k = const_int(v)
    if k is not None:
        return 0 <= k <= (1 << 32)
    if _is_count(du, v):
        return True
    if v[0] == "binop":
        op = v[1].replace("WithOverflow", "").replace("Unchecked", "")
        a, b = strip_casts(v[2]), strip_casts(v[3])
        if op in ("Add", "Sub"):
            return _is_count_arith(du, a, depth + 1) and _is_count_arith(du, b, depth + 1)
        if op in ("Mul", "Div", "Rem", "Shr"):
            ka, kb = const_int(a), const_int(b)
            if kb is not None and 0 < kb <= 1024:
                return _is_count_arith(du, a, depth + 1)
            if op == "Mul" and ka is not None and 0 < ka <= 1024:
                return _is_count_arith(du, b, depth + 1)
    if v[0] == "call" and v[1] and any(v[1] == f or v[1].startswith(f + "::<") for f in ("std::cmp::min", "core::cmp::min", "std::cmp::Ord::min")) and len(v[2]) == 2:
        return _is_count_arith(du, v[2][0], depth + 1) or _is_count_arith(du, v[2][1], depth + 1)
    if v[0] == "call" and v[1] == "std::iter::Iterator::sum" and v[2] and _maps_to_len(du, v[2][0]):
        return True
    if v[0] == "place" and not v[1][1] and 1 <= v[1][0] <= du.fn.nargs and (getattr(du.fn, "vis", "") or "").startswith("Restricted") \
            and not any(pk[0] == v[1][0] for _, _, pk, _ in du.writes) and depth < 3:
        # a parameter of a private function: a count when every call site passes one (`next_bytes(1)`, `next_string(rest.len())`)
        from . import facts as _facts
        F = _facts.CURRENT
        sites = []
        if F is not None:
            for g in F.fns.values():
                for bid, t in g.calls():
                    if callee_name(t) == du.fn.def_:
                        sites.append((g, t))
        if sites and all(len(t["args"]) >= v[1][0] and _is_count_arith(du_of(g), du_of(g).val_operand(t["args"][v[1][0] - 1]), depth + 1) for g, t in sites):
            return True
    if v[0] == "place" and v[1][0] == 1 and du.fn.kind == "Closure" and depth < 3 and len(v[1][1]) >= 2:
        # a counter of the enclosing function captured by reference: `let mut depth = 0; iter.any(|x| { .. depth += 1; .. })`
        proj = [e for e in v[1][1] if e != "*"]
        if len(proj) == 1 and isinstance(proj[0], tuple) and proj[0][0] == "f" and _captured_counter(du, v, proj[0][1]):
            return True
    if v[0] == "place" and not v[1][1] and v[1][0] == 2 and du.fn.kind == "Closure" and depth < 3:
        # the accumulator of `fold(init, |acc, x| ..)` / `try_fold`: a count when init is one and the closure moves it by small constants
        from . import facts as _facts
        F = _facts.CURRENT
        if F is not None and is_step_fn(F, du.fn.def_, 2):
            for g in F.fns.values():
                for bid, t in g.calls():
                    if du.fn.def_ in t.get("fn_items", []) and (callee_name(t) or t.get("callee") or "").endswith(("::fold", "::try_fold")) and len(t["args"]) >= 2:
                        if _is_count_arith(du_of(g), du_of(g).val_operand(t["args"][1]), depth + 1):
                            return True
    if v[0] == "place" and not v[1][1]:
        # an accumulator: every definition is a constant or itself plus count arithmetic
        ds = du.defs.get(v[1][0], [])
        if len(ds) >= 2 and depth < 3:
            def terms(e, out):
                e = strip_casts(e)
                if e[0] == "binop" and e[1].startswith("Add"):
                    terms(e[2], out); terms(e[3], out)
                else:
                    out.append(e)
                return out
            for d in ds:
                e = du.val_rvalue(d[3], 0, d[1]) if d[0] == "assign" else (du.val_call(d[3], 0, d[1]) if d[0] == "call" else None)
                if e is None:
                    return False
                # a definition that can only shrink the accumulator: self - n, self.saturating_sub(n), the Some payload of self.checked_sub(n)
                es = strip_casts(e)
                if es[0] == "place" and len(es[1][1]) >= 2 and es[1][1][0] == ("d", "Some"):
                    es = strip_casts(du.val_place((es[1][0], ())))
                    if es[0] == "call" and es[1] and es[1].endswith("::checked_sub") and es[2] and strip_casts(es[2][0]) == v:
                        continue
                elif es[0] == "call" and es[1] and es[1].endswith(("::saturating_sub", "::checked_sub")) and es[2] and strip_casts(es[2][0]) == v:
                    continue
                elif es[0] == "binop" and es[1].startswith("Sub") and strip_casts(es[2]) == v:
                    continue
                # the accumulator handed to a private step function and taken back: `depth = depth_after(depth, segment)?`
                if _step_call_of_self(du, e, v):
                    continue
                ts = terms(e, [])
                selfs = [t for t in ts if t == v]
                rest = [t for t in ts if t != v]
                if len(selfs) > 1 or not all(_is_count_arith(du, t, depth + 1) for t in rest):
                    return False
            return True
    return False


def _is_env_number(du, v, envn, depth=0, seen=None):
    """v is computed only from constants and results of the environment-number producers"""
    if depth > 60:
        return False
    seen = seen if seen is not None else set()
    v = strip_casts(v)
    if v[0] == "const":
        return isinstance(v[1], (int, float)) and not isinstance(v[1], bool)
    if v[0] in ("binop",):
        return _is_env_number(du, v[2], envn, depth + 1, seen) and _is_env_number(du, v[3], envn, depth + 1, seen)
    if v[0] == "unop":
        return _is_env_number(du, v[2], envn, depth + 1, seen)
    if v[0] == "call" and v[1]:
        if v[1] in envn:
            return True
        if v[1].endswith(("::unwrap", "::expect", "::unwrap_or", "::unwrap_or_default", "as std::ops::Try>::branch", "::clone")) and v[2]:
            return _is_env_number(du, v[2][0], envn, depth + 1, seen)
        return False
    if v[0] == "place":
        l, proj = v[1]
        if any(isinstance(e, tuple) and e[0] == "d" for e in proj):
            return _is_env_number(du, du.val_place((l, ())), envn, depth + 1, seen)     # payload of an Ok / Some
        if proj and all(isinstance(e, tuple) and e[0] == "f" and e[1] == 0 for e in proj):
            w = du.val_place((l, tuple(proj)))
            if w != v:
                return _is_env_number(du, w, envn, depth + 1, seen)
        if proj:
            return False
        key = (du.fn.def_, l)
        if key in seen:
            return True          # a cycle through a loop-carried local: judged by its other definitions
        seen.add(key)
        if 1 <= l <= du.fn.nargs:
            # a parameter of a private function: every call site passes an environment number
            if not (getattr(du.fn, "vis", "") or "").startswith("Restricted") or any(pk[0] == l for _, _, pk, _ in du.writes):
                return False
            from . import facts as _facts
            F = _facts.CURRENT
            sites = [(g, t) for g in (F.fns.values() if F is not None else []) for _, t in g.calls() if callee_name(t) == du.fn.def_]
            return bool(sites) and all(len(t["args"]) >= l and _is_env_number(du_of(g), du_of(g).val_operand(t["args"][l - 1]), envn, depth + 1, seen) for g, t in sites)
        ds = du.defs.get(l, [])
        if not ds:
            return False
        for d in ds:
            e = du.val_rvalue(d[3], 0, d[1]) if d[0] == "assign" else (du.val_call(d[3], 0, d[1]) if d[0] == "call" else None)
            if e is None or not _is_env_number(du, e, envn, depth + 1, seen):
                return False
        return True
    return False


def _step_value(du, v, pidx, depth=0):
    """v is the parameter pidx itself, the parameter +/- a small constant, or a small constant"""
    v = strip_casts(v)
    if depth > 6:
        return False
    k = const_int(v)
    if k is not None:
        return 0 <= k <= 1024
    if v[0] == "place" and v[1] == (pidx, ()):
        return True
    if v[0] == "binop" and v[1].replace("WithOverflow", "").replace("Unchecked", "") in ("Add", "Sub"):
        a, b = strip_casts(v[2]), strip_casts(v[3])
        kb = const_int(b)
        return _step_value(du, a, pidx, depth + 1) and kb is not None and 0 <= kb <= 1024
    if v[0] == "call" and v[1] and v[1].endswith(("::checked_sub", "::checked_add", "::saturating_sub", "::saturating_add")) and len(v[2]) == 2:
        kb = const_int(strip_casts(v[2][1]))
        return _step_value(du, v[2][0], pidx, depth + 1) and kb is not None and 0 <= kb <= 1024
    if v[0] == "place" and not v[1][1]:
        ds = du.defs.get(v[1][0], [])
        if 1 <= len(ds) <= 6 and v[1][0] > du.fn.nargs:
            return all(_step_def(du, d, pidx, depth + 1) for d in ds)
    return False


def _step_def(du, d, pidx, depth=0):
    """one definition of a result: Some/Ok(step value), None/Err(..), a step value, or an Option produced by checked_* of one"""
    if d[0] == "call":
        return _step_value(du, du.val_call(d[3], 0, d[1]), pidx, depth)
    if d[0] != "assign":
        return False
    rv = d[3]
    if rv["k"] == "aggregate" and rv.get("variant") is not None:
        if rv["variant"] in ("None", "Err", "Break"):
            return True
        return len(rv["ops"]) == 1 and _step_value(du, du.val_operand(rv["ops"][0]), pidx, depth)
    if rv["k"] == "use":
        return _step_value(du, du.val_operand(rv["ops"][0]), pidx, depth)
    if rv["k"] == "binop":
        return _step_value(du, ("binop", rv["op"]) + tuple(du.val_operand(o) for o in rv["ops"]), pidx, depth)
    return False


def is_step_fn(F, name, pidx):
    """a private function / closure of the crate whose result is its parameter pidx moved by at most a small constant (possibly
    wrapped in Some / Ok, possibly None / Err): `fn depth_after(depth, segment) -> Result<usize, _>`, the body of a `try_fold`"""
    f = F.fns.get(name) if F is not None else None
    if f is None or f.crate != "rws" or f.kind == "Promoted":
        return False
    if f.kind != "Closure" and not (f.vis or "").startswith("Restricted"):
        return False
    du = du_of(f)
    if any(pk[0] == pidx for _, _, pk, _ in du.writes):
        return False
    ds = du.defs.get(0, [])
    return bool(ds) and all(_step_def(du, d, pidx) for d in ds)


def _step_call_of_self(du, e, v, depth=0):
    """e is `f(.., v, ..)` for a step function f on that argument, possibly behind unwrap / expect / `?` / a Some / Ok payload"""
    from . import facts as _facts
    F = _facts.CURRENT
    e = strip_casts(e)
    if depth > 6:
        return False
    if e[0] == "place" and len(e[1][1]) >= 1 and isinstance(e[1][1][0], tuple) and e[1][1][0][0] == "d":
        return _step_call_of_self(du, du.val_place((e[1][0], ())), v, depth + 1)
    if e[0] == "call" and e[1] and e[2]:
        if e[1].endswith(("::unwrap", "::expect", "as std::ops::Try>::branch", "::unwrap_or", "::unwrap_or_default")):
            return _step_call_of_self(du, e[2][0], v, depth + 1)
        for i, a in enumerate(e[2]):
            if strip_casts(a) == v and is_step_fn(F, e[1], i + 1):
                return True
    return False


def _captured_counter(du, v, k):
    """the k-th capture of this closure is `&mut counter` of the parent, the parent defines the counter by small constants only, and this
    closure only ever moves it by small constants"""
    from . import facts as _facts
    F = _facts.CURRENT
    if F is None:
        return False
    me = du.fn.def_
    # every write of the closure to that capture is capture +/- small constant
    for bid, idx, pk, kind in du.writes:
        if pk[0] != 1 or [e for e in pk[1] if e != "*"] != [e for e in v[1][1] if e != "*"]:
            continue
        if kind != "assign" or idx == "term":
            return False
        st = du.blocks[bid]["stmts"][idx]
        e = strip_casts(du.val_rvalue(st["rv"], 0, bid))
        if not (e[0] == "binop" and e[1].replace("WithOverflow", "").replace("Unchecked", "") in ("Add", "Sub") and strip_casts(e[2]) == v
                and const_int(strip_casts(e[3])) is not None and 0 <= const_int(strip_casts(e[3])) <= 1024):
            return False
    for g in F.fns.values():
        if g.crate != "rws" or not me.startswith(g.def_ + "::{closure"):
            continue
        gdu = du_of(g)
        for b in g.blocks:
            for st in b["stmts"]:
                if st["k"] == "assign" and st["rv"]["k"] == "aggregate" and st["rv"].get("agg") == "closure" and st["rv"].get("closure") == me and k < len(st["rv"]["ops"]):
                    cap = gdu.val_operand(st["rv"]["ops"][k])
                    if cap[0] != "ref" or cap[1][1]:
                        return False
                    L = cap[1][0]
                    ds = gdu.defs.get(L, [])
                    if not ds or not all(d[0] == "assign" and d[3]["k"] == "use" and d[3]["ops"][0].get("k") == "const" and isinstance(d[3]["ops"][0].get("v"), int) and 0 <= d[3]["ops"][0]["v"] <= 1024 for d in ds):
                        return False
                    # the parent hands the counter to closures only (no other mutable borrow, no field write)
                    for bid2, idx2, pk2, kind2 in gdu.writes:
                        if pk2[0] == L and kind2 not in ("assign", "mutref"):
                            return False
                    return True
    return False


def _maps_to_len(du, v, depth=0):
    """`xs.iter().map(|x| x.field.len())`: a map whose closure returns a length"""
    if depth > 4 or v[0] != "call":
        return False
    if v[1] == "std::iter::Iterator::map" and len(v[2]) == 2:
        clo = v[2][1]
        if clo[0] == "aggregate" and clo[1] == "closure":
            from . import facts as _facts
            F = _facts.CURRENT
            cf = F.fns.get(clo[2]) if F is not None else None
            if cf is not None:
                cdu = du_of(cf)
                rv = cdu.val_place((0, ()))
                return _is_count_arith(cdu, rv)
    return False


def _is_count_result(du, v, depth=0):
    if depth > 8:
        return False
    if v[0] == "place":
        vv = du.val_place(v[1])
        if vv != v:
            return _is_count_result(du, vv, depth + 1)
    # `read(..).map_err(..)`, `Try::branch(read(..))`: still the read's result
    if v[0] == "call" and v[1] and v[2] and (v[1].endswith("::map_err") or v[1].endswith("as std::ops::Try>::branch") or v[1].endswith("::or_else")):
        return _is_count_result(du, v[2][0], depth + 1)
    if v[0] == "call" and v[1] and any(v[1].endswith(x) for x in ("::read_until", "::read_line", "::read", "::read_to_end", "::read_to_string")):
        return True
    return False


def _is_counter(du, l):
    """every whole-local definition of l is an integer constant or (l + something).0"""
    defs = du.defs.get(l, [])
    if not defs or l <= du.fn.nargs and False:
        return False
    for bid, idx, pk, kind in du.writes:
        if pk[0] == l and (pk[1] or kind == "mutref"):
            return False
    seen_const = l <= du.fn.nargs  # a parameter counter (recursion depth, iteration number) starts at the caller's value
    for d in defs:
        if d[0] != "assign":
            return False
        rv = d[3]
        if rv["k"] != "use":
            return False
        o = rv["ops"][0]
        if o.get("k") == "const" and isinstance(o.get("v"), int):
            seen_const = True
            continue
        if o.get("k") in ("copy", "move") and len(o["p"]) == 1 and isinstance(o["p"][0], dict) and o["p"][0].get("f") == 0:
            if _chain_root(du, o, 0) == l:
                continue
        if o.get("k") in ("copy", "move") and not o["p"] and 1 <= o["l"] <= du.fn.nargs and not du.defs.get(o["l"]) \
                and not any(pk[0] == o["l"] for _b, _i, pk, _k in du.writes):
            seen_const = True       # `let mut line_number = iteration_number;`: starts at the caller's value, like a parameter counter
            continue
        return False
    return seen_const


def _chain_root(du, o, depth):
    """operand `(_t.0)` with _t = x (+|-) y: the local at the bottom of the chain of x's (l itself for `l`, for `(l + a).0`, for `((l + a) - b).0` ...)"""
    if depth > 4 or o.get("k") not in ("copy", "move"):
        return None
    if not o["p"]:
        return du.canon(place_key(o))[0] if not du.canon(place_key(o))[1] else None
    if len(o["p"]) == 1 and isinstance(o["p"][0], dict) and o["p"][0].get("f") == 0:
        dd = du.unique_def(o["l"])
        if dd and dd[0] == "assign" and dd[3]["k"] == "binop" and (dd[3]["op"].startswith("Add") or dd[3]["op"].startswith("Sub")):
            x, y = dd[3]["ops"]
            r = _chain_root(du, x, depth + 1)
            if r is not None and (dd[3]["op"].startswith("Add") or True):
                return r
            if dd[3]["op"].startswith("Add"):
                return _chain_root(du, y, depth + 1)
    return None


Inventory._add_bounded = _add_bounded
