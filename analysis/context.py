"""Shared context handed to every rule module."""
import json, os
from . import facts, callgraph, cfg

VERIF = os.path.dirname(os.path.dirname(os.path.abspath(__file__)))


class Ctx:
    def __init__(self, tier="quick", config="dev", repo=None):
        self.tier = tier
        self.repo = repo or facts.REPO
        self.F = facts.load(config, self.repo)
        self.G = callgraph.CallGraph(self.F)
        self.R = callgraph.Roles(self.F, self.G)
        self._tables = {}

    def table(self, name):
        if name not in self._tables:
            with open(os.path.join(VERIF, "tables", name + ".json")) as fh:
                self._tables[name] = json.load(fh)
        return self._tables[name]

    def cfg(self, fn):
        return cfg.cfg_of(fn)

    def inl(self, fn, also=(), keep=()):
        """the function with private helpers of the crate inlined (A11): structural rules are written against this body, so that
        an extract-function refactoring does not change their verdict"""
        from .inline import inlined
        return inlined(self.F, fn, also=also, keep=keep)

    def analysed_summary(self):
        F = self.F
        per = {}
        for f in F.fns.values():
            per[f.crate] = per.get(f.crate, 0) + 1
        ncalls = sum(1 for f in F.fns.values() for _ in f.calls())
        return {"functions_per_crate": per, "call_sites": ncalls, "call_graph_edges": sum(len(v) for v in self.G.out.values()),
                "input_sha256": F.input_sha256, "facts_extracted_this_run": F.fresh, "config": F.config,
                "roots": {"accept_loop": self.R.accept_loops, "worker_closures": self.R.worker_closures,
                          "connection_closures": self.R.connection_closures, "connection_fns": self.R.connection_fns}}
