"""A7/A3 support: per-function def-use, canonical places, value expressions (backward slices) over the JSON MIR."""
from .callgraph import callee_name

# calls whose result is a *view* of their first (reference) argument: `(*result)` is the same object as the argument's referent
VIEW_CALLS = (
    "as std::ops::Deref>::deref", "as std::ops::DerefMut>::deref_mut",
    "std::vec::Vec::<T, A>::as_slice", "std::vec::Vec::<T, A>::as_mut_slice",
    "std::string::String::as_str", "std::string::String::as_bytes", "core::str::<impl str>::as_bytes",
    "std::string::String::as_mut_str", "as std::convert::AsRef", "as std::borrow::Borrow",
    "std::path::PathBuf::as_path", "impl std::borrow::Borrow<", "impl std::convert::AsRef<",
)

# calls Option/Result -> Option/Result that preserve the Some/Ok-ness of their first argument
SAME_VARIANT = (
    "std::option::Option::<T>::as_ref", "std::option::Option::<T>::as_mut", "std::option::Option::<T>::as_deref",
    "std::option::Option::<&T>::cloned", "std::option::Option::<&T>::copied", "std::option::Option::<T>::map",
    "std::option::Option::<T>::inspect",
    "std::result::Result::<T, E>::as_ref", "std::result::Result::<T, E>::as_mut", "std::result::Result::<T, E>::map",
    "std::result::Result::<T, E>::map_err", "std::result::Result::<T, E>::as_deref", "std::result::Result::<&T, E>::cloned",
    "<std::option::Option<T> as std::clone::Clone>::clone", "<std::result::Result<T, E> as std::clone::Clone>::clone",
)


def is_view_call(name):
    return name is not None and any(v in name for v in VIEW_CALLS)


def P(local, proj=()):
    return (local, tuple(proj))


def proj_key(e):
    if e == "*":
        return "*"
    if isinstance(e, dict):
        if "f" in e:
            return ("f", e["f"], e.get("n"))
        if "d" in e:
            return ("d", e["d"])
        if "i" in e:
            return ("i", e["i"])
        if "ci" in e:
            return ("ci", e["ci"], e["from_end"])
        if "sub" in e:
            return ("sub", e["sub"], e["to"], e["from_end"])
    return ("?", str(e))


def place_key(p):
    return (p["l"], tuple(proj_key(e) for e in p["p"]))


def fmt_place(fn, pk, stable=False):
    """stable=True: never print a local's number (keys must survive edits that renumber temporaries)"""
    l, proj = pk
    n = fn.local_name(l)
    if n:
        s = n
    elif stable:
        if 1 <= l <= fn.nargs:
            s = "arg%d" % l
        else:
            d = du_of(fn).unique_def(l)
            if d is not None and d[0] == "call":
                s = "<" + (callee_name(d[3]) or "call") + ">"
            else:
                s = "tmp:" + fn.local_ty(l)[:60]
    else:
        s = "_%d" % l
    for e in proj:
        if e == "*":
            s = "(*%s)" % s
        elif e[0] == "f":
            s += "." + str(e[2] if e[2] is not None else e[1])
        elif e[0] == "d":
            s += " as " + str(e[1])
        elif e[0] == "i":
            s += "[_]" if stable else "[_%d]" % e[1]
        elif e[0] == "ci":
            s += "[%d]" % e[1]
        else:
            s += ".?"
    return s


class DU:
    """def-use index of one function (non-cleanup blocks only)"""

    def __init__(self, fn):
        self.fn = fn
        self.defs = {}        # local -> list of def records (whole-local definitions)
        self.writes = []      # (bid, idx, place_key, kind) every write to a place incl. projections; kind assign|call|mutref
        self.blocks = {b["id"]: b for b in fn.blocks if not b["cleanup"]}
        for b in fn.blocks:
            if b["cleanup"]:
                continue
            bid = b["id"]
            for i, s in enumerate(b["stmts"]):
                if s["k"] == "assign":
                    pk = place_key(s["place"])
                    self.writes.append((bid, i, pk, "assign"))
                    if not pk[1]:
                        self.defs.setdefault(pk[0], []).append(("assign", bid, i, s["rv"]))
                    rv = s["rv"]
                    if rv["k"] == "ref" and rv["mut"]:
                        self.writes.append((bid, i, place_key(rv["place"]), "mutref"))
                    if rv["k"] == "rawptr":
                        self.writes.append((bid, i, place_key(rv["place"]), "mutref"))
                elif s["k"] == "setdiscr":
                    self.writes.append((bid, i, place_key(s["place"]), "assign"))
            t = b["term"]
            if t["k"] == "call":
                pk = place_key(t["dest"])
                self.writes.append((bid, "term", pk, "call"))
                if not pk[1]:
                    self.defs.setdefault(pk[0], []).append(("call", bid, "term", t))
        self._canon = {}
        self._val = {}

    def has_partial_writes(self, l):
        pw = getattr(self, "_pw", None)
        if pw is None:
            pw = set()
            for bid, idx, pk, kind in self.writes:
                if pk[1] or kind == "mutref":
                    pw.add(pk[0])
            self._pw = pw
        return l in pw

    def unique_def(self, l):
        d = self.defs.get(l)
        if d is not None and len(d) == 1 and (l > self.fn.nargs or l == 0):
            return d[0]
        return None

    # ---- canonical places ----
    def canon(self, pk, depth=0):
        """Follow unique-definition copies/moves/refs/view-calls so that `&x`, `*(&x)`, `Deref::deref(&x)` and `x` agree."""
        l, proj = pk
        if depth > 24:
            return pk
        d = self.unique_def(l)
        if d is None:
            return pk
        kind = d[0]
        if kind == "assign":
            rv = d[3]
            if rv["k"] == "use":
                o = rv["ops"][0]
                if o.get("k") in ("copy", "move"):
                    inner = place_key(o)
                    return self.canon((inner[0], inner[1] + proj), depth + 1)
                return pk
            if rv["k"] == "ref" or rv["k"] == "rawptr":
                inner = place_key(rv["place"])
                if proj and proj[0] == "*":
                    return self.canon((inner[0], inner[1] + proj[1:]), depth + 1)
                if not proj:
                    # a bare reference local: represent as ("&", target)
                    return pk
                return pk
            if rv["k"] == "cast":
                o = rv["ops"][0]
                if o.get("k") in ("copy", "move") and ("Unsize" in rv["cast"] or "Transmute" in rv["cast"] or "PtrToPtr" in rv["cast"]):
                    inner = place_key(o)
                    return self.canon((inner[0], inner[1] + proj), depth + 1)
            return pk
        if kind == "call":
            t = d[3]
            name = callee_name(t)
            if is_view_call(name) and t["args"] and proj and proj[0] == "*":
                a = t["args"][0]
                if a.get("k") in ("copy", "move"):
                    tgt = self.referent(place_key(a), depth + 1)
                    if tgt is not None:
                        return self.canon((tgt[0], tgt[1] + proj[1:]), depth + 1)
            return pk
        return pk

    def referent(self, pk, depth=0):
        """the canonical place a reference-typed place points to (`*pk`), if it can be determined"""
        c = self.canon((pk[0], pk[1] + ("*",)), depth)
        if c[1] and c[1][-1] == "*" and c[0] == pk[0] and c[1][:-1] == pk[1]:
            # unchanged: pk is a reference we cannot see through (parameter, field, call result): the referent is `*pk` itself
            return c
        return c

    # ---- value expressions ----
    def val_operand(self, o, depth=0):
        k = o.get("k")
        if k == "const":
            if "fn" in o:
                return ("fn", o["fn"])
            if "promoted" in o:
                from . import facts as _facts
                pc = None
                if _facts.CURRENT is not None:
                    pc = _facts.CURRENT.promoted_const.get("%s::{promoted#%d}" % (o["promoted_of"], o["promoted"]))
                if pc is not None:
                    return ("const", pc.get("v"), pc.get("item"), pc.get("ty"))
                return ("promoted", o["promoted_of"], o["promoted"])
            return ("const", o.get("v"), o.get("item"), o.get("ty"))
        if k in ("copy", "move"):
            return self.val_place(place_key(o), depth)
        return ("unknown",)

    def val_place(self, pk, depth=0):
        l, proj = pk
        if depth > 16:
            return ("place", self.canon(pk))
        if not proj:
            d = self.unique_def(l)
            if d is not None:
                if d[0] == "assign":
                    return self.val_rvalue(d[3], depth + 1, d[1])
                if d[0] == "call":
                    return self.val_call(d[3], depth + 1, d[1])
            return ("place", self.canon(pk))
        c = self.canon(pk)
        if c != pk and not c[1]:
            return self.val_place(c, depth + 1)
        # field of a unique-def aggregate / tuple (only when no field of that local is ever written separately)
        d = self.unique_def(c[0])
        if d is not None and d[0] == "assign" and d[3]["k"] == "aggregate" and c[1] and c[1][0][0] == "f" and len(c[1]) == 1 and not self.has_partial_writes(c[0]):
            ops = d[3]["ops"]
            i = c[1][0][1]
            if i < len(ops):
                return self.val_operand(ops[i], depth + 1)
        # ... and through it: `*(tuple.0)` where the field holds a reference or a constant (arguments of an inlined closure call)
        if d is not None and d[0] == "assign" and d[3]["k"] == "aggregate" and d[3].get("agg") in ("tuple", "adt", "closure") \
                and len(c[1]) >= 2 and isinstance(c[1][0], tuple) and c[1][0][0] == "f" and not self.has_partial_writes(c[0]) and depth < 12:
            ops = d[3]["ops"]
            i = c[1][0][1]
            rest = c[1][1:]
            if i < len(ops):
                inner = self.val_operand(ops[i], depth + 1)
                if inner[0] in ("const", "call") and all(e == "*" for e in rest):
                    return inner        # `*(tuple.0)` where the field is a `&str` constant / the `&str` a call returned: the text itself
                if inner[0] == "ref" and rest and rest[0] == "*":
                    return self.val_place((inner[1][0], tuple(inner[1][1]) + tuple(rest[1:])), depth + 1)
                if inner[0] == "place":
                    return self.val_place((inner[1][0], tuple(inner[1][1]) + tuple(rest)), depth + 1)
        # `.0` of a checked arithmetic pair is the arithmetic result
        if d is not None and d[0] == "assign" and d[3]["k"] == "binop" and d[3]["op"].endswith("WithOverflow") and len(c[1]) == 1 and c[1][0][0] == "f" and c[1][0][1] == 0:
            rv = d[3]
            return ("binop", rv["op"][:-len("WithOverflow")], self.val_operand(rv["ops"][0], depth + 1), self.val_operand(rv["ops"][1], depth + 1))
        # field of a constant struct
        if d is not None and d[0] == "assign" and d[3]["k"] == "use" and d[3]["ops"][0].get("k") == "const":
            v = d[3]["ops"][0]
            if "promoted" in v:
                pv = self.val_operand(v)
                v = {"v": pv[1], "item": pv[2]} if pv[0] == "const" else {"v": None, "item": None}
            cur = v.get("v")
            path = []
            ok = True
            for e in c[1]:
                if e == "*":
                    continue
                if e[0] == "f" and isinstance(cur, dict) and "fields" in cur and e[2] in cur["fields"]:
                    cur = cur["fields"][e[2]]
                    path.append(e[2])
                elif e[0] == "i" and isinstance(cur, dict) and "fields" in cur and depth < 12:
                    # CONST_ARRAY[k] with a constant k
                    iv = self.val_place((e[1], ()), depth + 1)
                    if iv[0] == "const" and isinstance(iv[1], int) and not isinstance(iv[1], bool) and str(iv[1]) in cur["fields"]:
                        cur = cur["fields"][str(iv[1])]
                        path.append(str(iv[1]))
                    else:
                        ok = False
                        break
                elif e[0] == "ci" and isinstance(cur, dict) and "fields" in cur and str(e[1]) in cur["fields"]:
                    cur = cur["fields"][str(e[1])]
                    path.append(str(e[1]))
                else:
                    ok = False
                    break
            if ok:
                return ("const", cur, (v.get("item") or "") + ("." + ".".join(path) if path else ""), None)
        return ("place", c)

    def val_rvalue(self, rv, depth, bid):
        k = rv["k"]
        if k == "use":
            return self.val_operand(rv["ops"][0], depth)
        if k == "ref" or k == "rawptr":
            c = self.canon(place_key(rv["place"]))
            if c[1]:
                inner = self.val_place(c, depth + 1)
                if inner[0] == "const":
                    return inner     # a reference to (a field of) a constant is that constant for our purposes
                if inner[0] == "call" and c[1][-1] == "*" and k == "ref" and any(isinstance(e, tuple) and e[0] == "f" for e in c[1]):
                    return inner     # `&*(tuple.0)` where the field holds the reference a call returned: a reborrow of that reference
            return ("ref", c)
        if k == "binop":
            return ("binop", rv["op"], self.val_operand(rv["ops"][0], depth), self.val_operand(rv["ops"][1], depth))
        if k == "unop":
            return ("unop", rv["op"], self.val_operand(rv["ops"][0], depth))
        if k == "cast":
            return ("cast", rv["to"], self.val_operand(rv["ops"][0], depth))
        if k == "discr":
            return ("discr", self.canon(place_key(rv["place"])))
        if k == "aggregate":
            return ("aggregate", rv.get("agg"), rv.get("adt") or rv.get("closure"), tuple(self.val_operand(o, depth) for o in rv["ops"]), tuple(rv.get("fields", [])))
        return ("unknown",)

    def val_call(self, t, depth, bid):
        name = callee_name(t)
        args = tuple(self.val_operand(a, depth) for a in t["args"])
        return ("call", name, args, bid)

    def val_local(self, l):
        return self.val_place((l, ()))


_du_cache = {}


def du_of(fn):
    d = _du_cache.get(id(fn))
    if d is None:
        d = DU(fn)
        _du_cache[id(fn)] = d
    return d


def val_ref_target(du, v):
    """if value v is (a reference to / view of) a canonical place, return that place"""
    if v[0] == "ref":
        return v[1]
    if v[0] == "place":
        # a reference-typed place we cannot see through: its referent
        return (v[1][0], v[1][1] + ("*",))
    if v[0] == "call" and is_view_call(v[1]) and v[2]:
        return val_ref_target(du, v[2][0])
    return None


def places_overlap(a, b):
    """two canonical places alias syntactically (same local, one projection a prefix of the other)"""
    if a[0] != b[0]:
        return False
    n = min(len(a[1]), len(b[1]))
    return a[1][:n] == b[1][:n]


def leaves(v, out=None, depth=0):
    """leaf set of a value expression: constants, places, fn items, calls kept as nodes"""
    if out is None:
        out = []
    if depth > 40:
        return out
    k = v[0]
    if k in ("const", "place", "ref", "fn", "promoted", "unknown", "discr"):
        out.append(v)
    elif k == "binop":
        leaves(v[2], out, depth + 1); leaves(v[3], out, depth + 1)
    elif k in ("unop", "cast"):
        leaves(v[2], out, depth + 1)
    elif k == "aggregate":
        for x in v[3]:
            leaves(x, out, depth + 1)
    elif k == "call":
        out.append(v)
        for x in v[2]:
            leaves(x, out, depth + 1)
    return out
