import re
"""A10 (numeric side conditions of the panic inventory): two small, sound-by-construction engines over value expressions.

1. Intervals: an expression tree is evaluated over [lo, hi] using only the types of its leaves, constants, and the documented
   ranges of a few producers (`len()` <= isize::MAX, `to_digit(r)` < r, `x % k`, `x & m`, `x >> k`, widening casts, min/max).
   An Overflow(op) assert whose result interval fits the operand type cannot fire.
2. Difference constraints: comparisons on dominating SwitchInt edges (guards.py: ('lt'|'le', a, b), ('len>=', place, k)) whose
   operands are not rewritten between the edge and the use are normalised to `x - y <= c` over linear terms base+offset
   (bases: a place, a call result, LEN(place), ZERO); `a - b <= c` is decided by shortest paths.  `min(u, v)` terms are
   handled by their definition (M <= u, M <= v; x <= M iff x <= u and x <= v).
   Used for: BoundsCheck (idx < len), range indexing of slices / Vec (start <= end <= len), Overflow(Sub) (subtrahend <= minuend),
   Overflow(Add) of an index that is bounded by a length.

Everything that is not proved stays a reported site; nothing here ever turns a site into a violation."""
from .dataflow import val_ref_target
from .guards import strip_casts, const_int, len_of, value_kills

from .ints import ty_range, val_ty, strip_widening

ZERO = ("zero",)
ISIZE_MAX = (1 << 63) - 1
MIN_FNS = ("std::cmp::min", "core::cmp::min", "std::cmp::Ord::min")
MAX_FNS = ("std::cmp::max", "core::cmp::max", "std::cmp::Ord::max")


def _const_array_len(v):
    """`CONST_ARRAY.len()`: the number of elements of a constant array"""
    if v[0] == "call" and v[1] and v[1].endswith("::len") and v[2]:
        a = v[2][0]
        while a[0] in ("cast",):
            a = a[2]
        if a[0] == "const" and isinstance(a[1], dict) and isinstance(a[1].get("fields"), dict):
            keys = list(a[1]["fields"].keys())
            if keys and all(k.isdigit() for k in keys) and sorted(int(k) for k in keys) == list(range(len(keys))) and ("[" in str(v[2][0][1]) if v[2][0][0] == "cast" else True):
                return len(keys)
    return None


def _is(name, fns):
    return bool(name) and any(name == f or name.startswith(f + "::<") for f in fns)


class Numeric:
    def __init__(self, fn, du, g):
        self.fn, self.du, self.g = fn, du, g
        self._valid = {}
        self._vals = {}
        self.ignore_write = None     # (block, stmt index): evaluate facts just before this assignment
        self.use_block = None        # the block at which the current question is asked (lengths are unified relative to it)
        self._hull_depth = 0

    # ------------------------------------------------------------------ types
    def ty_of(self, v):
        t = val_ty(self.fn, v)
        if t is None and v[0] == "place" and v[1][1]:
            # element of a byte buffer
            base_ty = self.fn.local_ty(v[1][0]) or ""
            last = v[1][1][-1]
            if isinstance(last, tuple) and last[0] in ("i", "ci") and ("[u8]" in base_ty or "Vec<u8>" in base_ty or "[u8;" in base_ty):
                return "u8"
        return t

    # -------------------------------------------------------------- intervals
    def interval(self, v, depth=0):
        """(lo, hi) or None (unknown type)"""
        if depth > 24:
            return None
        k = const_int(v)
        if k is not None:
            return (k, k)
        if v[0] == "const" and isinstance(v[1], bool):
            return (int(v[1]), int(v[1]))
        if v[0] == "cast":
            inner = self.interval(v[2], depth + 1)
            tr = ty_range(v[1])
            if inner is not None and tr is not None and tr[0] <= inner[0] and inner[1] <= tr[1]:
                return inner            # value-preserving cast
            return tr
        if v[0] == "call" and v[1]:
            n = v[1]
            ck = _const_array_len(v)
            if ck is not None:
                return (ck, ck)
            if n.endswith("::len") or n.endswith("::count") or n.endswith("::capacity"):
                return (0, ISIZE_MAX)
            if (n.endswith("::unwrap") or n.endswith("::expect")) and v[2]:
                inner = v[2][0]
                if inner[0] == "call" and inner[1] and inner[1].endswith("::to_digit") and len(inner[2]) == 2:
                    r = const_int(strip_casts(inner[2][1]))
                    if r is not None and 2 <= r <= 36:
                        return (0, r - 1)
                if inner[0] == "call" and inner[1] and any(inner[1].endswith(x) for x in ("::read_until", "::read_line", "::read", "::read_to_end", "::read_to_string", "::write", "::position")):
                    return (0, ISIZE_MAX)   # byte counts of in-memory buffers
            if _is(n, MIN_FNS) and len(v[2]) == 2:
                a, b = self.interval(v[2][0], depth + 1), self.interval(v[2][1], depth + 1)
                if a and b:
                    return (min(a[0], b[0]), min(a[1], b[1]))
                t = a or b
                if t:                      # min(x, y) <= the known side, >= type minimum (unsigned: 0)
                    return (min(t[0], 0), t[1])
            if _is(n, MAX_FNS) and len(v[2]) == 2:
                a, b = self.interval(v[2][0], depth + 1), self.interval(v[2][1], depth + 1)
                if a and b:
                    return (max(a[0], b[0]), max(a[1], b[1]))
            return ty_range(self.ty_of(v) or "")
        if v[0] == "unop" and v[1] == "PtrMetadata":
            return (0, ISIZE_MAX)
        if v[0] == "binop":
            op = v[1].replace("WithOverflow", "").replace("Unchecked", "")
            a, b = self.interval(v[2], depth + 1), self.interval(v[3], depth + 1)
            ty = self.ty_of(v[2]) or self.ty_of(v[3])
            tr = ty_range(ty or "")
            if op in ("Rem",) and b and b[0] > 0 and (a is None or a[0] >= 0) and tr and tr[0] == 0:
                return (0, b[1] - 1)
            if op == "BitAnd" and tr and tr[0] == 0:
                his = [x[1] for x in (a, b) if x]
                if his:
                    return (0, min(his))
            if a is None or b is None:
                return tr
            if op == "Add":
                return (a[0] + b[0], a[1] + b[1])
            if op == "Sub":
                return (a[0] - b[1], a[1] - b[0])
            if op == "Mul" and a[0] >= 0 and b[0] >= 0:
                return (a[0] * b[0], a[1] * b[1])
            if op == "Div" and b[0] > 0 and a[0] >= 0:
                return (a[0] // b[1], a[1] // b[0])
            if op == "Shr" and a[0] >= 0 and b[0] == b[1] and 0 <= b[0] < 128:
                return (a[0] >> b[0], a[1] >> b[0])
            if op == "Shl" and a[0] >= 0 and b[0] == b[1] and 0 <= b[0] < 128:
                return (a[0] << b[0], a[1] << b[0])
            if op in ("BitOr", "BitXor") and a[0] >= 0 and b[0] >= 0:
                bits = max(a[1].bit_length(), b[1].bit_length())
                return (0, (1 << bits) - 1)
            return tr
        if v[0] == "place":
            hull = self._param_hull(v) if not v[1][1] else None
            if hull is not None:
                return hull
            return ty_range(self.ty_of(v) or "")
        return None

    def _param_hull(self, v):
        """a parameter of a PRIVATE function that is never reassigned: when every call site passes a constant, the parameter is within
        the hull of those constants (`fn fixed_header(position: usize)` called with 0, 1, 2, 3)"""
        l = v[1][0]
        fn = self.fn
        if not (1 <= l <= fn.nargs) or not (getattr(fn, "vis", "") or "").startswith("Restricted"):
            return None
        if any(pk[0] == l for _, _, pk, _ in self.du.writes):
            return None
        from . import facts as _facts
        from .callgraph import callee_name
        from .dataflow import du_of
        F = _facts.CURRENT
        if F is None:
            return None
        sites = F.__dict__.setdefault("_call_sites", None)
        if sites is None:
            sites = {}
            for g in F.fns.values():
                for bid, t in g.calls():
                    c = callee_name(t)
                    if c in F.fns:
                        sites.setdefault(c, []).append((g, t))
            F.__dict__["_call_sites"] = sites
        cs = sites.get(fn.def_, [])
        if not cs:
            return None
        vals = []
        for g, t in cs:
            if l - 1 >= len(t["args"]):
                return None
            av = du_of(g).val_operand(t["args"][l - 1])
            k = const_int(strip_casts(av))
            if k is not None:
                vals.append(k)
                continue
            # not a literal: what the caller knows about it at the call (e.g. the item of `0..TABLE.len()`)
            if g is fn or self._hull_depth > 1:
                return None
            from .guards import guards_of
            gn = numeric_of(g, du_of(g), guards_of(g))
            gn._hull_depth = self._hull_depth + 1
            bid = next((b for b, tt in g.calls() if tt is t), None)
            lo, hi = (gn.lower_bound(av, bid), gn.upper_bound(av, bid)) if bid is not None else (None, None)
            if lo is None or hi is None:
                return None
            vals += [lo, hi]
        return (min(vals), max(vals))

    # ---------------------------------------------------------- linear terms
    def lin(self, v, depth=0):
        """value expression -> (base, offset); only value-preserving casts are looked through"""
        v = strip_widening(self.fn, v)
        k = const_int(v)
        if k is not None:
            return (ZERO, k)
        if depth < 12 and v[0] == "binop":
            op = v[1].replace("WithOverflow", "").replace("Unchecked", "")
            a, b = strip_widening(self.fn, v[2]), strip_widening(self.fn, v[3])
            if op == "Add":
                if const_int(b) is not None:
                    base, off = self.lin(a, depth + 1)
                    return (base, off + const_int(b))
                if const_int(a) is not None:
                    base, off = self.lin(b, depth + 1)
                    return (base, off + const_int(a))
            if op == "Sub" and const_int(b) is not None:
                base, off = self.lin(a, depth + 1)
                return (base, off - const_int(b))
        if depth < 12 and v[0] == "call" and (v[1] or "").endswith("Option::<T>::unwrap_or") and len(v[2]) == 2 and v[2][0][0] == "place" \
                and self.use_block is not None:
            # `o.unwrap_or(d)` where o is known to be Some at the point of use: the payload
            for cand in self._aliases(v[2][0][1]):
                if self.g.variant_guarded(cand, True, self.use_block):
                    return self.lin(("place", (v[2][0][1][0], tuple(v[2][0][1][1]) + (("d", "Some"), ("f", 0, "0")))), depth + 1)
        ck = _const_array_len(v)
        if ck is not None:
            return (ZERO, ck)
        L = len_of(self.du, v)
        if L is not None:
            place = self.du.canon(L)
            # a length is a snapshot taken where the call ran (v[3]); it is the container's length at the point of use only if
            # the container has not been written in between (n = v.len(); v.pop(); v[n - 1])
            if v[0] != "call" or self._unmodified(place, v[3]):
                return (("len", place), 0)
            key = repr(v)
            self._vals[key] = v
            return (("val", key), 0)
        if v[0] == "unop" and v[1] == "PtrMetadata":
            tgt = val_ref_target(self.du, v[2])
            if tgt is not None:
                return (("len", self.du.canon(tgt)), 0)
        key = repr(v)
        self._vals[key] = v
        return (("val", key), 0)

    def _aliases(self, pk):
        """the place and the places it was moved into unchanged (`(a, b)` tuple fields matched instead of the locals themselves)"""
        out = [self.du.canon(pk)]
        l, proj = pk
        if not proj:
            for bid, blk in self.du.blocks.items():
                for st in blk["stmts"]:
                    if st["k"] == "assign" and st["rv"]["k"] == "aggregate" and st["rv"].get("agg") == "tuple" and not st["place"]["p"]:
                        for i, o in enumerate(st["rv"]["ops"]):
                            if o.get("k") in ("copy", "move") and o["l"] == l and not o["p"]:
                                out.append((st["place"]["l"], (("f", i, str(i)),)))
        return out

    def _unmodified(self, place, since_block):
        block = self.use_block
        if block is None:
            return False
        cfg = self.g.cfg
        after = cfg.reachable_from(since_block)
        for kb, kidx, kind in self.g._killers(place):
            if self.ignore_write is not None and (kb, kidx) == self.ignore_write:
                continue
            if kb == since_block:
                # a write in the block that ends with the len() call precedes the call
                continue
            if kb in after and (kb == block or block in cfg.reachable_from(kb, removed_nodes=(since_block,))):
                return False
        return True

    # ------------------------------------------------------------ constraints
    def _fact_valid(self, f, block):
        key = (repr(f), block, self.ignore_write)
        c = self._valid.get(key)
        if c is not None:
            return c
        g = self.g
        ok = False
        if f[0] in ("lt", "le"):
            ok, edges = g.holds_at(lambda x: x == f, block, None)
            if ok:
                for v in (f[1], f[2]):
                    for kind, x in value_kills(v):
                        if kind == "place":
                            ok2, _ = g.holds_at(lambda y: y == f, block, x, self.ignore_write)
                            if not ok2:
                                ok = False
                        elif block in g.cfg.reachable_from(x, removed_edges=edges):
                            ok = False
        elif f[0] == "len>=":
            ok, _ = g.holds_at(lambda x: x == f, block, f[1], self.ignore_write)
        self._valid[key] = bool(ok)
        return bool(ok)

    def _len_places(self, v, out=None, depth=0):
        if out is None:
            out = []
        if depth > 12:
            return out
        v = strip_widening(self.fn, v)
        L = len_of(self.du, v)
        if L is not None:
            out.append(self.du.canon(L))
        elif v[0] == "unop" and v[1] == "PtrMetadata":
            t = val_ref_target(self.du, v[2])
            if t is not None:
                out.append(self.du.canon(t))
        elif v[0] == "binop":
            self._len_places(v[2], out, depth + 1); self._len_places(v[3], out, depth + 1)
        elif v[0] == "call" and _is(v[1], MIN_FNS + MAX_FNS):
            for a in v[2]:
                self._len_places(a, out, depth + 1)
        return out

    def constraints_at(self, block):
        """list of (x, y, c): x - y <= c, from facts valid at `block`"""
        self.use_block = block
        out = []
        seen = set()
        for e, f in self.g.facts():
            if f[0] not in ("lt", "le", "len>=") or repr(f) in seen:
                continue
            seen.add(repr(f))
            if not self._fact_valid(f, block):
                continue
            if f[0] == "len>=":
                out.append((ZERO, ("len", self.du.canon(f[1])), -f[2]))
                continue
            (ba, ca), (bb, cb) = self.lin(f[1]), self.lin(f[2])
            # a + ca (<|<=) b + cb   =>   ba - bb <= cb - ca (- 1)
            out.append((ba, bb, cb - ca - (1 if f[0] == "lt" else 0)))
        return out

    def _range_item_bounds(self, v, block):
        """v = the `Some` payload of `<Range<_> as Iterator>::next(&mut it)` with `it = (a..b).into_iter()`: a <= v < b, provided
        nothing a or b was computed from is written between the creation of the iterator and the use"""
        from .guards import value_kills
        path = tuple(e for e in v[1][1] if e != "*")
        if len(path) != 2 or path[0] != ("d", "Some") or path[1][0] != "f" or path[1][1] != 0:
            return None
        du = self.du
        ds = du.defs.get(v[1][0], [])
        if len(ds) != 1 or ds[0][0] != "call":
            return None
        t = ds[0][3]
        from .callgraph import callee_name
        cn = callee_name(t) or ""
        if not cn.endswith("::next") or "std::ops::Range<" not in " ".join(t.get("arg_tys", []) + [cn]) or "RangeInclusive" in " ".join(t.get("arg_tys", [])):
            return None
        it = val_ref_target(du, du.val_operand(t["args"][0])) if t["args"] else None
        if it is None:
            return None
        it = du.canon(it)
        if it[1]:
            return None
        ids = du.defs.get(it[0], [])
        if len(ids) != 1:
            return None
        rv = du.val_call(ids[0][3], 0, ids[0][1]) if ids[0][0] == "call" else du.val_rvalue(ids[0][3], 0, ids[0][1])
        created = ids[0][1]
        if rv[0] == "call" and rv[1] and rv[1].endswith("::into_iter") and rv[2]:
            rv = rv[2][0]
        if rv[0] != "aggregate" or rv[2] != "std::ops::Range" or len(rv[3]) != 2:
            return None
        start, end = rv[3]
        cfg = self.g.cfg
        for side in (start, end):
            for kind, x in value_kills(side):
                if kind != "place":
                    continue
                for kb, kidx, kk in self.g._killers(x):
                    if kb in cfg.reachable_from(created) and block is not None and (kb == block or block in cfg.reachable_from(kb, removed_nodes=(created,))):
                        return None
        return self.lin(start), self.lin(end)

    def _monotone_bound(self, l, block):
        """local l with several definitions, each either a linear term over one common base (`kept.len()`, `n + 2`) or `l - c`, c >= 0
        (a counter that only shrinks): then l <= base + max offset wherever the base still has the value it had at those definitions"""
        du = self.du
        defs = du.defs.get(l, [])
        if len(defs) < 2:
            return None
        for bid, idx, pk, kind in du.writes:
            if pk[0] == l and (pk[1] or kind == "mutref"):
                return None
        base, offs, dblocks = None, [], []
        for d in defs:
            if d[0] == "assign":
                e = du.val_rvalue(d[3], 0, d[1])
            elif d[0] == "call":
                e = du.val_call(d[3], 0, d[1])
            else:
                return None
            b, c = self.lin(e)
            if b == ("val", repr(("place", (l, ())))):
                if c > 0:
                    return None          # grows
                continue
            if base is None:
                base = b
            elif base != b:
                return None
            offs.append(c)
            dblocks.append(d[1])
        if base is None or not (base == ZERO or base[0] == "len"):
            return None          # only constants and lengths are tracked as bases
        # the base must be unchanged between the initial definitions and the use
        if base[0] == "len":
            place = base[1]
            for kb, kidx, kind in self.g._killers(place):
                for db in dblocks:
                    if kb != db and kb in self.g.cfg.reachable_from(db) and block in self.g.cfg.reachable_from(kb):
                        return None
        elif base != ZERO:
            return None
        return base, max(offs)

    def _builtin(self, nodes, cons, block=None):
        done = set()
        while len(done) < 400:
            # nodes introduced by an earlier step (the end of a range whose item is compared) get their own constraints too
            pending = [x for x in nodes if x not in done]
            if not pending:
                break
            n = pending[0]
            done.add(n)
            if n[0] == "len":
                cons.append((ZERO, n, 0))
                cons.append((n, ZERO, ISIZE_MAX))
            elif n[0] == "val":
                v = self._vals[n[1]]
                iv = self.interval(v)
                if iv is not None:
                    cons.append((ZERO, n, -iv[0]))      # 0 - x <= -lo
                    cons.append((n, ZERO, iv[1]))       # x - 0 <= hi
                if v[0] == "place" and v[1][1]:
                    rb = self._range_item_bounds(v, block)
                    if rb is not None:
                        (sb_, so_), (eb_, eo_) = rb
                        nodes.add(sb_); nodes.add(eb_)
                        cons.append((n, eb_, eo_ - 1))      # item <= end - 1
                        cons.append((sb_, n, -so_))         # start <= item
                if v[0] == "place" and not v[1][1]:
                    inv = self._monotone_bound(v[1][0], block)
                    if inv is not None:
                        b, c = inv
                        nodes.add(b)
                        cons.append((n, b, c))          # x <= b + c: every definition of x is b + c' (c' <= c) or x minus a constant
                if v[0] == "call" and v[1] and (v[1].endswith("::unwrap") or v[1].endswith("::expect")) and v[2] and v[2][0][0] == "call":
                    rd = v[2][0]
                    if rd[1] in ("std::io::Read::read", "<std::io::Cursor<T> as std::io::Read>::read") and len(rd[2]) == 2:
                        # the Read contract: Ok(n) implies n <= buf.len() (buf must be the whole slice / vector, unmodified since)
                        tgt = val_ref_target(self.du, rd[2][1])
                        if tgt is not None:
                            place = self.du.canon(tgt)
                            stale = any(kb != rd[3] and kb in self.g.cfg.reachable_from(rd[3]) and block is not None and block in self.g.cfg.reachable_from(kb)
                                        for kb, kidx, kind in self.g._killers(place) if kind != "mutref" or kb != rd[3])
                            if not stale:
                                L = ("len", place)
                                nodes.add(L)
                                cons.append((n, L, 0))
                if v[0] == "call" and _is(v[1], MIN_FNS) and len(v[2]) == 2:
                    for side in v[2]:
                        b, c = self.lin(side)
                        nodes.add(b)
                        cons.append((n, b, c))          # M <= side
                if v[0] == "call" and _is(v[1], MAX_FNS) and len(v[2]) == 2:
                    for side in v[2]:
                        b, c = self.lin(side)
                        nodes.add(b)
                        cons.append((b, n, -c))         # side <= M

    def prove_le(self, a, b, c, block, depth=0):
        """a - b <= c at `block` (a, b value expressions)"""
        self.use_block = block
        (ba, ca), (bb, cb) = self.lin(a), self.lin(b)
        return self._prove(ba, bb, c - ca + cb, block, depth)

    def _prove(self, x, y, c, block, depth=0):
        """x - y <= c over bases"""
        if x == y:
            return c >= 0
        if depth > 3:
            return False
        # goal with a min on the right: x <= min(u, v) + c  iff  both
        yv = self._vals.get(y[1]) if y[0] == "val" else None
        xv = self._vals.get(x[1]) if x[0] == "val" else None
        if yv is not None and yv[0] == "call" and _is(yv[1], MIN_FNS) and len(yv[2]) == 2:
            ok = True
            for side in yv[2]:
                b, off = self.lin(side)
                if not self._prove(x, b, c + off, block, depth + 1):
                    ok = False
            if ok:
                return True
        if xv is not None and xv[0] == "call" and _is(xv[1], MAX_FNS) and len(xv[2]) == 2:
            ok = True
            for side in xv[2]:
                b, off = self.lin(side)
                if not self._prove(b, y, c - off, block, depth + 1):
                    ok = False
            if ok:
                return True
        d = self._dist(y, x, block)
        return d is not None and d <= c

    def _dist(self, y, x, block):
        """tightest c with x - y <= c derivable at `block` (None: unbounded / contradictory facts)"""
        cons = self.constraints_at(block)
        nodes = {x, y, ZERO}
        for p, q, _ in cons:
            nodes.add(p); nodes.add(q)
        cons = list(cons)
        self._builtin(nodes, cons, block)
        for p, q, _ in cons:
            nodes.add(p); nodes.add(q)
        # x - y <= c  <=>  shortest path y -> x (edge q -> p of weight w for p - q <= w) has length <= c
        INF = float("inf")
        dist = {n: INF for n in nodes}
        dist[y] = 0
        for _ in range(len(nodes) + 1):
            changed = False
            for p, q, w in cons:
                if dist[q] != INF and dist[q] + w < dist[p]:
                    dist[p] = dist[q] + w
                    changed = True
            if not changed:
                break
        else:
            return None        # negative cycle: contradictory facts (dead code) - do not conclude anything
        return dist[x] if dist[x] != INF else None

    def prove_le_len(self, v, place, c, block):
        """v - LEN(place) <= c"""
        self.use_block = block
        # a fixed-size array: its length is the constant of its type
        cp = self.du.canon(place)
        if not cp[1]:
            m = re.fullmatch(r"\[.+; (\d+)\]", (self.fn.local_ty(cp[0]) or "").lstrip("&").replace("mut ", ""))
            if m:
                hi = self.upper_bound(v, block)
                return hi is not None and hi - int(m.group(1)) <= c
        base, off = self.lin(v)
        return self._prove(base, ("len", self.du.canon(place)), c - off, block)

    # ------------------------------------------------------------- obligations
    def upper_bound(self, v, block, depth=0):
        """best known upper bound of v at block (interval, tightened by constraints to ZERO)"""
        self.use_block = block
        iv = self.interval(v)
        hi = iv[1] if iv else None
        base, off = self.lin(v)
        if base == ZERO:
            return off
        # binary search is overkill: test a few useful thresholds
        d = self._dist(ZERO, base, block)            # base - 0 <= d
        if d is not None and (hi is None or d + off < hi):
            hi = d + off
        # `a - b` / `a + b` of two bounded values (`4 - padding` where `padding <= 2` has been established)
        w = strip_widening(self.fn, v)
        if w[0] == "binop" and depth < 4:
            op = w[1].replace("WithOverflow", "").replace("Unchecked", "")
            if op == "Sub":
                x, y = self.upper_bound(w[2], block, depth + 1), self.lower_bound(w[3], block, depth + 1)
                if x is not None and y is not None and (hi is None or x - y < hi):
                    hi = x - y
            elif op == "Add":
                x, y = self.upper_bound(w[2], block, depth + 1), self.upper_bound(w[3], block, depth + 1)
                if x is not None and y is not None and (hi is None or x + y < hi):
                    hi = x + y
        return hi

    def lower_bound(self, v, block, depth=0):
        self.use_block = block
        iv = self.interval(v)
        lo = iv[0] if iv else None
        base, off = self.lin(v)
        if base == ZERO:
            return off
        d = self._dist(base, ZERO, block)            # 0 - base <= d, i.e. base >= -d
        if d is not None and (lo is None or -d + off > lo):
            lo = -d + off
        w = strip_widening(self.fn, v)
        if w[0] == "binop" and depth < 4:
            op = w[1].replace("WithOverflow", "").replace("Unchecked", "")
            if op == "Sub":
                x, y = self.lower_bound(w[2], block, depth + 1), self.upper_bound(w[3], block, depth + 1)
                if x is not None and y is not None and (lo is None or x - y > lo):
                    lo = x - y
            elif op == "Add":
                x, y = self.lower_bound(w[2], block, depth + 1), self.lower_bound(w[3], block, depth + 1)
                if x is not None and y is not None and (lo is None or x + y > lo):
                    lo = x + y
        return lo


def chain_fresh(du, cfg, o, use_block, use_idx=None, depth=0):
    """Value expressions expand a temporary with a single definition into its defining expression (flow-insensitively). That is
    only meaningful when the mutable locals read by that definition still hold the same values at the use:
    `let next = index + 3; index = 0; if index + 3 < len { bytes[next] }` must not be proved from the comparison.
    True iff no such local is written between the temporary's definition and the use (use_idx: statement index, None = terminator)."""
    from .dataflow import place_key
    if depth > 16 or o.get("k") not in ("copy", "move"):
        return True
    l = o["l"]
    d = du.unique_def(l)
    if d is None or l <= du.fn.nargs:
        return True                     # a leaf: facts about it are kill-checked where they are used
    dblock, didx = d[1], (d[2] if d[0] == "assign" else None)
    if d[0] == "assign":
        rv = d[3]
        operands = list(rv.get("ops", []))
        if rv.get("place") is not None:
            operands.append({"k": "copy", "l": rv["place"]["l"], "p": rv["place"].get("p", [])})
    else:
        return True      # a call result is a snapshot taken when the call ran; it does not read anything later
    for op in operands:
        if op.get("k") not in ("copy", "move"):
            continue
        m = op["l"]
        single = du.unique_def(m) is not None and m > du.fn.nargs
        if single and not chain_fresh(du, cfg, op, use_block, use_idx, depth + 1):
            return False
        # is m written between (dblock, didx) and the use?  For a single-definition local only mutation through `&mut` / a field
        # write counts (a vector that is pushed to or popped after its length was taken); its own definition precedes dblock.
        for bid, idx, pk, kind in du.writes:
            if pk[0] != m:
                continue
            if single and kind not in ("mutref",) and not pk[1]:
                continue
            if bid == dblock and bid == use_block:
                after_def = didx is None or idx > didx
                before_use = use_idx is None or idx < use_idx
                if after_def and before_use and didx is not None:
                    return False
                continue
            if bid == dblock:
                if didx is not None and idx > didx and use_block in cfg.reachable_from(dblock):
                    return False
                continue
            if bid == use_block:
                if (use_idx is None or idx < use_idx) and use_block in cfg.reachable_from(dblock):
                    # a write earlier in the use block: between, unless every path from the definition re-defines first (not tracked)
                    return False
                continue
            if bid in cfg.reachable_from(dblock) and use_block in cfg.reachable_from(bid, removed_nodes=(dblock,)):
                return False
    return True


_cache = {}


def numeric_of(fn, du, g):
    n = _cache.get(id(fn))
    if n is None:
        n = Numeric(fn, du, g)
        _cache[id(fn)] = n
    return n
