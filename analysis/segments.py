"""A12: segment-class evaluation of a containment predicate.

The predicate walks the segments of the path and keeps a depth: a counter (`depth += 1`, `depth -= 1`) or a stack (`push`, `pop`).
It is sound for C01 when the depth it keeps never exceeds the real depth of the path walked so far and a `..` met at depth 0 answers
`true` ("outside"). That is an inductive invariant of the loop body and it only depends on WHICH KIND of segment is looked at, so the body
is evaluated once per segment class ('..', '.', '', any other name) - every test of the segment (== / != with a constant, len, is_empty,
`match` on the text) decided by the class, every test of the depth against zero forked into its two assumptions - and each path through
the body must end in one of

    '..'      : return true              |  next segment with depth' <= depth - 1, on a path that has established depth >= 1
    '.', ''   : return true              |  next segment with depth' <= depth
    name      : return true              |  next segment with depth' <= depth + 1

and never in `return false` (a segment must not end the walk with "inside"). The depth starts at 0 (an empty stack).
Nothing is executed; the evaluation is over the MIR of the predicate as extracted from the current tree."""
from .cfg import cfg_of
from .dataflow import du_of, place_key
from .callgraph import callee_name
from .guards import strip_casts, const_int
from . import loops as L

CLASSES = ("..", ".", "", "<name>")
INT_TYS = ("usize", "isize", "u8", "u16", "u32", "u64", "u128", "i8", "i16", "i32", "i64", "i128")
CMP = {"Lt", "Le", "Gt", "Ge", "Eq", "Ne"}
FLIP = {"Lt": "Gt", "Le": "Ge", "Gt": "Lt", "Ge": "Le", "Eq": "Eq", "Ne": "Ne"}


def _cmp(op, a, b):
    return {"Lt": a < b, "Le": a <= b, "Gt": a > b, "Ge": a >= b, "Eq": a == b, "Ne": a != b}[op]


class Shape:
    pass


def find_shape(fn):
    """the segment loop, the segment value and the depth of a predicate; None when the function is not of this form"""
    cfg, du = cfg_of(fn), du_of(fn)
    lps = L.loops_of(fn)
    for lp in sorted(lps, key=lambda l: -len(l.body)):
        for bid in sorted(lp.body):
            t = cfg.blocks[bid]["term"]
            if t["k"] != "call":
                continue
            n = callee_name(t) or ""
            if not (n.endswith("as std::iter::Iterator>::next") or (t.get("callee") or "") == "std::iter::Iterator::next"):
                continue
            tys = " ".join(t.get("arg_tys", []) + t.get("gargs", []))
            # the plain `split(..)` iterator only: behind a filter / map / rev adaptor the loop body no longer sees every segment as it is
            import re as _re
            if not _re.search(r"(^|[ &]|mut )std::str::Split<", tys) or _re.search(r"std::iter::(Filter|Map|FilterMap|Rev|Skip|Take|Peekable|Enumerate|Chain|Zip)", tys) or t["dest"]["p"]:
                continue
            o = t["dest"]["l"]
            # the switch on the discriminant of the Option
            some_edge = None
            for sb in lp.body:
                st = cfg.blocks[sb]["term"]
                if st["k"] == "switch" and du.val_operand(st["discr"]) == ("discr", (o, ())):
                    for v, tb in st["targets"]:
                        if v == 1:
                            some_edge = (sb, tb)
                    if some_edge is None and len(st["targets"]) == 1 and st["targets"][0][0] == 0:
                        some_edge = (sb, st["otherwise"])
            if some_edge is None:
                continue
            sh = Shape()
            sh.loop, sh.next_block, sh.opt, sh.some_edge = lp, bid, o, some_edge
            sh.split_recv = du.val_operand(t["args"][0])
            # depth: an integer local defined by a constant outside the loop and redefined inside it, or a Vec pushed / popped inside it
            cands = []
            for l in range(1, len(fn.locals)):
                ty = fn.local_ty(l) or ""
                ds = du.defs.get(l, [])
                if ty in INT_TYS and fn.local_name(l):
                    outside = [d for d in ds if d[1] not in lp.body]
                    inside = [d for d in ds if d[1] in lp.body]
                    if outside and inside:
                        cands.append(("counter", l))
                elif ty.startswith("std::vec::Vec<") and fn.local_name(l):
                    used = False
                    for b2 in lp.body:
                        t2 = cfg.blocks[b2]["term"]
                        if t2["k"] == "call" and (callee_name(t2) or "").startswith("std::vec::Vec::<T, A>::") and (callee_name(t2) or "").endswith(("::push", "::pop")) and t2["args"]:
                            tgt = du.val_operand(t2["args"][0])
                            if tgt[0] == "ref" and tgt[1][0] == l:
                                used = True
                    if used:
                        cands.append(("stack", l))
            sh.depths = cands
            return sh
    return None


class SegEval:
    def __init__(self, fn, sh, kind, D):
        self.fn, self.sh, self.kind, self.D = fn, sh, kind, D
        self.cfg, self.du = cfg_of(fn), du_of(fn)

    # ---- classification of values
    def is_seg(self, v):
        while v[0] == "call" and v[1] and v[1].endswith(("::deref", "::as_str", "::as_ref", "::borrow")) and v[2]:
            v = v[2][0]
        if v[0] in ("ref", "place") and v[1][0] == self.sh.opt:
            path = tuple(e for e in v[1][1] if e != "*")
            return len(path) >= 2 and path[0][0] == "d" and path[0][1] == "Some"
        return False

    def is_depth(self, v):
        v = strip_casts(v)
        return v[0] == "place" and v[1] == (self.D, ())

    def depth_len(self, v):
        """len() / is_empty() of the stack"""
        v = strip_casts(v)
        if self.kind == "stack" and v[0] == "call" and v[1] and v[1].endswith(("::len",)) and v[2]:
            a = v[2][0]
            while a[0] == "call" and a[1] and a[1].endswith("::deref") and a[2]:
                a = a[2][0]
            return a[0] == "ref" and a[1][0] == self.D
        return False

    def cond(self, v, cls, delta):
        """('seg', bool) decided by the class | ('depth', test) with test = 'zero-when-true' / 'zero-when-false' / ('pos-when-false',) ... | None"""
        v = strip_casts(v)
        if v[0] == "const":
            if isinstance(v[1], bool):
                return ("seg", v[1])
            if isinstance(v[1], int):
                return ("seg", bool(v[1]))
            return None
        if v[0] == "unop" and v[1] == "Not":
            r = self.cond(v[2], cls, delta)
            if r is None:
                return None
            if r[0] == "seg":
                return ("seg", not r[1])
            return ("depth", r[2], r[1])        # swap what true / false establish
        if v[0] == "binop" and v[1] in ("BitAnd", "BitOr"):
            a, b = self.cond(v[2], cls, delta), self.cond(v[3], cls, delta)
            if a and b and a[0] == "seg" and b[0] == "seg":
                return ("seg", (a[1] and b[1]) if v[1] == "BitAnd" else (a[1] or b[1]))
            for x, y in ((a, b), (b, a)):
                if x and x[0] == "seg":
                    if v[1] == "BitAnd" and not x[1]:
                        return ("seg", False)
                    if v[1] == "BitOr" and x[1]:
                        return ("seg", True)
                    return y
            return None
        if v[0] == "call" and v[1] and "PartialEq" in v[1] and v[1].endswith(("::eq", "::ne")) and len(v[2]) == 2:
            a, b = v[2]
            for x, y in ((a, b), (b, a)):
                if self.is_seg(x) and y[0] == "const" and isinstance(y[1], str):
                    if cls == "<name>":
                        if y[1] in ("..", ".", ""):
                            r = False
                        else:
                            return None
                    else:
                        r = (y[1] == cls)
                    return ("seg", r if v[1].endswith("::eq") else (not r))
            return None
        if v[0] == "call" and v[1] and v[1].endswith("::is_empty") and v[2]:
            if self.is_seg(v[2][0]):
                return ("seg", cls == "")
            a = v[2][0]
            while a[0] == "call" and a[1] and a[1].endswith("::deref") and a[2]:
                a = a[2][0]
            if self.kind == "stack" and a[0] == "ref" and a[1][0] == self.D and delta == 0:
                return ("depth", "zero", "pos")
            return None
        if v[0] == "binop" and v[1] in CMP:
            a, b = strip_casts(v[2]), strip_casts(v[3])
            op = v[1]
            if const_int(a) is not None and const_int(b) is None:
                a, b, op = b, a, FLIP[op]
            k = const_int(b)
            if k is None:
                return None
            if a[0] == "call" and a[1] and a[1].endswith("::len") and a[2] and self.is_seg(a[2][0]):
                n = {"..": 2, ".": 1, "": 0}.get(cls)
                if n is not None:
                    return ("seg", _cmp(op, n, k))
                # a name has at least one byte: decided when every length >= 1 gives the same answer
                rs = {_cmp(op, n, k) for n in list(range(1, 66)) + [1 << 20, 1 << 40]}
                if len(rs) == 1 and k <= 64:
                    return ("seg", rs.pop())
                return None
            if self.is_depth(a) or (self.depth_len(a) and delta == 0):
                # what the true / the false edge establish about the depth d0 at the start of this turn (the value compared is d0 + delta)
                k = k - delta
                def est(truth):
                    vals0 = _cmp(op, 0, k) == truth          # depth 0 is compatible with this outcome
                    valsp = any(_cmp(op, n, k) == truth for n in (1, 2, 3, 1 << 20))
                    if vals0 and not valsp:
                        return "zero"
                    if valsp and not vals0:
                        return "pos"
                    return None
                return ("depth", est(True), est(False))
            return None
        return None

    def update(self, v, delta, assume):
        """new (delta, assume) for `D = v` (counter); None when the form is not understood"""
        v = strip_casts(v)
        if v[0] == "binop":
            op = v[1].replace("WithOverflow", "").replace("Unchecked", "")
            a, b = strip_casts(v[2]), strip_casts(v[3])
            if op in ("Add", "Sub"):
                if self.is_depth(a) and const_int(b) is not None:
                    k = const_int(b)
                    return delta + (k if op == "Add" else -k), assume
                if op == "Add" and self.is_depth(b) and const_int(a) is not None:
                    return delta + const_int(a), assume
        if v[0] == "call" and v[1] and v[2] and self.is_depth(v[2][0]) and len(v[2]) == 2 and const_int(strip_casts(v[2][1])) is not None:
            k = const_int(strip_casts(v[2][1]))
            if v[1].endswith(("::saturating_add", "::wrapping_add")):
                return delta + k, assume
            if v[1].endswith("::saturating_sub") or v[1].endswith("::wrapping_sub"):
                # without an established depth >= k this does not move below zero: the caller's assumption decides
                return (delta - k, assume) if assume == "pos" and k == 1 else (delta, assume)
        if v[0] == "place" and len(v[1][1]) >= 2 and v[1][1][0] == ("d", "Some"):
            src = self.du.val_place((v[1][0], ()))
            if src[0] == "call" and src[1] and src[1].endswith("::checked_sub") and src[2] and self.is_depth(src[2][0]) and const_int(strip_casts(src[2][1])) is not None:
                k = const_int(strip_casts(src[2][1]))
                return delta - k, ("pos" if k >= 1 else assume)
            if src[0] == "call" and src[1] and src[1].endswith("::checked_add") and src[2] and self.is_depth(src[2][0]) and const_int(strip_casts(src[2][1])) is not None:
                return delta + const_int(strip_casts(src[2][1])), assume
        if self.is_depth(v):
            return delta, assume
        if const_int(v) is not None:
            return None
        return None

    def run(self, cls):
        """list of outcomes: ('return', value, assume, line) / ('next', delta, assume, line) / ('unknown', why, line)"""
        cfg, du, sh = self.cfg, self.du, self.sh
        outs = []
        seen = set()
        stack = [(sh.some_edge[1], 0, None, None, False)]
        steps = 0
        while stack:
            b, delta, assume, ret, fuzzy = stack.pop()
            key = (b, delta, assume, ret, fuzzy)
            if key in seen:
                continue
            seen.add(key)
            steps += 1
            if steps > 4000 or abs(delta) > 8:
                outs.append(("unknown", "walk too large", cfg.blocks[b]["term"]["span"]["line"]))
                break
            blk = cfg.blocks[b]
            line = blk["term"]["span"]["line"]
            dead = False
            for s in blk["stmts"]:
                if s["k"] != "assign" or s["place"]["p"]:
                    continue
                l = s["place"]["l"]
                if l == self.D and self.kind == "counter":
                    rv = s["rv"]
                    v = du.val_operand(rv["ops"][0]) if rv["k"] == "use" else None
                    if v is None and rv["k"] == "binop":
                        v = ("binop", rv["op"]) + tuple(du.val_operand(o) for o in rv["ops"])
                    r = self.update(v, delta, assume) if v is not None else None
                    if r is None:
                        outs.append(("unknown", "the depth is assigned a value that is not depth +/- constant", s["span"]["line"]))
                        dead = True
                        break
                    delta, assume = r
                elif l == 0:
                    rv = s["rv"]
                    ret = rv["ops"][0].get("v") if rv["k"] == "use" and rv["ops"][0].get("k") == "const" and isinstance(rv["ops"][0].get("v"), bool) else "?"
            if dead:
                continue
            t = blk["term"]
            k = t["k"]
            if k == "return":
                outs.append(("return", ret, assume, line, fuzzy))
                continue
            if k == "call":
                n = callee_name(t) or ""
                tgt = t.get("target")
                if b == sh.next_block:
                    outs.append(("next", delta, assume, line, fuzzy))
                    continue
                if self.kind == "stack" and t["args"]:
                    a0 = du.val_operand(t["args"][0])
                    if a0[0] == "ref" and a0[1][0] == self.D:
                        if n.endswith("::push"):
                            delta += 1
                        elif n.endswith("::pop"):
                            # decided where the Option is tested: Some = there was an element
                            self._pops = getattr(self, "_pops", {})
                            self._pops[t["dest"]["l"]] = True
                        elif n.endswith(("::clear", "::truncate", "::drain", "::remove", "::swap_remove", "::retain")):
                            pass        # only shrinks
                        elif n.endswith(("::extend", "::insert", "::append", "::extend_from_slice", "::resize")):
                            outs.append(("unknown", "the stack grows by %s" % n, line))
                            continue
                if t["dest"] is not None and not t["dest"]["p"] and t["dest"]["l"] == self.D and self.kind == "counter":
                    v = ("call", n, tuple(du.val_operand(a) for a in t["args"]), b)
                    r = self.update(v, delta, assume)
                    if r is None:
                        outs.append(("unknown", "the depth is assigned the result of %s" % n, line))
                        continue
                    delta, assume = r
                if isinstance(tgt, int):
                    stack.append((tgt, delta, assume, ret, fuzzy))
                continue
            if k == "switch":
                v = du.val_operand(t["discr"])
                # `match stack.pop()` / `if let Some(..) = stack.pop()`
                if v[0] == "discr" and self.kind == "stack":
                    src = du.val_place((v[1][0], ()))
                    if src[0] == "call" and src[1] and src[1].endswith("::pop") and src[2] and src[2][0][0] == "ref" and src[2][0][1][0] == self.D:
                        for val, tb in t["targets"] + [[None, t["otherwise"]]]:
                            if val == 1 or (val is None and not any(x[0] == 1 for x in t["targets"])):
                                if assume != "zero":
                                    stack.append((tb, delta - 1, "pos", ret, fuzzy))
                            elif val == 0:
                                if assume != "pos":
                                    stack.append((tb, delta, "zero", ret, fuzzy))
                        continue
                # `stack.pop().is_none()` / `.is_some()`
                vv, neg = v, False
                while vv[0] == "unop" and vv[1] == "Not":
                    vv, neg = vv[2], not neg
                if self.kind == "stack" and t.get("discr_ty") == "bool" and vv[0] == "call" and vv[1] and vv[1].endswith(("Option::<T>::is_none", "Option::<T>::is_some")) and vv[2] and vv[2][0][0] == "ref":
                    src = du.val_place((vv[2][0][1][0], ()))
                    if src[0] == "call" and src[1] and src[1].endswith("::pop") and src[2] and src[2][0][0] == "ref" and src[2][0][1][0] == self.D:
                        none_when_true = vv[1].endswith("is_none") != neg
                        f_t = [tb for val, tb in t["targets"] if val == 0]
                        for tb, is_none in ((t["otherwise"], none_when_true), (f_t[0] if f_t else None, not none_when_true)):
                            if tb is None:
                                continue
                            if is_none and assume != "pos":
                                stack.append((tb, delta, "zero", ret, fuzzy))
                            if not is_none and assume != "zero":
                                stack.append((tb, delta - 1, "pos", ret, fuzzy))
                        continue
                # `match depth.checked_sub(1)`: None = the depth was 0, Some = it was at least 1
                if v[0] == "discr" and self.kind == "counter" and delta == 0:
                    src = du.val_place((v[1][0], ()))
                    if src[0] == "call" and src[1] and src[1].endswith("::checked_sub") and src[2] and self.is_depth(src[2][0]) and const_int(strip_casts(src[2][1])) == 1:
                        for val, tb in t["targets"] + [[None, t["otherwise"]]]:
                            if cfg.blocks[tb]["term"]["k"] == "unreachable":
                                continue
                            if val == 1 or (val is None and not any(x[0] == 1 for x in t["targets"])):
                                if assume != "zero":
                                    stack.append((tb, delta, "pos", ret, fuzzy))
                            elif val == 0:
                                if assume != "pos":
                                    stack.append((tb, delta, "zero", ret, fuzzy))
                        continue
                c = self.cond(v, cls, delta) if t.get("discr_ty") == "bool" else None
                f_t = [tb for val, tb in t["targets"] if val == 0]
                false_b = f_t[0] if f_t else None
                true_b = t["otherwise"]
                if c is None or t.get("discr_ty") != "bool":
                    # a test that is not decided by the segment class or the depth (the Result of a helper, another property of the
                    # text): both ways are followed; what is found behind it is a possible, not a certain, outcome for this class
                    for s2 in {tb for _, tb in t["targets"]} | {t["otherwise"]}:
                        if not cfg.blocks[s2].get("cleanup") and cfg.blocks[s2]["term"]["k"] != "unreachable":
                            stack.append((s2, delta, assume, ret, True))
                    continue
                if c[0] == "seg":
                    stack.append((true_b if c[1] else false_b, delta, assume, ret, fuzzy))
                    continue
                _, when_true, when_false = c
                for tb, est in ((true_b, when_true), (false_b, when_false)):
                    if tb is None:
                        continue
                    if est is not None and assume is not None and est != assume:
                        continue       # contradicts what this path has already established
                    stack.append((tb, delta, est if est is not None else assume, ret, fuzzy))
                continue
            if k in ("goto", "drop", "assert", "falseedge", "falseunwind"):
                tgt = t.get("target")
                if isinstance(tgt, int):
                    stack.append((tgt, delta, assume, ret, fuzzy))
                continue
            if k == "unreachable":
                continue
            for s2 in cfg.succ.get(b, []):
                if not cfg.blocks[s2].get("cleanup"):
                    stack.append((s2, delta, assume, ret, fuzzy))
        return outs


def precision_verdicts(fn):
    """the other direction (C02: a path that stays inside must not be refused): the kept depth is EXACTLY the real depth - a name adds
    one, '.' and '' add nothing, '..' takes one away - and '..' answers true only where depth == 0 has been established"""
    sh = find_shape(fn)
    if sh is None or not sh.depths:
        return None
    kind, D = sh.depths[0]
    ev = SegEval(fn, sh, kind, D)
    res = []
    for cls in CLASSES:
        want = {"..": -1, ".": 0, "": 0, "<name>": 1}[cls]
        for o in ev.run(cls):
            if len(o) > 4 and o[4]:
                continue        # behind an undecided test: not a certain outcome for this class
            if o[0] == "next":
                ok = o[1] == want
                res.append((cls, ok, "next segment with depth%+d%s" % (o[1], "" if ok else " (the real depth changes by %+d: paths that stay inside would be refused later, or the check is unsound)" % want), o[3]))
            elif o[0] == "return" and cls == ".." and o[1] is True:
                ok = o[2] == "zero"
                res.append((cls, ok, "answers 'outside' for '..'%s" % (" at depth 0" if ok else " on a path that has not established depth == 0: 'a/../b' stays inside and is refused"), o[3]))
    return res


def verdicts(fn):
    """[(class, ok, why, line)] plus shape notes; None when the predicate is not a segment walk with a depth"""
    sh = find_shape(fn)
    if sh is None or not sh.depths:
        return None, "no loop over the split path with a depth counter / stack"
    cfg, du = cfg_of(fn), du_of(fn)
    kind, D = sh.depths[0]
    res = []
    if len(sh.depths) > 1:
        res.append(("shape", False, "more than one depth candidate: %s" % [fn.local_name(l) for _, l in sh.depths], fn.span["line"]))
    # the depth starts at zero
    if kind == "counter":
        for d in du.defs.get(D, []):
            if d[1] in sh.loop.body:
                continue
            ok = d[0] == "assign" and d[3]["k"] == "use" and d[3]["ops"][0].get("k") == "const" and d[3]["ops"][0].get("v") == 0
            res.append(("init", ok, "the depth starts at %s" % (d[3]["ops"][0].get("v") if d[0] == "assign" and d[3]["k"] == "use" else "a computed value"), cfg.blocks[d[1]]["term"]["span"]["line"]))
    else:
        for d in du.defs.get(D, []):
            if d[1] in sh.loop.body:
                continue
            ok = d[0] == "call" and (callee_name(d[3]) or "").endswith(("Vec::<T>::new", "Vec::<T>::with_capacity"))
            res.append(("init", ok, "the stack starts as %s" % (callee_name(d[3]) if d[0] == "call" else "a computed value"), cfg.blocks[d[1]]["term"]["span"]["line"]))
    ev = SegEval(fn, sh, kind, D)
    for cls in CLASSES:
        outs = ev.run(cls)
        bound = {"..": -1, ".": 0, "": 0, "<name>": 1}[cls]
        if not outs:
            res.append((cls, False, "no path through the loop body was found", fn.span["line"]))
        for o in outs:
            if o[0] == "unknown":
                res.append((cls, False, "UNDECIDED: " + o[1], o[2]))
            elif o[0] == "return":
                ok = o[1] is True
                res.append((cls, ok, "returns %s from inside the walk%s" % (o[1], "" if ok else ": the segments that follow are never looked at"), o[3]))
            else:
                ok = o[1] <= bound and (cls != ".." or o[2] == "pos")
                why = "next segment with depth%+d%s" % (o[1], " (depth >= 1 established)" if o[2] == "pos" else (" (depth == 0 on this path)" if o[2] == "zero" else ""))
                if not ok:
                    why += ": allowed is at most depth%+d%s" % (bound, ", and only where depth >= 1 has been established (at depth 0 the answer must be true)" if cls == ".." else "")
                res.append((cls, ok, why, o[3]))
    return res, "%s `%s`" % (kind, fn.local_name(D))
