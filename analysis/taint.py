"""A7 (interprocedural part): flow-insensitive local dependency closure per function and a context-insensitive taint
fixpoint (parameter taint from call sites, return taint from bodies) over a set of functions."""
from .callgraph import callee_name
from .cfg import cfg_of


def _places_in_operand(o, out):
    if o.get("k") in ("copy", "move"):
        out.append((o["l"], o["p"]))


import re as _re
_IO_STREAM_TY = _re.compile(r"&mut (impl [^,]*\b(Write|Read)\b.*|std::net::TcpStream|std::io::Std(out|err)(Lock<'_>)?|dyn [^,]*\b(Write|Read)\b.*)$")


class LocalDeps:
    """deps[d] = locals that some definition of d reads (assignments, call arguments -> destination)"""

    def __init__(self, fn):
        self.fn = fn
        self.deps = {}
        self.field_reads = {}   # local -> set of field names read into it
        through = []
        prov = {}
        for b in fn.blocks:
            if b["cleanup"]:
                continue
            for s in b["stmts"]:
                if s["k"] != "assign":
                    continue
                d = s["place"]["l"]
                rv = s["rv"]
                srcs = []
                for o in rv.get("ops", []):
                    _places_in_operand(o, srcs)
                if "place" in rv:
                    srcs.append((rv["place"]["l"], rv["place"]["p"]))
                for l, proj in srcs:
                    self.deps.setdefault(d, set()).add(l)
                    for e in proj:
                        if isinstance(e, dict) and "n" in e:
                            self.field_reads.setdefault(d, set()).add(e["n"])
                # pointer provenance: d is a copy / cast / borrow of (a part of) another local
                if rv["k"] in ("use", "cast", "ref", "rawptr"):
                    for l, _ in srcs:
                        prov.setdefault(d, set()).add(l)
                # a write through a pointer/reference also changes whatever the pointer was derived from
                if "*" in s["place"]["p"]:
                    through.append((d, [l for l, _ in srcs]))
            t = b["term"]
            if t["k"] == "call":
                d = t["dest"]["l"]
                for a in t["args"]:
                    srcs = []
                    _places_in_operand(a, srcs)
                    for l, proj in srcs:
                        self.deps.setdefault(d, set()).add(l)
                        for e in proj:
                            if isinstance(e, dict) and "n" in e:
                                self.field_reads.setdefault(d, set()).add(e["n"])
                # a callee that receives `&mut x` may write x from its other arguments
                # (not a socket-like stream: what is read from a connection later is the peer's data, not what was written to it before)
                muts = [a for a, ty in zip(t["args"], t.get("arg_tys", [])) if ty.startswith("&mut ") and a.get("k") in ("copy", "move")
                        and not _IO_STREAM_TY.match(ty)]
                for m in muts:
                    others = []
                    for a in t["args"]:
                        if a is m:
                            continue
                        srcs = []
                        _places_in_operand(a, srcs)
                        for l, _ in srcs:
                            self.deps.setdefault(m["l"], set()).add(l)
                            others.append(l)
                    # ... and what it writes lands in whatever the `&mut` was borrowed from (`v.push(x)`: v depends on x)
                    if others:
                        through.append((m["l"], others))
        self._closure = {}
        for d, srcs in through:
            seen = {d}
            stack = [d]
            while stack:
                x = stack.pop()
                for y in prov.get(x, ()):
                    if y not in seen:
                        seen.add(y)
                        stack.append(y)
            for y in seen:
                if y != d:
                    self.deps.setdefault(y, set()).update(srcs)
        self._closure = {}

    def closure(self, l):
        c = self._closure.get(l)
        if c is not None:
            return c
        seen = {l}
        stack = [l]
        while stack:
            x = stack.pop()
            for y in self.deps.get(x, ()):
                if y not in seen:
                    seen.add(y)
                    stack.append(y)
        self._closure[l] = seen
        return seen


_ld_cache = {}


def local_deps(fn):
    d = _ld_cache.get(id(fn))
    if d is None:
        d = LocalDeps(fn)
        _ld_cache[id(fn)] = d
    return d


class Taint:
    """Seeds: reads of the given field names (e.g. request_uri). tainted_params[f] = set of 1-based arg locals."""

    def __init__(self, F, fns, seed_fields, cut_sites=frozenset(), G=None):
        self.F = F
        self.G = G
        self._site_targets = {}
        if G is not None:
            for src, edges in G.out.items():
                for e in edges:
                    if e.kind in ("call", "trait-cha"):
                        self._site_targets.setdefault((src, e.block), []).append(e.dst)
        self.fns = [f for f in fns if f in F.fns]
        self.seed_fields = set(seed_fields)
        self.cut_sites = cut_sites          # {(fn, block)} call sites that do not propagate (sanitised)
        self.tparams = {f: set() for f in self.fns}
        self.tret = {f: False for f in self.fns}
        self._run()

    def seeds(self, fn):
        ld = local_deps(fn)
        return {l for l, fields in ld.field_reads.items() if fields & self.seed_fields}

    def tainted_locals(self, fn):
        ld = local_deps(fn)
        seeds = set(self.seeds(fn)) | set(self.tparams.get(fn.def_, ()))
        # results of calls to functions whose return value is tainted by their own body
        for bid, t in fn.calls():
            c = callee_name(t)
            if c in self.tret and self.tret[c]:
                seeds.add(t["dest"]["l"])
        out = set()
        for l in range(len(fn.locals)):
            if ld.closure(l) & seeds:
                out.add(l)
        return out

    def _run(self):
        changed = True
        it = 0
        while changed and it < 50:
            changed = False
            it += 1
            for name in self.fns:
                fn = self.F.fns[name]
                tl = self.tainted_locals(fn)
                if 0 in tl and not self.tret[name]:
                    self.tret[name] = True
                    changed = True
                # a closure built here captures its environment: tainted captures taint the closure's environment parameter
                for b in fn.blocks:
                    if b["cleanup"] or (name, b["id"]) in self.cut_sites:
                        continue
                    for st in b["stmts"]:
                        if st["k"] == "assign" and st["rv"].get("closure") in self.tparams and 1 not in self.tparams[st["rv"]["closure"]]:
                            if any(o.get("k") in ("copy", "move") and o["l"] in tl for o in st["rv"].get("ops", [])):
                                self.tparams[st["rv"]["closure"]].add(1)
                                changed = True
                for bid, t in fn.calls():
                    if (name, bid) in self.cut_sites:
                        continue
                    c = callee_name(t)
                    targets = [c] if c in self.tparams else []
                    for x in self._site_targets.get((name, bid), []):
                        if x in self.tparams and x not in targets:
                            targets.append(x)
                    for tg in targets:
                        for i, a in enumerate(t["args"]):
                            if a.get("k") in ("copy", "move") and a["l"] in tl:
                                if (i + 1) not in self.tparams[tg]:
                                    self.tparams[tg].add(i + 1)
                                    changed = True

    def arg_tainted(self, fn, t, idx):
        if idx >= len(t["args"]):
            return False
        a = t["args"][idx]
        if a.get("k") not in ("copy", "move"):
            return False
        return a["l"] in self.tainted_locals(fn)
