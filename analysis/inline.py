"""A11: MIR-level inlining of private helper functions.

The structural rules are intraprocedural: they look for a shape (a loop that exits when the read returns nothing, a lock that is released
before the task runs, a header pushed under a test) inside ONE function body. An extract-function refactoring moves part of the shape into a
helper and must not change any verdict. `inlined(F, fn)` returns a function object with the same interface as facts.Fn in which every call to
an inlinable callee is replaced by the callee's blocks:

  * callee locals and blocks are renumbered behind the caller's (caller block ids and local numbers are unchanged, so loop headers, sites
    and keys computed on the plain function stay valid);
  * the call becomes `param_i' = arg_i` assignments + goto callee entry; a callee `return` becomes `dest = _0'` + goto the call's target;
  * inlining is repeated inside the inlined body up to a depth / size bound; recursion is never unrolled.

Which callees: functions of the rws crate that are NOT `pub` (a helper introduced by a refactoring is private; every role anchor of the rules -
containment predicate, 400 constructor, default-header builder, controllers, bootstrap stages - is a public function and stays a call), unless
the caller of `inlined` widens or narrows that with `also` / `keep`."""
import copy
import re as _re
from .facts import Fn

CLOSURE_CALLS = ("std::ops::Fn::call", "std::ops::FnMut::call_mut", "std::ops::FnOnce::call_once")
MAX_DEPTH = 4
MAX_BLOCKS = 6000


def is_private_helper(F, name):
    g = F.fns.get(name)
    return g is not None and g.crate == "rws" and g.kind in ("Fn", "AssocFn") and (g.vis or "").startswith("Restricted")


def _ren_place(p, lo):
    out = {"l": p["l"] + lo, "p": []}
    for e in p.get("p", []):
        if isinstance(e, dict) and "i" in e and len(e) == 1:
            out["p"].append({"i": e["i"] + lo})
        else:
            out["p"].append(e)
    return out


def _ren_operand(o, lo):
    if o.get("k") in ("copy", "move"):
        n = dict(o)
        rp = _ren_place(o, lo)
        n["l"], n["p"] = rp["l"], rp["p"]
        return n
    return o


def _ren_rvalue(rv, lo):
    n = dict(rv)
    if "ops" in rv:
        n["ops"] = [_ren_operand(o, lo) for o in rv["ops"]]
    if rv.get("place") is not None:
        n["place"] = _ren_place(rv["place"], lo)
    return n


def _ren_stmt(s, lo):
    n = dict(s)
    if s["k"] == "assign":
        n["place"] = _ren_place(s["place"], lo)
        n["rv"] = _ren_rvalue(s["rv"], lo)
    elif s["k"] in ("live", "dead"):
        n["l"] = s["l"] + lo
    elif "place" in s and isinstance(s["place"], dict):
        n["place"] = _ren_place(s["place"], lo)
    return n


def _ren_term(t, lo, bo):
    n = dict(t)
    k = t["k"]
    for key in ("target", "unwind", "otherwise"):
        if isinstance(t.get(key), int):
            n[key] = t[key] + bo
    if k == "switch":
        n["discr"] = _ren_operand(t["discr"], lo)
        n["targets"] = [[v, tb + bo] for v, tb in t["targets"]]
    elif k == "call":
        n["args"] = [_ren_operand(a, lo) for a in t["args"]]
        if t.get("dest") is not None:
            n["dest"] = _ren_place(t["dest"], lo)
        if t.get("func") is not None and isinstance(t["func"], dict):
            n["func"] = _ren_operand(t["func"], lo)
    elif k == "assert":
        n["cond"] = _ren_operand(t["cond"], lo)
        n["ops"] = [_ren_operand(o, lo) for o in t.get("ops", [])]
    elif k == "drop":
        n["place"] = _ren_place(t["place"], lo)
    return n


def inlined(F, fn, also=(), keep=(), max_depth=MAX_DEPTH):
    """facts.Fn with private helpers (and the callees named in `also`) inlined; callees named in `keep` always stay calls"""
    key = (fn.def_, tuple(sorted(also)), tuple(sorted(keep)), max_depth)
    cache = F.__dict__.setdefault("_inline_cache", {})
    if key in cache:
        return cache[key]
    from .callgraph import callee_name
    raw = {k: v for k, v in fn.raw.items() if k not in ("locals", "blocks", "debug")}
    locals_ = list(fn.raw["locals"])
    debug = list(fn.raw["debug"])
    blocks = [copy.copy(b) for b in fn.raw["blocks"]]
    for b in blocks:
        b["stmts"] = list(b["stmts"])
    origin = {b["id"]: fn.def_ for b in blocks}
    depth_of = {b["id"]: 0 for b in blocks}
    stack_of = {b["id"]: (fn.def_,) for b in blocks}
    inlined_callees = []
    work = [b["id"] for b in blocks]
    while work:
        bid = work.pop(0)
        b = blocks[bid]
        t = b["term"]
        if t["k"] != "call" or b.get("cleanup"):
            continue
        name = callee_name(t)
        if not name or name in keep:
            continue
        g = F.fns.get(name)
        if g is None:
            continue
        # a closure of the crate called directly (`let header = |n, v| Header{..}; header(a, b)`): a local helper like any other.
        # (closures handed to std combinators are called inside std and are not seen here)
        closure_call = g.kind == "Closure" and g.crate == "rws" and (t.get("callee") or "") in CLOSURE_CALLS and len(t["args"]) == 2 \
            and t["args"][1].get("k") in ("copy", "move")
        if g.kind not in ("Fn", "AssocFn") and not closure_call:
            continue
        if not (closure_call or is_private_helper(F, name) or name in also):
            continue
        if name in stack_of[bid] or depth_of[bid] >= max_depth or len(blocks) + len(g.raw["blocks"]) > MAX_BLOCKS:
            continue
        lo, bo = len(locals_), len(blocks)
        locals_.extend(g.raw["locals"])
        for d in g.raw["debug"]:
            nd = dict(d)
            nd["l"] = d["l"] + lo
            nd.pop("arg", None)
            debug.append(nd)
        target, unwind, dest = t.get("target"), t.get("unwind"), t.get("dest")
        for gb in g.raw["blocks"]:
            nb = {"id": gb["id"] + bo, "cleanup": gb.get("cleanup", False), "stmts": [_ren_stmt(s, lo) for s in gb["stmts"]]}
            gt = gb["term"]
            if gt["k"] == "return":
                sp = gt.get("span") or t.get("span")
                if dest is not None:
                    nb["stmts"].append({"k": "assign", "place": dest, "rv": {"k": "use", "ops": [{"k": "move", "l": lo, "p": []}]}, "span": sp})
                nb["term"] = {"k": "goto", "target": target, "span": sp} if isinstance(target, int) else {"k": "unreachable", "span": sp}
            elif gt["k"] == "resume" and isinstance(unwind, int):
                nb["term"] = {"k": "goto", "target": unwind, "span": gt.get("span")}
            else:
                nb["term"] = _ren_term(gt, lo, bo)
                # a generic private helper `fn offer<C: Controller>(..) { C::is_matching(..) .. }` called as `offer::<Index>(..)`: inside
                # this copy the trait call on the type parameter is the call on the concrete type
                nt = nb["term"]
                cg = t.get("gargs") or []
                if nt["k"] == "call" and not nt.get("is_resolved") and len(cg) == 1 and "::" in cg[0] and nt.get("gargs") \
                        and _re.fullmatch(r"[A-Z]\w*", nt["gargs"][0] or "") and "::" in (nt.get("callee") or ""):
                    trait_path, method = nt["callee"].rsplit("::", 1)
                    cand = "<%s as %s>::%s" % (cg[0], trait_path, method)
                    if cand in F.fns:
                        nt["resolved"], nt["is_resolved"], nt["gargs"] = cand, True, [cg[0]] + list(nt["gargs"][1:])
            blocks.append(nb)
            origin[nb["id"]] = name
            depth_of[nb["id"]] = depth_of[bid] + 1
            stack_of[nb["id"]] = stack_of[bid] + (name,)
            work.append(nb["id"])
        # the call site: bind the parameters, jump to the callee's entry
        sp = t.get("span")
        if closure_call:
            # Fn::call(&closure, (a, b, ..)): the body's first parameter is the closure itself, the others are the fields of the tuple
            b["stmts"].append({"k": "assign", "place": {"l": lo + 1, "p": []}, "rv": {"k": "use", "ops": [t["args"][0]]}, "span": sp})
            tup = t["args"][1]
            for i in range(max(0, g.nargs - 1)):
                fld = {"k": "copy", "l": tup["l"], "p": list(tup["p"]) + [{"f": i, "n": str(i)}]}
                b["stmts"].append({"k": "assign", "place": {"l": lo + 2 + i, "p": []}, "rv": {"k": "use", "ops": [fld]}, "span": sp})
        else:
          for i, a in enumerate(t["args"]):
            b["stmts"].append({"k": "assign", "place": {"l": lo + 1 + i, "p": []}, "rv": {"k": "use", "ops": [a]}, "span": sp})
        b["term"] = {"k": "goto", "target": bo, "span": sp, "inlined_call": name}
        inlined_callees.append(name)
    raw["locals"], raw["blocks"], raw["debug"] = locals_, blocks, debug
    out = Fn(raw, fn.crate)
    IN_INFO[id(out)] = {"origin": origin, "callees": inlined_callees, "of": fn}
    _keep_alive.append(out)
    cache[key] = out if inlined_callees else fn
    return cache[key]


IN_INFO = {}
_keep_alive = []


def origin_of(fn, bid):
    """the function a block of an inlined body came from"""
    info = IN_INFO.get(id(fn))
    if info is None:
        return fn.def_
    return info["origin"].get(bid, fn.def_)
