#!/bin/bash
# extract.sh <repo_dir> <out_facts_dir> [dev|release|test]
# Runs the rws-facts driver as RUSTC_WRAPPER under `cargo +nightly check` on a fresh target dir.
set -e
REPO=${1:-/repo}; OUT=${2:?out dir}; CFG=${3:-dev}
HERE=$(cd "$(dirname "$0")" && pwd)
DRV=$HERE/extractor/target/release/rws-facts
if [ ! -x "$DRV" ] || [ -n "$(find $HERE/extractor/src $HERE/extractor/Cargo.toml -newer "$DRV" 2>/dev/null)" ]; then
  (cd $HERE/extractor && CARGO_NET_OFFLINE=true cargo build --release --offline >&2)
fi
mkdir -p "$OUT"
rm -f "$OUT"/*.json
TGT=$(mktemp -d /tmp/rws-verif-tgt.XXXXXX)
trap 'rm -rf "$TGT"' EXIT
EXTRA=""
case "$CFG" in
  release) EXTRA="--release";;
  test) EXTRA="--tests";;
esac
cd "$REPO"
LD_LIBRARY_PATH=$(rustc +nightly --print sysroot)/lib \
RWS_FACTS_DIR="$OUT" \
RUSTFLAGS="-Zmir-opt-level=0 -Coverflow-checks=on -Awarnings" \
RUSTC_WRAPPER="$DRV" CARGO_NET_OFFLINE=true \
CARGO_TARGET_DIR="$TGT" cargo +nightly check --offline $EXTRA >"$OUT/cargo.log" 2>&1 || { cat "$OUT/cargo.log" >&2; exit 2; }
